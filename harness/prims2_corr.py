#!/venv/bin/python
"""Correspondence of the hand models of `AdaptiveModel/Prims2.lean` (driver ops `prims2 call <name> <bit patterns>`) with
the real functions of `adaptive`, on the level of the bit patterns of the doubles.

usage: prims2_corr.py [--lean DIR] [--seed N] [--n CASES_PER_CATEGORY]

How the real functions are called
* `learner2D.areas / uniform_loss / minimize_triangle_surface_loss` take an interpolator `ip`:
  (1) a REAL `scipy.interpolate.LinearNDInterpolator(points, values)` over 3 points (one triangle) and over 4..7 points
      (several triangles); EVERY triangle k is compared, points in the order `ip.tri.points[ip.tri.simplices[k]]`, values
      `ip.values[ip.tri.simplices[k], 0]`;
  (2) a stub `SimpleNamespace(tri=SimpleNamespace(points=P, simplices=S), values=V.reshape(-1, 1))` with the 6 vertex
      orders of one triangle as 6 "simplices" (also for collinear / repeated points, where Qhull raises); for every real
      interpolator it is checked that the stub with the same tables gives the same arrays bit for bit;
  the constant `c` of `l2d_surface_loss` is `(np.ptp(ip.values, axis=0).max() or 1)`, the expression of the library;
  `l2d_value_scale min,max` is compared with it.
* `learner2D.choose_point_in_triangle(np.array(tri), max_badness)` directly, max_badness in {5, 1, 2, 1.5, 10, 100, 0.5};
  the library does not return the badness / the index of the longest edge: they are recomputed with numpy following the
  source lines (`py_badness`).
* `learner1D.resolution_loss_function(lo, hi)((x0, x1), (y0, y1))`,
  `learner1D.curvature_loss_function(af, ef, hf)(xs, ys)` with xs = (x0, x1, x2, x3) / (None, x1, x2, x3) /
  (x0, x1, x2, None) / (None, x1, x2, None) (python floats, as the learner passes them).
* `learnerND.default_loss([(x0, y0), (x1, y1), (x2, y2)], [v0, v1, v2], value_scale)`; ValueError = `raised`; the
  intermediate `vol_square` is recomputed following the lines of `simplex_volume_in_embedding`; both sides are also
  compared with the exact area (fractions.Fraction, `|cross(a, b)|^2 / 4`).  `nd_default_loss2` is the exact model
  (cofactor expansion of the Cayley-Menger determinant: within ND_ALLOWED ulp on well-conditioned triangles);
  `nd_default_loss2_np` / `nd_default_loss2_volsq_np` evaluate the same model with the determinant taken by the
  operation-by-operation emulation of `numpy.linalg.det` (Drv/NumpyDet.lean): BIT-EXACT on every category, including
  thin / exactly degenerate triangles and the inputs the library rejects with ValueError.
* `triangulation.orientation([(f0x, f0y), (f1x, f1y)], (ox, oy))` (and 3 points of space): the SIGN only, on inputs whose
  exact determinant (of the floating point differences `face - origin`, which is what both sides see) is neither within
  a factor 2 of exp(-50) nor within rounding distance of 0; `orientation_det2/3` is compared bit for bit with the real
  `triangulation.fast_det(array(face) - origin)`.

Tolerances (units in the last place): see ALLOWED / ND_ALLOWED.  Modes of a comparison: `cmp` (a mismatch is a
disagreement: exit code 1), `measure` (reported only: ill-conditioned default loss, inadmissible orientation inputs,
curvature loss with factors of mixed sign), a `cmp` of `l2d_choose(_branch)` whose real badness is within 4 ulp of
max_badness is excused (counted separately).
"""
import argparse
import itertools
import math
import struct
import subprocess
import sys
import types
import warnings
from collections import Counter, defaultdict
from decimal import Decimal, getcontext
from fractions import Fraction

import numpy as np


def _real():
    import scipy.spatial.distance as ssd
    from scipy.interpolate import LinearNDInterpolator

    from adaptive.learner import learner1D, learner2D, learnerND, triangulation
    return types.SimpleNamespace(
        areas=learner2D.areas, uniform_loss=learner2D.uniform_loss,
        surface_loss=learner2D.minimize_triangle_surface_loss, choose=learner2D.choose_point_in_triangle,
        resolution=learner1D.resolution_loss_function, curvature=learner1D.curvature_loss_function,
        nd_default_loss=learnerND.default_loss, orientation=triangulation.orientation, fast_det=triangulation.fast_det,
        LinearNDInterpolator=LinearNDInterpolator, ssd=ssd)


def bits(x):
    return struct.unpack("<Q", struct.pack("<d", float(x)))[0]


def frombits(n):
    return struct.unpack("<d", struct.pack("<Q", n))[0]


def _ord(b):
    return b if b < (1 << 63) else (1 << 63) - b


def ulpdist(x, y):
    """distance in units of the last place; NaN to NaN is 0, NaN to a number is 'infinite'"""
    x, y = float(x), float(y)
    if x != x and y != y:
        return 0
    if x != x or y != y:
        return 1 << 64
    return abs(_ord(bits(x)) - _ord(bits(y)))


def same_bits(x, y):
    return bits(x) == bits(y) or (x != x and y != y)


# ---------------------------------------------------------------- tolerances
MBS = [5, 1, 2, 1.5, 10, 100, 0.5]
ALLOWED = {"l2d_area": 0, "l2d_uniform_loss": 0, "l2d_surface_loss": 0, "l2d_value_scale": 0, "l2d_choose": 0,
           "l2d_badness": 3, "l2d_longest": 0, "l2d_choose_branch": 0, "l1d_resolution_loss": 1,
           "l1d_curvature_loss4": 4, "l1d_curvature_loss3l": 4, "l1d_curvature_loss3r": 4, "l1d_curvature_loss2": 4,
           "orientation2": 0, "orientation3": 0, "orientation_det2": 0, "orientation_det3": 0, "orientation_thr": 0}
# nd_default_loss2 (numpy LU against cofactor expansion of the Cayley-Menger determinant): allowed ulp per category for the
# WELL-CONDITIONED cases (exact area^2 >= ND_WELL * (max squared edge)^2), 4 x the maximum measured over the seeds
# 20261001, 1, 2 with --n 400 (wellval 36, random 30, right 56, ties 36, flat 34, intvals 39, bigvals 29, smallvals 37,
# far 27; thin / degenerate triangles are never well-conditioned: the largest bound).  With ND_WELL = 1/1000 the measured
# maxima were 3 - 5 times larger (up to 220): the distance grows with (max squared edge)^2 / area^2.
ND_WELL = Fraction(1, 100)
ND_ALLOWED = {"wellval": 144, "random": 120, "right": 224, "ties": 144, "flat": 136, "intvals": 156, "bigvals": 116,
              "smallvals": 148, "thin": 224, "far": 108, "degenerate": 224}


# ---------------------------------------------------------------- generators (all seeded)
def g_well(rng):
    """well shaped: a perturbed equilateral triangle, random rotation"""
    a = rng.uniform(0, 2 * np.pi)
    ang = a + np.array([0, 2 * np.pi / 3, 4 * np.pi / 3]) + rng.normal(scale=0.15, size=3)
    r = rng.uniform(0.7, 1.3, size=3)
    return np.stack([r * np.cos(ang), r * np.sin(ang)], axis=1)


def g_random(rng):
    return rng.normal(size=(3, 2))


def g_thin(rng):
    """thin: third point very close to the line through the first two"""
    p0, p1 = rng.normal(size=2), rng.normal(size=2)
    lam = rng.uniform(-0.5, 1.5)
    d = p1 - p0
    n = np.array([-d[1], d[0]])
    h = 10.0 ** rng.uniform(-12, -1) * rng.choice([-1, 1])
    pts = np.stack([p0, p1, p0 + lam * d + h * n])
    return pts[rng.permutation(3)]


def g_right(rng):
    """exact right angle on a lattice, also rotated by a pythagorean direction"""
    k, l = rng.integers(1, 9, size=2)
    a, b = [(1, 0), (0, 1), (3, 4), (4, 3), (5, 12), (1, 1), (1, 2), (2, 1), (8, 15)][rng.integers(0, 9)]
    if rng.random() < 0.5:
        a = -a
    o = rng.integers(-8, 9, size=2).astype(float)
    pts = np.stack([o, o + k * np.array([a, b], float), o + l * np.array([-b, a], float)]) / 2.0 ** rng.integers(0, 4)
    return pts[rng.permutation(3)]


def g_ties(rng):
    """exact ties of edge lengths (isosceles, dyadic coordinates; the rounded equilateral triangle)"""
    kind = rng.integers(0, 5)
    if kind == 0:
        w, h = rng.integers(1, 9), rng.integers(1, 17)
        pts = np.array([[-w, 0], [w, 0], [0, h]], float)
    elif kind == 1:
        a, b = rng.integers(1, 9, size=2)
        pts = np.array([[0, 0], [a, b], [b, a]], float)
    elif kind == 2:
        a, b = rng.integers(1, 9, size=2)
        pts = np.array([[0, 0], [a, b], [a, -b]], float)
    elif kind == 3:
        pts = np.array([[[-3, 0], [3, 0], [0, 4]], [[-4, 0], [4, 0], [0, 3]], [[-5, 0], [5, 0], [0, 12]],
                        [[-12, 0], [12, 0], [0, 5]]][rng.integers(0, 4)], float)
    else:
        pts = np.array([[0, 0], [1, 0], [0.5, np.sqrt(3) / 2]], float) * rng.integers(1, 9)
    if rng.random() < 0.5:
        pts = pts[:, ::-1].copy()
    pts = pts / 2.0 ** rng.integers(0, 4) + rng.integers(-4, 5, size=2)
    return pts[rng.permutation(3)]


def g_degenerate(rng):
    """collinear (exactly: small integers), repeated vertices, all vertices equal"""
    kind = rng.integers(0, 4)
    o = rng.integers(-8, 9, size=2).astype(float)
    d = rng.integers(-5, 6, size=2).astype(float)
    if kind == 0:
        ks = rng.permutation(np.arange(-6, 7))[:3]
        pts = np.stack([o + k * d for k in ks])
    elif kind == 1:
        pts = np.stack([o, o, o + d])[rng.permutation(3)]
    elif kind == 2:
        pts = np.stack([o, o, o])
    else:
        ks = rng.permutation(np.arange(-6, 7))[:3].astype(float)
        pts = np.stack([np.array([k, 0.0]) for k in ks]) + o
        if rng.random() < 0.5:
            pts = pts[:, ::-1].copy()
    return pts.astype(float)


def g_far(rng):
    """far from the origin: offset 1e3 .. 1e9 times the size"""
    base = [g_well, g_random, g_thin, g_right, g_ties][rng.integers(0, 5)](rng)
    off = rng.normal(size=2) * 10.0 ** rng.uniform(3, 9)
    if rng.random() < 0.3:
        off = np.round(off)
    return base + off


TRI_GENS = [("well", g_well), ("random", g_random), ("thin", g_thin), ("right", g_right), ("ties", g_ties),
            ("degenerate", g_degenerate), ("far", g_far)]
PERMS = [list(p) for p in itertools.permutations(range(3))]


def scale_pow2(rng, name, *arrs, lo=-20, hi=20):
    """common exact scale 2^k (the far category only half of the time)"""
    if name != "far" or rng.random() < 0.5:
        sc = 2.0 ** rng.integers(lo, hi + 1)
        return [a * sc for a in arrs]
    return list(arrs)


def g_values(rng, m):
    """normal * 10^uniform(-3, 3); sometimes all equal (ptp 0 -> constant 1), sometimes integers"""
    u = rng.random()
    if u < 0.15:
        return np.full(m, rng.normal() * 10.0 ** rng.uniform(-3, 3))
    if u < 0.30:
        return rng.integers(-9, 10, size=m).astype(float)
    if u < 0.45:
        return rng.normal(size=m) * 10.0 ** rng.uniform(-3, 3, size=m)
    return rng.normal(size=m) * 10.0 ** rng.uniform(-3, 3)


# ---------------------------------------------------------------- records
class Rec:
    __slots__ = ("fn", "cat", "src", "line", "real", "allowed", "mode", "near", "info")

    def __init__(self, fn, cat, args, real, allowed=None, mode="cmp", src="", near=False, info=None):
        self.fn, self.cat, self.src = fn, cat, src
        self.line = "prims2 call " + fn + " " + (",".join(str(bits(v)) for v in args) if len(args) else "-")
        self.real = real if isinstance(real, str) else tuple(float(v) for v in real)
        self.allowed = ALLOWED[fn] if allowed is None else allowed
        self.mode, self.near = mode, near
        self.info = info if info is not None else {"args": [float(v) for v in args]}

    def impl(self):
        if isinstance(self.real, str):
            return "0|" + self.real
        return f"{self.allowed}|" + ",".join("#%d" % bits(v) for v in self.real)


def quiet(f, *a, **k):
    with warnings.catch_warnings():
        warnings.simplefilter("ignore")
        with np.errstate(all="ignore"):
            return f(*a, **k)


# ---------------------------------------------------------------- A. Learner2D
def make_stub(P, S, V):
    return types.SimpleNamespace(tri=types.SimpleNamespace(points=np.asarray(P, float), simplices=np.asarray(S)),
                                 values=np.asarray(V, float).reshape(-1, 1))


def l2d_records(R, ip, cat, src, out):
    A = quiet(R.areas, ip)
    U = quiet(R.uniform_loss, ip)
    S = quiet(R.surface_loss, ip)
    c = quiet(lambda: (np.ptp(ip.values, axis=0).max() or 1))
    out.append(Rec("l2d_value_scale", cat, [ip.values.min(), ip.values.max()], (c,), src=src))
    for k, s in enumerate(ip.tri.simplices):
        p = ip.tri.points[s]
        v = ip.values[s, 0]
        xy = [float(t) for t in p.reshape(-1)]
        out.append(Rec("l2d_area", cat, xy, (A[k],), src=src))
        out.append(Rec("l2d_uniform_loss", cat, xy, (U[k],), src=src))
        out.append(Rec("l2d_surface_loss", cat, xy + [float(t) for t in v] + [float(c)], (S[k],), src=src))
    return A, U, S


def build_l2d(R, rng, n, out, stats):
    for name, g in TRI_GENS:
        for j in range(n):
            base = np.asarray(g(rng), float)
            m = int(rng.integers(4, 8))
            size = max(np.abs(base - base.mean(axis=0)).max(), 1e-3)
            if name in ("right", "ties", "degenerate"):  # stay on the lattice: exact collinearities with the extra points too
                extra = base[rng.integers(0, 3, size=m - 3)] + rng.integers(-4, 5, size=(m - 3, 2)) / 2.0
            else:
                extra = base.mean(axis=0) + size * rng.normal(size=(m - 3, 2))
            vals = g_values(rng, m)
            base, extra = scale_pow2(rng, name, base, extra)
            # (2) the stub: all 6 vertex orders
            l2d_records(R, make_stub(base, PERMS, vals[:3]), name, "stub6", out)
            # (1) real interpolators: 3 points, 4..7 points
            for src, P, V in (("real3", base, vals[:3]), ("realN", np.concatenate([base, extra]), vals)):
                if src == "realN" and j % 2:
                    continue
                try:
                    ip = quiet(R.LinearNDInterpolator, P, V)
                except Exception as e:  # noqa: BLE001 - QhullError on flat input
                    stats[f"l2d interpolator rejected by Qhull ({src}, {name}): {type(e).__name__}"] += 1
                    continue
                stats[f"l2d real interpolators ({src})"] += 1
                stats[f"l2d triangles of real interpolators ({src})"] += len(ip.tri.simplices)
                got = l2d_records(R, ip, name, src, out)
                st = make_stub(ip.tri.points, ip.tri.simplices, ip.values)
                ref = (quiet(R.areas, st), quiet(R.uniform_loss, st), quiet(R.surface_loss, st))
                ok = all(len(x) == len(y) and all(same_bits(s, t) for s, t in zip(x, y)) for x, y in zip(got, ref))
                stats["l2d stub == real interpolator (arrays bit for bit)" if ok else
                      "l2d STUB DIFFERS FROM REAL INTERPOLATOR"] += 1


def py_badness(tri):
    """the lines of learner2D.choose_point_in_triangle up to the badness"""
    from math import sqrt
    triangle = np.array(tri)
    a, b, c = triangle
    (ux, uy), (vx, vy) = b - a, c - a
    area = 0.5 * abs(ux * vy - uy * vx)
    triangle_roll = np.roll(triangle, 1, axis=0)
    edge_lengths = np.linalg.norm(triangle - triangle_roll, axis=1)
    i = edge_lengths.argmax()
    badness = (edge_lengths[i] ** 2 / area) * (sqrt(3) / 4)
    return float(area), edge_lengths, int(i), float(badness)


def build_choose(R, rng, n, out, stats):
    for name, g in TRI_GENS:
        for _ in range(n):
            pts0 = np.asarray(g(rng), float)
            (pts0,) = scale_pow2(rng, name, pts0)
            orders = PERMS if name == "ties" else [PERMS[0], PERMS[int(rng.integers(1, 6))]]
            for p in orders:
                pts = pts0[p]
                xy = [float(t) for t in pts.reshape(-1)]
                area, el, i, bad = quiet(py_badness, pts)
                ntie = int(np.sum(el == el.max()))
                stats[f"choose longest edge: {'unique' if ntie == 1 else 'tie of %d' % ntie}"] += 1
                stats["choose badness: " + ("nan" if bad != bad else "inf" if math.isinf(bad) else "finite")] += 1
                out.append(Rec("l2d_badness", name, xy, (bad,)))
                out.append(Rec("l2d_longest", name, xy, (float(i),)))
                mbs_branch = [MBS[0], MBS[int(rng.integers(1, len(MBS)))]]
                for mb in MBS:
                    r = quiet(R.choose, np.array(pts), mb)
                    near = bad == bad and not math.isinf(bad) and ulpdist(bad, float(mb)) <= 4
                    br = float(i) if bad > mb else 3.0
                    stats[f"choose branch (real): {'edge' if bad > mb else 'centroid'}"] += 1
                    out.append(Rec("l2d_choose", name, [float(mb)] + xy, (r[0], r[1]), near=near))
                    if mb in mbs_branch:
                        out.append(Rec("l2d_choose_branch", name, [float(mb)] + xy, (br,), near=near))


# ---------------------------------------------------------------- B. Learner1D
RES_CATS = ["min<dx<max", "dx<min<max", "min<max<dx", "dx==min", "dx==max", "max<dx<min", "dx<max<min", "max<min<dx",
            "min==max==dx", "ulp neighbours", "defaults 0,1"]


def build_resolution(R, rng, n, out, stats):
    for cat in RES_CATS:
        for _ in range(n):
            x0 = rng.normal() * 10.0 ** rng.uniform(-2, 2)
            if rng.random() < 0.3:
                x0 = float(np.round(x0))
            x1 = x0 + 10.0 ** rng.uniform(-6, 1)
            sc = 2.0 ** rng.integers(-20, 21)
            x0, x1 = x0 * sc, x1 * sc
            dx = x1 - x0
            u = rng.uniform
            if cat == "min<dx<max":
                lo, hi = dx * u(0.1, 0.9), dx * u(1.1, 10)
            elif cat == "dx<min<max":
                lo = dx * u(1.1, 3)
                hi = lo * u(1.1, 3)
            elif cat == "min<max<dx":
                hi = dx * u(0.1, 0.9)
                lo = hi * u(0.1, 0.9)
            elif cat == "dx==min":
                lo, hi = dx, dx * u(1.1, 10)
            elif cat == "dx==max":
                lo, hi = dx * u(0.1, 0.9), dx
            elif cat == "max<dx<min":
                hi, lo = dx * u(0.1, 0.9), dx * u(1.1, 10)
            elif cat == "dx<max<min":
                hi = dx * u(1.1, 3)
                lo = hi * u(1.1, 3)
            elif cat == "max<min<dx":
                lo = dx * u(0.5, 0.9)
                hi = lo * u(0.1, 0.9)
            elif cat == "min==max==dx":
                lo = hi = dx
            elif cat == "ulp neighbours":
                k = rng.integers(0, 4)
                lo, hi = dx * u(0.1, 0.9), dx * u(1.1, 10)
                if k == 0:
                    lo = np.nextafter(dx, np.inf)
                elif k == 1:
                    lo = np.nextafter(dx, -np.inf)
                elif k == 2:
                    hi = np.nextafter(dx, np.inf)
                else:
                    hi = np.nextafter(dx, -np.inf)
            else:
                lo, hi = 0, 1
            y0 = rng.normal() * 10.0 ** rng.uniform(-3, 3)
            y1 = y0 if rng.random() < 0.15 else rng.normal() * 10.0 ** rng.uniform(-3, 3)
            if rng.random() < 0.15:
                y0, y1 = float(np.round(y0)), float(np.round(y1))
            lo_, hi_ = (lo, hi) if cat == "defaults 0,1" else (float(lo), float(hi))
            r = quiet(R.resolution(lo_, hi_), (float(x0), float(x1)), (float(y0), float(y1)))
            r = float(r)
            kind = "0" if r == 0 else "inf" if math.isinf(r) else "loss"
            stats[f"resolution outcome (real): {kind}"] += 1
            # 0 / inf must be exact
            out.append(Rec("l1d_resolution_loss", cat, [lo, hi, x0, x1, y0, y1], (r,),
                           allowed=0 if kind != "loss" else None))


FACTORS = [(1, 0.02, 0.02), (1, 0, 0), (0, 1, 0), (0, 0, 1), (0.5, 2, 3)]
MIXED = [(1, -0.02, 0.02), (-1, 2, 3), (1, 0.02, -0.02), (-0.5, -2, 3)]


def build_curvature(R, rng, n, out, stats, mixed=True):
    for cat in ("random ys", "collinear ys"):
        for _ in range(n):
            if cat == "random ys":
                if rng.random() < 0.2:
                    xs = np.sort(rng.permutation(np.arange(-20, 21))[:4]).astype(float)
                else:
                    xs = np.sort(rng.normal(size=4) * 10.0 ** rng.uniform(-2, 2))
                    while len(set(xs.tolist())) < 4:
                        xs = np.sort(rng.normal(size=4))
                ys = rng.normal(size=4) * 10.0 ** rng.uniform(-3, 3)
            else:
                xs = np.sort(rng.permutation(np.arange(-20, 21))[:4]).astype(float)
                ys = float(rng.integers(-5, 6)) * xs + float(rng.integers(-9, 10))
            sc = 2.0 ** rng.integers(-20, 21)
            xs, ys = [float(t) for t in xs * sc], [float(t) for t in ys * (sc if cat == "collinear ys" else 1.0)]
            groups = [("", FACTORS, "cmp")] + ([(" (mixed signs)", MIXED[:2] if rng.random() < 0.5 else MIXED[2:],
                                                 "measure")] if mixed else [])
            for suffix, facs, mode in groups:
                for af, ef, hf in facs:
                    f = R.curvature(af, ef, hf)
                    x0, x1, x2, x3 = xs
                    y0, y1, y2, y3 = ys
                    variants = [("l1d_curvature_loss4", (x0, x1, x2, x3), (y0, y1, y2, y3), [x0, x1, x2, x3, y0, y1, y2, y3]),
                                ("l1d_curvature_loss3l", (None, x1, x2, x3), (None, y1, y2, y3), [x1, x2, x3, y1, y2, y3]),
                                ("l1d_curvature_loss3r", (x0, x1, x2, None), (y0, y1, y2, None), [x0, x1, x2, y0, y1, y2]),
                                ("l1d_curvature_loss2", (None, x1, x2, None), (None, y1, y2, None), [x1, x2, y1, y2])]
                    for fn, xa, ya, args in variants:
                        r = quiet(f, xa, ya)
                        out.append(Rec(fn, cat + suffix, [af, ef, hf] + args, (float(r),), mode=mode))


# ---------------------------------------------------------------- C. LearnerND default_loss
getcontext().prec = 60


def exact_area2(pts, vals):
    """exact squared area |cross(a, b)|^2 / 4 of the embedded triangle and its exact largest squared edge"""
    P = [(Fraction(float(p[0])), Fraction(float(p[1])), Fraction(float(v))) for p, v in zip(pts, vals)]
    a = [P[0][k] - P[2][k] for k in range(3)]
    b = [P[1][k] - P[2][k] for k in range(3)]
    cr = (a[1] * b[2] - a[2] * b[1], a[2] * b[0] - a[0] * b[2], a[0] * b[1] - a[1] * b[0])
    c = [P[0][k] - P[1][k] for k in range(3)]
    emax = max(sum(t * t for t in e) for e in (a, b, c))
    return sum(t * t for t in cr) / 4, emax


def relerr_sqrt(x, A2):
    """relative error of the double x against sqrt(A2), A2 an exact positive Fraction"""
    s = (Decimal(A2.numerator) / Decimal(A2.denominator)).sqrt()
    return float(abs(Decimal(float(x)) - s) / s)


def relerr(x, A2):
    a = Decimal(A2.numerator) / Decimal(A2.denominator)
    return float(abs(Decimal(float(x)) - a) / a)


def py_volsq(R, pts, vals):
    """the lines of triangulation.simplex_volume_in_embedding up to vol_square"""
    from math import factorial

    from numpy import asarray, concatenate, ones
    vertices = asarray([(*x, y) for x, y in zip(pts, vals)], dtype=float)
    sq_dists = R.ssd.pdist(vertices, metric="sqeuclidean")
    num_verts = R.ssd.num_obs_y(sq_dists)
    bordered = concatenate((ones(num_verts), sq_dists))
    sq_dists_mat = R.ssd.squareform(bordered)
    coeff = -((-2) ** (num_verts - 1)) * factorial(num_verts - 1) ** 2
    return float(R.fast_det(sq_dists_mat) / coeff), sq_dists


ND_CATS = ["wellval", "random", "right", "ties", "flat", "intvals", "bigvals", "smallvals", "thin", "far", "degenerate"]


def g_nd(rng, cat):
    if cat == "wellval":  # well shaped, |values| comparable to the coordinates
        pts = g_well(rng)
        vals = rng.normal(size=3)
    elif cat == "random":
        pts, vals = g_random(rng), g_values(rng, 3)
    elif cat == "right":
        pts = g_right(rng)
        vals = rng.normal(size=3) * 4 if rng.random() < 0.5 else rng.integers(-8, 9, size=3).astype(float)
    elif cat == "ties":
        pts = g_ties(rng)
        vals = rng.normal(size=3) * 4 if rng.random() < 0.5 else rng.integers(-8, 9, size=3).astype(float)
    elif cat == "flat":  # all values equal: a triangle of the plane
        pts = [g_well, g_random, g_right][rng.integers(0, 3)](rng)
        vals = np.full(3, rng.normal() * 10.0 ** rng.uniform(-3, 3))
    elif cat == "intvals":
        pts, vals = g_well(rng), rng.integers(-9, 10, size=3).astype(float)
    elif cat == "bigvals":  # values much larger than the coordinates
        pts, vals = g_well(rng), rng.normal(size=3) * 10.0 ** rng.uniform(0, 6)
    elif cat == "smallvals":
        pts, vals = g_well(rng), rng.normal(size=3) * 10.0 ** rng.uniform(-9, -1)
    elif cat == "thin":
        pts = g_thin(rng)
        vals = pts @ rng.normal(size=2) + rng.normal() + rng.normal(size=3) * 10.0 ** rng.uniform(-12, -1)
    elif cat == "far":
        pts = g_far(rng)
        vals = rng.normal(size=3) + (rng.normal() * 10.0 ** rng.uniform(3, 9) if rng.random() < 0.5 else 0.0)
    else:  # degenerate in space: collinear lattice points with affine values, repeated points
        pts = g_degenerate(rng)
        a = rng.integers(-3, 4, size=2).astype(float)
        vals = pts @ a + float(rng.integers(-5, 6))
    return np.asarray(pts, float), np.asarray(vals, float)


def build_nd(R, rng, n, out, stats, only_well=False):
    for cat in ND_CATS:
        for _ in range(n):
            pts, vals = g_nd(rng, cat)
            pts, vals = scale_pow2(rng, cat, pts, vals)
            A2, emax = exact_area2(pts, vals)
            well = A2 > 0 and A2 >= ND_WELL * emax * emax
            simplex = [(float(p[0]), float(p[1])) for p in pts]
            values = [float(v) for v in vals]
            try:
                r = quiet(R.nd_default_loss, simplex, values, float(rng.uniform(0.1, 10)))
                real = (float(r),)
            except ValueError:
                real = "raised"
            args = [t for p in simplex for t in p] + values
            info = {"args": args, "A2": A2, "well": bool(well)}
            # BIT-EXACT tie (every category, also thin / degenerate / rejected input): the model's tail of
            # simplex_volume_in_embedding on the vol_square obtained with the emulation of numpy.linalg.det
            # (AdaptiveModel/Drv/NumpyDet.lean) from the model's own squared distances
            out.append(Rec("nd_default_loss2_np", cat, args + [1.0], real, allowed=0, mode="cmp", info=info))
            out.append(Rec("nd_default_loss2_volsq_np", cat, args, (quiet(py_volsq, R, simplex, values)[0],), allowed=0,
                           mode="cmp", info=info))
            if only_well and not well:
                stats[f"nd_default_loss2 not emitted (ill-conditioned): {cat}"] += 1
                continue
            out.append(Rec("nd_default_loss2", cat, args + [1.0], real, allowed=ND_ALLOWED[cat],
                           mode="cmp" if well else "measure", info=info))
            if not only_well:
                vs, sq = quiet(py_volsq, R, simplex, values)
                v = np.array([(*x, y) for x, y in zip(simplex, values)])
                mine2 = []
                for i, j in ((0, 1), (0, 2), (1, 2)):
                    dx, dy, dz = v[i] - v[j]
                    mine2.append((dx * dx + dy * dy) + dz * dz)
                stats["pdist sqeuclidean == (dx*dx + dy*dy) + dz*dz bit for bit" if all(
                    same_bits(s, t) for s, t in zip(sq, mine2)) else "PDIST DIFFERS FROM (dx*dx + dy*dy) + dz*dz"] += 1
                out.append(Rec("nd_default_loss2_volsq", cat, args, (vs,), allowed=0, mode="measure", info=info))


# ---------------------------------------------------------------- D. orientation
THR = math.exp(-50)
THR_F = Fraction(THR)
OR_CATS = ["random", "lattice", "degenerate", "thin", "far"]


def g_orient(rng, cat, d):
    """face (d points of R^d) and origin"""
    if cat == "random":
        face, o = rng.normal(size=(d, d)), rng.normal(size=d)
    elif cat == "lattice":
        face, o = rng.integers(-6, 7, size=(d, d)).astype(float), rng.integers(-6, 7, size=d).astype(float)
    elif cat == "degenerate":  # the origin exactly in the hyperplane of the face (lattice)
        o = rng.integers(-6, 7, size=d).astype(float)
        dirs = rng.integers(-4, 5, size=(d - 1, d)).astype(float)
        coef = rng.integers(-3, 4, size=(d, d - 1)).astype(float)
        face = o + coef @ dirs
    elif cat == "thin":
        o = rng.normal(size=d)
        dirs = rng.normal(size=(d - 1, d))
        coef = rng.normal(size=(d, d - 1))
        face = o + coef @ dirs + rng.normal(size=(d, d)) * 10.0 ** rng.uniform(-15, -1)
    else:
        face, o = rng.normal(size=(d, d)), rng.normal(size=d)
        off = rng.normal(size=d) * 10.0 ** rng.uniform(3, 9)
        face, o = face + off, o + off
    sc = 2.0 ** rng.integers(-60, 21)
    return face * sc, o * sc


def exact_det(M):
    """exact determinant and the sum of the absolute values of the products of the Leibniz expansion"""
    d = len(M)
    det, tot = Fraction(0), Fraction(0)
    for p in itertools.permutations(range(d)):
        sgn = 1
        for i in range(d):
            for j in range(i + 1, d):
                if p[i] > p[j]:
                    sgn = -sgn
        t = Fraction(1)
        for i in range(d):
            t *= M[i][p[i]]
        det += sgn * t
        tot += abs(t)
    return det, tot


def build_orient(R, rng, n, out, stats, only_admissible=False):
    for d in (2, 3):
        for cat in OR_CATS:
            for _ in range(n):
                face, o = g_orient(rng, cat, d)
                facel = [tuple(float(t) for t in row) for row in face]
                ol = tuple(float(t) for t in o)
                args = [t for row in facel for t in row] + list(ol)
                M = [[Fraction(float(a) - float(b)) for a, b in zip(row, ol)] for row in facel]
                D, tot = exact_det(M)
                real = quiet(R.orientation, facel, ol)
                fd = float(quiet(R.fast_det, np.array(facel) - ol))
                if D == 0:
                    adm = abs(fd) < THR and float(real) == 0
                    if float(real) != 0:
                        stats[f"orientation{d}: exactly degenerate but the real function answers {float(real):+.0f} (LU noise)"] += 1
                    expect = 0
                else:
                    aD = abs(D)
                    adm = not (THR_F / 2 <= aD <= 2 * THR_F) and aD >= Fraction(1e-12) * tot
                    expect = 0 if aD < THR_F else (1 if D > 0 else -1)
                kind = "exactly 0" if D == 0 else "below the cut" if abs(D) < THR_F else "above the cut"
                stats[f"orientation{d} exact det {kind}, {'admissible' if adm else 'inadmissible'}"] += 1
                info = {"args": args, "D": float(D), "expect": expect, "adm": adm}
                if adm or not only_admissible:
                    out.append(Rec(f"orientation{d}", cat, args, (float(real),), mode="cmp" if adm else "measure",
                                   info=info))
                out.append(Rec(f"orientation_det{d}", cat, args, (fd,), info=info))
    out.append(Rec("orientation_thr", "exp(-50)", [], (THR,)))


# ---------------------------------------------------------------- all
SECTIONS = [("l2d", build_l2d), ("choose", build_choose), ("resolution", build_resolution),
            ("curvature", build_curvature), ("nd", build_nd), ("orient", build_orient)]


def run_driver(lean, lines):
    out = subprocess.run(["lake", "env", "lean", "--run", "Driver.lean"], input="\n".join(lines) + "\n",
                         capture_output=True, text=True, cwd=lean)
    outs = [l for l in out.stdout.splitlines() if l.startswith(("#", "raised", "bad", "unknown"))]
    if len(outs) != len(lines):
        print("driver produced", len(outs), "lines for", len(lines), "cases", file=sys.stderr)
        print(out.stdout[-2000:], out.stderr[-2000:], file=sys.stderr)
        sys.exit(2)
    for l, o in zip(lines, outs):
        if o.startswith(("bad", "unknown")):
            print("driver rejected", l, "->", o, file=sys.stderr)
            sys.exit(2)
    return outs


def parse(o):
    return "raised" if o == "raised" else tuple(frombits(int(x[1:])) for x in o.split(","))


def pct(v, q):
    v = sorted(v)
    return v[min(len(v) - 1, int(math.ceil(q * len(v))) - 1)] if v else None


def main():
    ap = argparse.ArgumentParser()
    ap.add_argument("--lean", default="/verif/lean")
    ap.add_argument("--seed", type=int, default=20261001)
    ap.add_argument("--n", type=int, default=50, help="cases per category (50: about 25000 comparisons)")
    a = ap.parse_args()
    R = _real()
    recs, stats = [], Counter()
    for k, (name, build) in enumerate(SECTIONS):
        build(R, np.random.default_rng([a.seed, k]), a.n, recs, stats)
    outs = run_driver(a.lean, [r.line for r in recs])

    agree, dis, excused, measured = Counter(), Counter(), Counter(), Counter()
    bysrc = defaultdict(Counter)
    maxulp = defaultdict(int)
    printed = Counter()
    nd_ulps, nd_rel = defaultdict(list), defaultdict(list)
    nd_mis = defaultdict(Counter)
    vs_ulps = defaultdict(list)
    or_in = Counter()
    fns = []

    notes = Counter()

    def note(kind, r, lean):
        """at most 2 examples of every expected kind of difference (not a disagreement)"""
        notes[kind] += 1
        if notes[kind] <= 2:
            print("NOTE", kind, "|", r.fn, r.cat, "args", [repr(v) for v in r.info["args"]], "real", r.real, "lean", lean)

    def disagree(r, lean, why=""):
        printed[r.fn] += 1
        if printed[r.fn] <= 50:
            print("DISAGREE", r.fn, r.cat, r.src, why, "args", [repr(v) for v in r.info["args"]], "real", r.real,
                  None if isinstance(r.real, str) else [hex(bits(v)) for v in r.real], "lean", lean,
                  None if isinstance(lean, str) else [hex(bits(v)) for v in lean])

    for r, o in zip(recs, outs):
        lean = parse(o)
        if r.fn not in fns:
            fns.append(r.fn)
        key = (r.fn, r.cat)
        # ---- default loss of LearnerND: classified, measured
        if r.fn in ("nd_default_loss2", "nd_default_loss2_volsq"):
            A2, well = r.info["A2"], r.info["well"]
            tag = (r.cat, "well" if well else "ill")
            if r.fn == "nd_default_loss2_volsq":
                measured[key] += 1
                if r.real[0] == lean[0]:
                    vs_ulps[tag].append(0)
                elif r.real[0] != 0 and lean[0] != 0 and (r.real[0] > 0) == (lean[0] > 0):
                    vs_ulps[tag].append(ulpdist(r.real[0], lean[0]))
                else:
                    nd_mis[tag]["vol_square: sign / zero differs"] += 1
                if A2 > 0:
                    nd_rel[tag + ("volsq",)].append((relerr(lean[0], A2), relerr(r.real[0], A2)))
                continue
            rr, lr = isinstance(r.real, str), isinstance(lean, str)
            ok = None
            if rr or lr:
                if rr and lr:
                    nd_mis[tag]["both raise"] += 1
                    ok = True
                else:
                    nd_mis[tag]["ONLY THE REAL FUNCTION RAISES" if rr else "ONLY THE MODEL RAISES"] += 1
                    note(f"default loss, {tag[1]}-conditioned: only the {'real function' if rr else 'model'} raises", r, lean)
                    ok = False
            elif (r.real[0] == 0) != (lean[0] == 0):
                nd_mis[tag]["real 0, model not 0" if r.real[0] == 0 else "model 0, real not 0"] += 1
                note(f"default loss, {tag[1]}-conditioned: {'real 0, model not 0' if r.real[0] == 0 else 'model 0, real not 0'}",
                     r, lean)
                ok = False
            else:
                if r.real[0] == 0:
                    nd_mis[tag]["both 0"] += 1
                u = ulpdist(r.real[0], lean[0])
                nd_ulps[tag].append(u)
                if A2 > 0:
                    nd_rel[tag].append((relerr_sqrt(lean[0], A2), relerr_sqrt(r.real[0], A2)))
                ok = u <= r.allowed
                if r.mode == "cmp":
                    maxulp[r.fn] = max(maxulp[r.fn], u)
            if r.mode == "measure":
                measured[key] += 1
            elif ok:
                agree[key] += 1
            else:
                dis[key] += 1
                disagree(r, lean, f"(well-conditioned, allowed {r.allowed} ulp)")
            continue
        # ---- everything else
        if isinstance(r.real, str) and isinstance(lean, str) and r.real == lean:      # both raise
            agree[key] += 1
            continue
        if isinstance(lean, str) or isinstance(r.real, str) or len(lean) != len(r.real):
            dis[key] += 1
            disagree(r, lean, "(shape)")
            continue
        u = max(ulpdist(x, y) for x, y in zip(r.real, lean))
        exact = all(same_bits(x, y) for x, y in zip(r.real, lean))
        if r.fn in ("orientation2", "orientation3"):
            ok = r.real[0] == lean[0]
            if r.mode == "cmp" and ok and r.real[0] != r.info["expect"]:
                ok = False  # both agree with each other but not with the exact sign: to be looked at
            or_in[(r.fn, r.mode, "same" if r.real[0] == lean[0] else "different")] += 1
            if r.mode == "measure" and r.real[0] != lean[0]:
                note(f"{r.fn}, inadmissible input (exact det {r.info['D']!r}): answers differ", r, lean)
        elif r.allowed == 0:
            ok = exact
        else:
            ok = u <= r.allowed
        if r.mode == "measure":
            measured[key] += 1
            if u < (1 << 64) and not r.fn.startswith("orientation"):
                maxulp[r.fn + " [measured only]"] = max(maxulp[r.fn + " [measured only]"], u)
            continue
        if ok:
            agree[key] += 1
            maxulp[r.fn] = max(maxulp[r.fn], u)
            if r.src:
                bysrc[r.fn][r.src + " agree"] += 1
        elif r.near:
            excused[key] += 1
            print("EXCUSED (badness within 4 ulp of max_badness)", r.fn, r.cat, [repr(v) for v in r.info["args"]],
                  "real", r.real, "lean", lean)
        else:
            dis[key] += 1
            if u < (1 << 64):
                maxulp[r.fn] = max(maxulp[r.fn], u)
            if r.src:
                bysrc[r.fn][r.src + " DISAGREE"] += 1
            disagree(r, lean, f"(ulp distance {u}, allowed {r.allowed})")

    # ---- report
    for fn in fns:
        cats = []
        for r in recs:
            if r.fn == fn and r.cat not in cats:
                cats.append(r.cat)
        tot_a = sum(agree[(fn, c)] for c in cats)
        tot = tot_a + sum(dis[(fn, c)] + excused[(fn, c)] for c in cats)
        extra = ""
        if sum(excused[(fn, c)] for c in cats):
            extra += f"  excused {sum(excused[(fn, c)] for c in cats)}"
        if sum(measured[(fn, c)] for c in cats):
            extra += f"  measured only {sum(measured[(fn, c)] for c in cats)}"
        mu = f"  max ulp (compared) {maxulp[fn]} (allowed {ALLOWED.get(fn, 'per category')})" if tot else ""
        if fn + " [measured only]" in maxulp:
            mu += f"  max ulp (measured only) {maxulp[fn + ' [measured only]']}"
        print(f"{fn}: agree {tot_a}/{tot}{extra}{mu}")
        row = [f"{c}: {agree[(fn, c)]}/{agree[(fn, c)] + dis[(fn, c)] + excused[(fn, c)]}"
               + (f" (+{measured[(fn, c)]} measured)" if measured[(fn, c)] else "") for c in cats]
        for i in range(0, len(row), 6):
            print("    " + "   ".join(row[i:i + 6]))
        if bysrc[fn]:
            print("    by source:", dict(bysrc[fn]))
    print("orientation, same / different answers:", {" ".join(k): v for k, v in sorted(or_in.items())})
    print("nd_default_loss2: ulp distance model <-> library, relative error against the exact area (Fraction)")
    print(f"    {'category':18s} {'n':>5s} {'ulp p50':>8s} {'p90':>8s} {'p99':>8s} {'max':>10s}   "
          f"{'relerr model max':>17s} {'library max':>12s}   (vol_square: ulp max, relerr model / library max)")
    for cat in ND_CATS:
        for w in ("well", "ill"):
            tag = (cat, w)
            v = nd_ulps[tag]
            if not v and not nd_mis[tag]:
                continue
            rel = nd_rel[tag]
            rm = max((x for x, _ in rel), default=float("nan"))
            rl = max((y for _, y in rel), default=float("nan"))
            vr = nd_rel[tag + ("volsq",)]
            vm = max((x for x, _ in vr), default=float("nan"))
            vl = max((y for _, y in vr), default=float("nan"))
            print(f"    {cat + ' / ' + w:18s} {len(v):5d} {str(pct(v, .5)):>8s} {str(pct(v, .9)):>8s} "
                  f"{str(pct(v, .99)):>8s} {str(max(v, default=None)):>10s}   {rm:17.3e} {rl:12.3e}   "
                  f"({max(vs_ulps[tag], default=None)}, {vm:.3e} / {vl:.3e})"
                  + (f"  allowed {ND_ALLOWED[cat]}" if w == "well" else "") + f"  {dict(nd_mis[tag]) or ''}")
    for k in sorted(stats):
        print("  ", k, stats[k])
    nbad = sum(dis.values())
    print("comparisons", len(recs), "agree", sum(agree.values()), "disagree", nbad, "excused", sum(excused.values()),
          "measured-only", sum(measured.values()))
    sys.exit(1 if nbad else 0)


if __name__ == "__main__":
    main()


def harness_case(seed, per_cat=2):
    """one lock-step case for harness/props/c20.py: `per_cat` inputs of every category of every function; returns
    (lines, impl outputs `<allowed ulp>|#bits,#bits` or `0|raised`, statistics).  Only comparisons that must hold are
    emitted: no curvature loss with negative factors, only well-conditioned triangles for `nd_default_loss2`, only
    admissible inputs for `orientation2/3`, no `l2d_choose` whose badness is within 4 ulp of max_badness."""
    R = _real()
    recs, st = [], Counter()
    for k, (name, build) in enumerate(SECTIONS):
        rng = np.random.default_rng([seed, k])
        if name == "curvature":
            build(R, rng, per_cat, recs, st, mixed=False)
        elif name == "nd":
            build(R, rng, per_cat, recs, st, only_well=True)
        elif name == "orient":
            build(R, rng, per_cat, recs, st, only_admissible=True)
        else:
            build(R, rng, per_cat, recs, st)
    lines, impl, stats = [], [], Counter()
    for r in recs:
        if r.mode != "cmp" or r.near:
            stats[f"prims2_skipped:{r.fn}"] += 1
            continue
        lines.append(r.line)
        impl.append(r.impl())
        stats[f"prims2:{r.fn}"] += 1
        stats[f"prims2:{r.fn}:{r.cat}"] += 1
    return lines, impl, dict(stats)
