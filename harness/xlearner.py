"""Kind-independent histories executed on real learners of every type (shared by C09, C10, C13).

A history is a list of abstract ops (harness.learners.gen_ops); `Runner` resolves each op against the live
learner(s) and applies the SAME concrete op to every learner it drives (twins), keeping a shadow of what was
told / handed out.
"""
from __future__ import annotations

import math
import random
import warnings

import numpy as np

import adaptive
from harness import learners as L

warnings.simplefilter("ignore")


def make(kind_name, factor=None):
    """kinds of harness.learners plus wrappers: 'bal:<kind>' (3 children), 'ds:<kind>'"""
    if kind_name.startswith("bal:"):
        # "bal:<kind>" default strategy; "bal:cycle:<kind>", "bal:npoints:<kind>", "bal:loss:<kind>"
        parts = kind_name.split(":")
        if "ds" in parts[1:-1]:
            # "bal:ds:<kind>" / "bal:<strategy>:ds:<kind>": a BalancingLearner over DataSaver-wrapped children
            kids = [make("ds:" + parts[-1], factor) for _ in range(3)]
            strat = parts[1] if parts[1] != "ds" else "loss_improvements"
            return adaptive.BalancingLearner(kids, strategy=strat)
        k = L.KINDS[parts[-1]]
        kids = [k.make() for _ in range(3)]
        for c in kids:
            if factor is not None and hasattr(c, "_recompute_losses_factor"):
                c._recompute_losses_factor = factor
        return adaptive.BalancingLearner(kids, strategy=parts[1] if len(parts) == 3 else "loss_improvements")
    if kind_name.startswith("ds:"):
        import operator
        k = L.KINDS[kind_name[3:]]
        inner = k.make()
        if factor is not None and hasattr(inner, "_recompute_losses_factor"):
            inner._recompute_losses_factor = factor
        return adaptive.DataSaver(inner, arg_picker=operator.itemgetter("y"))
    l = L.KINDS[kind_name].make()
    if factor is not None and hasattr(l, "_recompute_losses_factor"):
        l._recompute_losses_factor = factor
    return l


def base_kind(kind_name):
    return L.KINDS[kind_name.split(":")[-1]]


def value_of(kind_name, p):
    k = base_kind(kind_name)
    if kind_name.startswith("bal:"):
        i, x = p
        v = k.fn(x)
        v = v + 0.25 * i if isinstance(v, float) else v
        return {"y": v, "aux": L.canon(x)} if ":ds:" in kind_name else v
    if kind_name.startswith("ds:"):
        return {"y": k.fn(p), "aux": L.canon(p)}
    return k.fn(p)


def rand_point(kind_name, rng, runner=None):
    k = base_kind(kind_name)
    if k.rand_point is None:
        return None
    p = k.rand_point(rng)
    if kind_name.split(":")[-1] == "avg1d" and runner is not None and rng.random() < 0.96:
        # mostly follow AverageLearner1D's own seed numbering (seed = number of samples held at x)
        x = p[1]
        p = (sum(1 for q in getattr(runner, "told_points", []) if (q[1] if not kind_name.startswith("bal:") else q[1][1]) == x), x)
    if kind_name.startswith("bal:"):
        return (rng.randrange(3), p)
    return p


def data_key(kind_name, p):
    """key under which the learner's `data` files point p"""
    b = kind_name.split(":")[-1]
    if kind_name.startswith("bal:"):
        i, x = p
        return (int(i), data_key(b, x))
    if b == "seq":
        return L.canon(p[0])
    if b == "avg1d":
        return L.canon(p[1])
    return L.canon(p)


def pend_key(kind_name, p):
    b = kind_name.split(":")[-1]
    if kind_name.startswith("bal:"):
        i, x = p
        return (int(i), pend_key(b, x))
    if b == "seq":
        return L.canon(p[0])
    return L.canon(p)


def data_keys(kind_name, l):
    if kind_name.startswith("bal:"):
        b = kind_name.split(":")[-1]
        return {(i, L.canon(k)) for i, c in enumerate(l.learners) for k in c.data}
    return {L.canon(k) for k in l.data}


def pending_keys(kind_name, l):
    if kind_name.startswith("bal:"):
        return {(i, L.canon(k)) for i, c in enumerate(l.learners) for k in c.pending_points}
    return {L.canon(k) for k in l.pending_points}


def first_value_kind(kind_name):
    """learners that keep the first value told for a point"""
    b = kind_name.split(":")[-1]
    return b.startswith("l1d") or b.startswith("lnd") or b == "avg"  # Learner2D and SequenceLearner keep the last value


class Runner:
    def __init__(self, kind_name, learners, seed):
        self.kn, self.ls = kind_name, learners
        self.kind = base_kind(kind_name)
        self.outstanding = []       # points handed out by committing asks / tell_pending, not yet told or discarded
        self.told = {}              # data key -> first value told
        self.told_last = {}
        self.log = []

    # every method applies the same concrete op to all learners
    def ask(self, n, commit):
        rs = [l.ask(n, tell_pending=commit) for l in self.ls]
        if commit:
            for p in rs[0][0]:
                if pend_key(self.kn, p) not in {pend_key(self.kn, q) for q in self.outstanding}:
                    self.outstanding.append(p)
        self.log.append(("ask", n, commit))
        return rs

    def tell(self, p, v=None):
        v = value_of(self.kn, p) if v is None else v
        for l in self.ls:
            l.tell(p, v)
        k = data_key(self.kn, p)
        self.told.setdefault(k, v)
        self.told_last[k] = v
        pk = pend_key(self.kn, p)
        self.outstanding = [q for q in self.outstanding if pend_key(self.kn, q) != pk]
        self.log.append(("tell", L.canon(p)))

    def tell_pending(self, p):
        for l in self.ls:
            l.tell_pending(p)
        if pend_key(self.kn, p) not in {pend_key(self.kn, q) for q in self.outstanding}:
            self.outstanding.append(p)
        self.log.append(("tell_pending", L.canon(p)))

    def remove(self):
        for l in self.ls:
            l.remove_unfinished()
        if self.kind.discard:
            self.outstanding = []
        self.log.append(("remove",))

    def resolve(self, op):
        """abstract op -> concrete action tuple or None"""
        kn, kind = self.kn, self.kind
        if op[0] == "ask":
            if kn.split(":")[-1] == "seq" and op[1] + len(self.told) + len(self.outstanding) > 10:
                return None  # keep SequenceLearner children away from exhaustion inside wrappers
            n = op[1]
            if n == 0 and (kn.split(":")[-1] in ("avg", "avg1d", "l2d") or kn.split(":")[-1].startswith("lnd")):
                n = 1  # ask(0) raises in these learners (division by n / unpacking an empty zip); not a C09/C10 matter
            return ("ask", n, op[2])
        if op[0] == "tell_asked" and self.outstanding:
            return ("tell", self.outstanding[op[1] % len(self.outstanding)])
        if op[0] == "tell_new" and kind.supports_foreign:
            p = rand_point(kn, random.Random(op[1]), self)
            return ("tell", p) if p is not None else None
        if op[0] == "retell" and self.told and kind.supports_foreign:
            return ("retell", op[1], op[2])
        if op[0] == "tell_pending" and kind.supports_foreign:
            p = rand_point(kn, random.Random(op[1]))
            if p is None or data_key(kn, p) in self.told:
                return None
            return ("tell_pending", p)
        if op[0] == "remove":
            return ("remove",)
        if op[0] == "tell_many_asked" and self.outstanding:
            k = min(op[2], len(self.outstanding))
            ps = [self.outstanding[(op[1] + j) % len(self.outstanding)] for j in range(k)]
            ps = list({pend_key(kn, p): p for p in ps}.values())
            return ("tell_many", ps)
        return None


def feq(a, b, rtol=1e-9):
    try:
        a, b = float(a), float(b)
    except (TypeError, ValueError):
        return L.canon(a) == L.canon(b)
    return a == b or (math.isnan(a) and math.isnan(b)) or abs(a - b) <= rtol * max(abs(a), abs(b), 1e-300)


def _flat(p):
    if isinstance(p, (tuple, list, np.ndarray)):
        out = []
        for q in p:
            out += _flat(q)
        return out
    return [float(p)]


def same_points(a, b, rtol=0.0):
    """ask results equal (points exactly or to rtol)"""
    if rtol == 0.0:
        return L.canon(a) == L.canon(b)
    pa, pb = a[0], b[0]
    if len(pa) != len(pb):
        return False
    for p, q in zip(pa, pb):
        fp, fq = _flat(p), _flat(q)
        if len(fp) != len(fq) or not np.allclose(fp, fq, rtol=rtol, atol=1e-12):
            return False
    return True


def inner_learners(kn, l):
    """the base learner objects behind the wrappers of kind `kn` (DataSaver -> .learner, BalancingLearner -> .learners)"""
    if kn.startswith("bal:"):
        return list(l.learners)
    if kn.startswith("ds:"):
        return [l.learner]
    return [l]


def sync_l2d_stacks(kn, src, dst):
    """Learner2D keeps a private stack of speculative suggestions that a non-committing ask rewrites and that file / copy_from
    restores do not carry (recorded findings *:l2d_stack_cache).  To keep every OTHER difference visible, the oracles copy the
    stack of `src` to `dst` and count the event; returns the number of learners whose stacks differed."""
    from collections import OrderedDict
    n = 0
    for a, b in zip(inner_learners(kn, src), inner_learners(kn, dst)):
        if hasattr(a, "_stack") and list(a._stack.items()) != list(b._stack.items()):
            b._stack = OrderedDict(a._stack)
            b._ip_combined = None
            n += 1
    return n


def sync_l2d_pending_order(kn, a, b):
    """Learner2D.loss(real=False) and its suggestions triangulate data + list(self.pending_points): the iteration order of that
    hash set depends on its insertion / deletion history (recorded finding *:l2d_pending_set_order).  When two twins hold the
    same pending set in a different iteration order, both sets are rebuilt by the same insertion sequence (so the twins agree
    again and every OTHER difference stays visible); returns the number of learners where the orders differed."""
    n = 0
    for x, y in zip(inner_learners(kn, a), inner_learners(kn, b)):
        if hasattr(x, "_stack") and set(x.pending_points) == set(y.pending_points):
            if list(x.pending_points) != list(y.pending_points):
                n += 1
            # (also when the orders agree right now: slots freed by earlier discards decide where later points land)
            order = sorted(x.pending_points)
            x.pending_points, y.pending_points = set(order), set(order)
            x._ip_combined = y._ip_combined = None
    return n
