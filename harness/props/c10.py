"""C10 — telling is faithful bookkeeping: data, pending set and re-tells.

proof:  lean/AdaptiveProofs/Props/C10.lean — per model (L1D, Seq, Avg): data is the map of told points (first value for
        L1D/Avg, last for Seq), a told point is not pending, committed asks are pending until told or discarded,
        re-tells of known points are no-ops, remove_unfinished empties the pending set and equalises both losses
tie:    models tied to the code by the lock-step runs of C01/C02 (L1D), C17 (Seq), C16 (Avg), C15/C18 (wrappers)
search: shadow bookkeeping on the REAL learners of every kind after every operation
"""
from __future__ import annotations

import json
import random

import numpy as np

from harness import core, learners as L, xlearner as X

MODULES = ["AdaptiveProofs.Props.C10", "AdaptiveProofs.Props.C10More", "AdaptiveProofs.Lemmas.L2D"]
KINDS = ["l1d", "l1d_curv", "l1d_vec", "l1d_tri", "l1d_uni", "lnd2", "lnd3", "l2d", "avg", "avg1d", "seq", "integ",
         "bal:l1d", "bal:seq", "bal:avg", "bal:cycle:l1d", "bal:loss:l1d", "bal:ds:l1d", "ds:l1d", "ds:seq", "ds:avg", "ds:lnd2"]


def values_equal(kn, have, want):
    if kn.startswith("ds:"):
        want = want["y"]
    return L.canon(have) == L.canon(want)


def check_state(kn, l, r, fail):
    """data = told map; told not pending; outstanding pending; npoints"""
    b = kn.split(":")[-1]
    dk = X.data_keys(kn, l)
    if b == "avg1d":
        want = {X.data_key(kn, p) for p in r.told_points}
    else:
        want = set(r.told)
    if dk != want:
        extra, missing = sorted(dk - want, key=repr)[:3], sorted(want - dk, key=repr)[:3]
        return fail("data_keys", f"data holds {len(dk)} points, {len(want)} distinct points were told (unexpected {extra}, missing {missing})")
    if b not in ("avg1d",) and not kn.startswith("bal:"):
        inner = l.learner if kn.startswith("ds:") else l
        for k, v in inner.data.items():
            ck = L.canon(k)
            w = r.told[ck] if X.first_value_kind(kn) else r.told_last[ck]
            if not values_equal(kn, v, w):
                return fail("data_values", f"data[{k!r}] = {v!r} but the value told {'first' if X.first_value_kind(kn) else 'last'} was {w!r}")
    if b != "integ":
        pk = X.pending_keys(kn, l)
        told_p = {X.pend_key(kn, p) for p in r.told_points}
        if pk & told_p:
            return fail("told_not_pending", f"told point(s) {sorted(pk & told_p, key=repr)[:3]} are still pending")
        want_p = {X.pend_key(kn, q) for q in r.outstanding}
        if not want_p <= pk:
            return fail("pending_until_told", f"handed-out point(s) {sorted(want_p - pk, key=repr)[:3]} are not pending")
        if pk - want_p:
            return fail("pending_extra", f"pending point(s) {sorted(pk - want_p, key=repr)[:3]} were neither handed out nor marked")
    n = l.npoints
    want_n = len(want)
    if b == "avg1d":
        want_n = len(want)
    if int(n) != want_n:
        return fail("npoints", f"npoints = {n} but {want_n} distinct points were told")
    return None


def case(arg):
    kn, seed, nops = arg
    rng = random.Random(seed)
    l = X.make(kn, factor=rng.choice([1, 2]))
    r = X.Runner(kn, [l], seed)
    r.told_points = []
    ops = L.gen_ops(random.Random(seed), X.base_kind(kn), nops)
    b = kn.split(":")[-1]
    res = {"kind": kn, "seed": seed, "nops": nops, "fail": None, "stats": {}}
    if b == "integ":
        # an IntegratorLearner only starts to refine after its first rule (33 abscissae) is complete: warm it up with a few large
        # requests delivered out of order, leaving some abscissae outstanding
        for _ in range(rng.choice([0, 1, 2, 3])):
            r.ask(rng.choice([17, 33, 40]), True)
            out = list(r.outstanding)
            rng.shuffle(out)
            for p in out[: max(1, len(out) - rng.choice([0, 0, 2, 7]))]:
                r.tell(p)
                r.told_points.append(p)

    def bump(k):
        res["stats"][k] = res["stats"].get(k, 0) + 1

    for i, op in enumerate(ops):
        def fail(cl, det):
            res["fail"] = (cl, f"[{kn}] op {i} {op}: {det}")
            return res
        if kn.startswith("bal:") and rng.random() < 0.08:
            # the strategy of a BalancingLearner may be switched at any time (the caches are shared by the strategies)
            l.strategy = rng.choice(["loss_improvements", "loss", "npoints", "cycle"])
            bump("strategy_switch")
        if b == "integ" and rng.random() < 0.03:
            # an in-domain point never suggested by the learner: an abscissa of one of its intervals that has not been handed
            # out yet (a foreign abscissa is rejected - C07)
            handed = {X.pend_key(kn, q) for q in r.outstanding}
            free = sorted(x for x in l.x_mapping if x not in l.data and X.pend_key(kn, x) not in handed)
            if free:
                x = free[rng.randrange(len(free))]
                r.tell(x)
                r.told_points.append(x)
                bump("tell_unasked_abscissa")
        act = r.resolve(op)
        if act is None:
            continue
        try:
            if act[0] == "ask":
                before = X.pending_keys(kn, l)
                (pts, imps), = r.ask(act[1], act[2])
                re = [p for p in pts if X.pend_key(kn, p) in {X.pend_key(kn, q) for q in r.told_points}]
                if re and b == "integ":
                    # recorded finding (an abscissa told before it was handed out stays on the stack): counted, the history goes on
                    res.setdefault("integ_reissue", f"[{kn}] op {i} {op}: ask({act[1]}) handed out {re[:2]} which already has a result")
                    bump("integ_reissued_told_abscissa")
                elif re:
                    return fail("ask_reissues_told_sample", f"ask({act[1]}) handed out {re[:2]} which already has a result")
                if act[2]:
                    now = X.pending_keys(kn, l)
                    miss = [p for p in pts if X.pend_key(kn, p) not in now]
                    if miss and b != "integ":
                        return fail("asked_is_pending", f"ask({act[1]}) returned {miss[:2]} but did not mark them pending")
                bump("ask")
                if act[2] and len(pts) >= 2 and rng.random() < 0.25 and not str(kn).startswith("bal:"):
                    # the whole answer of a committing ask comes back in ONE batch (what a runner with a fast executor does):
                    # several samples of the same new abscissa (AverageLearner1D), the batch path of Learner1D, ...
                    ps = [p for p in pts if X.pend_key(kn, p) in {X.pend_key(kn, q) for q in r.outstanding}]
                    ps = list({X.pend_key(kn, p): p for p in ps}.values())
                    if len(ps) >= 2:
                        vs = [X.value_of(kn, p) for p in ps]
                        l.tell_many(ps, vs)
                        for p, v in zip(ps, vs):
                            k = X.data_key(kn, p)
                            r.told.setdefault(k, v)
                            r.told_last[k] = v
                            r.told_points.append(p)
                        pk = {X.pend_key(kn, p) for p in ps}
                        r.outstanding = [q for q in r.outstanding if X.pend_key(kn, q) not in pk]
                        bump("tell_many_whole_answer")
            elif act[0] == "tell":
                p = act[1]
                r.tell(p)
                r.told_points.append(p)
                bump("tell")
            elif act[0] == "retell":
                pts = list({X.pend_key(kn, p): p for p in r.told_points}.values())
                if not pts:
                    continue
                p = pts[act[1] % len(pts)]
                same = act[2]
                k = X.data_key(kn, p)
                if b == "avg1d":
                    v = r.told_last[k] if same else None
                    if not same:
                        continue
                else:
                    v = r.told_last[k] if same else _other_value(kn, r.told_last[k])
                if not same and not X.first_value_kind(kn) and b != "seq":
                    continue
                before = L.observe(l)
                snap = None
                if b == "l2d":
                    import copy
                    snap = object.__new__(type(l))
                    snap.__dict__ = copy.deepcopy(l.__dict__)
                repend = False
                if same and rng.random() < 0.35 and b not in ("integ",):
                    # a retry: the told point is marked pending again, then its (same) result arrives once more
                    l.tell_pending(p)
                    repend = True
                    bump("repend_then_retell")
                for ll in r.ls:
                    ll.tell(p, v)
                r.told_last[k] = v
                if same or X.first_value_kind(kn):
                    after = L.observe(l)
                    if before != after and repend and X.pend_key(kn, p) in X.pending_keys(kn, l):
                        return fail("retold_point_still_pending", f"the told point {p!r} was marked pending again and told again, it is still pending")
                    if before != after:
                        d = [kk for kk in before if before[kk] != after[kk]]
                        if b == "l2d" and d == ["lossF"] and snap is not None and _same_lossF_in_canonical_order(snap, l):
                            # Learner2D: the discard / add of the re-told point re-ordered the pending hash set, whose iteration
                            # order feeds the triangulation behind loss(real=False) (recorded finding l2d_pending_set_order)
                            res.setdefault("l2d_order", f"[{kn}] op {i} {op}: re-telling {p!r} changed loss(real=False) from "
                                                        f"{float.fromhex(before['lossF'])!r} to {float.fromhex(after['lossF'])!r}")
                            bump("l2d_pending_order_event")
                            continue
                        return fail("retell_noop", f"telling the known point {p!r} again ({'same' if same else 'different'} value) changed {d}")
                bump("retell_same" if same else "retell_other")
            elif act[0] == "tell_pending":
                r.tell_pending(act[1])
                bump("tell_pending")
            elif act[0] == "remove":
                r.remove()
                if b != "integ":
                    if X.pending_keys(kn, l):
                        return fail("remove_empties_pending", f"pending points remain after remove_unfinished: {sorted(X.pending_keys(kn, l), key=repr)[:3]}")
                    lt, lf = L.loss_of(l, True), L.loss_of(l, False)
                    if lt != lf and not (str(lt).startswith("exc") or str(lf).startswith("exc")):
                        return fail("remove_equal_losses", f"after remove_unfinished loss(real=False) = {l.loss(real=False)!r} but loss(real=True) = {l.loss(real=True)!r}")
                bump("remove")
            elif act[0] == "tell_many":
                ps = act[1]
                # sometimes include an already known point with a DIFFERENT value (first-value learners must ignore it)
                known = list({X.pend_key(kn, p): p for p in r.told_points}.values())
                redo = None
                if known and rng.random() < 0.4 and X.first_value_kind(kn) and not kn.startswith("ds:"):
                    redo = known[rng.randrange(len(known))]
                vs = [X.value_of(kn, p) for p in ps]
                if redo is not None and X.pend_key(kn, redo) not in {X.pend_key(kn, p) for p in ps}:
                    ps = ps + [redo]
                    vs = vs + [_other_value(kn, r.told_last[X.data_key(kn, redo)])]
                    bump("tell_many_with_known_point")
                if len(ps) >= 1 and rng.random() < 0.3 and b not in ("avg1d", "integ") and not kn.startswith("ds:"):
                    # the same new point twice in one batch, with a different second value (tell one by one: first-value
                    # learners keep the first, the others the last)
                    j = rng.randrange(len(ps))
                    ps = ps + [ps[j]]
                    vs = vs + [_other_value(kn, vs[j])]
                    bump("tell_many_with_duplicate_in_batch")
                kw = {"force": True} if (b.startswith("l1d") and not kn.startswith(("bal:", "ds:")) and rng.random() < 0.5) else {}
                l.tell_many(ps, vs, **kw)
                for p, v in zip(ps, vs):
                    k = X.data_key(kn, p)
                    r.told.setdefault(k, v)
                    r.told_last[k] = v
                    r.told_points.append(p)
                pk = {X.pend_key(kn, p) for p in ps}
                r.outstanding = [q for q in r.outstanding if X.pend_key(kn, q) not in pk]
                bump("tell_many")
        except Exception as e:
            res["aborted"] = f"{type(e).__name__}"
            return res
        f = check_state(kn, l, r, fail)
        if f:
            return f
    return res


def _other_value(kn, v):
    if isinstance(v, dict):
        return {**v, "y": _other_value("", v["y"])}
    if isinstance(v, np.ndarray):
        return v + 1.5
    return v + 1.5


def _hexclose(x, y, rtol):
    try:
        a, b_ = float.fromhex(x), float.fromhex(y)
    except (TypeError, ValueError):
        return False
    return abs(a - b_) <= rtol * max(abs(a), abs(b_))


def _same_lossF_in_canonical_order(x, y):
    """Learner2D: with both pending sets rebuilt by the same insertion sequence, do the two learners report the same
    loss(real=False)?  (then a difference seen before was due to the iteration order of the pending hash set only)"""
    vals = []
    for l in (x, y):
        l.pending_points = set(sorted(l.pending_points))
        l._ip_combined = None
        if hasattr(l, "_cache"):
            l._cache = {}
        vals.append(float(l.loss(real=False)))
    return vals[0] == vals[1] or abs(vals[0] - vals[1]) <= 1e-12 * max(abs(vals[0]), abs(vals[1]))


def rejected_tell_case(seed):
    """LearnerND: a result for an in-domain point that the triangulation refuses (it lies within its 1e-8 tolerance of an
    evaluated vertex) makes tell() raise - whether that rejection is right is C03/C04's business; the bookkeeping of C10 must hold
    afterwards all the same: a told point is not pending, data and the point count agree"""
    import adaptive
    rng = random.Random(seed)
    dim = rng.choice([2, 3])
    l = adaptive.LearnerND(lambda p: float(sum(p)), [(-1.0, 1.0)] * dim if rng.random() < 0.5 else [(0.0, 2.0)] * dim)
    f = l.function
    corners = list(l._bounds_points)
    c = rng.choice(corners)
    lo_hi = l._bbox
    q = tuple(x + (1e-10 if x == a else -1e-10) * rng.choice([1, 3]) for x, (a, b) in zip(c, lo_hi))
    res = {"kind": f"lnd{dim}-rejected-tell", "seed": seed, "nops": 0, "fail": None, "stats": {}}
    early = rng.random() < 0.5
    if early:
        l.tell_pending(q)
    pts, _ = l.ask(len(corners) + rng.choice([0, 1, 3]))
    for p in pts:
        l.tell(p, f(p))
    if not early:
        try:
            l.tell_pending(q)
        except ValueError:
            res["stats"]["rejected_mark"] = 1   # the triangulation refuses the near-duplicate already here
    raised = None
    try:
        l.tell(q, f(q))
    except ValueError as e:
        raised = str(e)
    res["stats"]["rejected_tell" if raised else "accepted_near_duplicate"] = 1
    if q in l.pending_points:
        res["fail"] = ("told_not_pending", f"[LearnerND {dim}-d] tell({q}) {'raised ' + repr(raised) if raised else 'returned'}; the point "
                                           f"{'is in data and' if q in l.data else 'is not in data but'} still pending")
    elif l.npoints != len(l.data):
        res["fail"] = ("npoints", f"[LearnerND {dim}-d] npoints {l.npoints} != len(data) {len(l.data)} after a rejected tell")
    return res


def run(ctx):
    proof = core.prove(MODULES, extra_targets=["AdaptiveProofs.Examples.Misc", "AdaptiveProofs.Examples.C10More"], leanchecker=ctx.thorough)
    args = [(kn, ctx.rng.randrange(1 << 30), ctx.n(35, 70)) for kn in KINDS for _ in range(ctx.n(14, 300))]
    results = core.pmap(case, args)
    results += core.pmap(rejected_tell_case, [ctx.rng.randrange(1 << 30) for _ in range(ctx.n(24, 300))])
    failures, dist, aborted, stats = [], {}, {}, {}
    for r in results:
        dist[r["kind"]] = dist.get(r["kind"], 0) + 1
        for k, v in r["stats"].items():
            stats[k] = stats.get(k, 0) + v
        if r.get("aborted"):
            aborted[r["kind"] + ":" + r["aborted"]] = aborted.get(r["kind"] + ":" + r["aborted"], 0) + 1
        if r.get("l2d_order"):
            failures.append({"clause": "retell_noop", "signature": "C10.lossF:l2d_pending_set_order",
                             "detail": r["l2d_order"], "replay": {"kind": r["kind"], "seed": r["seed"], "nops": r["nops"]}})
        if r.get("integ_reissue"):
            failures.append({"clause": "ask_reissues_told_sample", "signature": "C10.ask_reissues_told_sample.integ",
                             "detail": r["integ_reissue"], "replay": {"kind": r["kind"], "seed": r["seed"], "nops": r["nops"]}})
        if r["fail"]:
            cl, det = r["fail"]
            sig = f"C10.{cl}.{r['kind']}"
            if cl == "retold_point_still_pending" and r["kind"].split(":")[-1] == "avg":
                sig = "C10.retold_point_still_pending:AverageLearner"
            failures.append({"clause": cl, "signature": sig, "detail": det,
                             "replay": {"kind": r["kind"], "seed": r["seed"], "nops": r["nops"]}})
    # Learner2D's bookkeeping against its Lean model (AdaptiveModel/L2D.lean; the geometry of _fill_stack is the recorded oracle)
    from harness import l2d_drive
    corr = core.Corr("Learner2D~L2D.lean")
    lrng = random.Random(ctx.rng.randrange(1 << 30))
    lcases = [dict(c) for c in l2d_drive.CORPUS] + [l2d_drive.gen_case(lrng, ctx.n(40, 60)) for _ in range(ctx.n(150, 2500))]
    lres = core.pmap(l2d_drive._one, lcases)
    for r in lres:
        for k, v in r["stats"].items():
            corr.count(k, int(v))
        if r["err"] and str(r["err"]).startswith("harness"):
            raise RuntimeError(r["err"])
        if r["err"]:
            corr.count("history_cut_by_exception_of_the_geometry")
    core.lockstep(corr, lres, shards=ctx.n(4, 12))
    return core.conclude(
        ctx, proof, [corr], failures,
        rule="histories of asks (committing or not), out-of-order tells, tells of in-domain points never suggested, re-tells with the "
             "same and with a different value, explicit pending marks, discards, batched tells (for Learner1D both the loop and the "
             "forced batch path, sometimes containing an already known point with a different value) for 20 learner kinds incl. "
             "wrappers; recompute factor 1 or 2; non-trivial = (kind, seed) history",
        samples=[list(a) for a in args[:3]],
        evaluations=sum(stats.values()), distinct=len(results),
        explanation="A shadow of what was told / handed out is compared with data, pending_points, npoints after every operation; "
                    "re-tells must leave every observable unchanged; after remove_unfinished the pending set is empty and both "
                    "losses coincide (not for the integrator, for which discarding is a no-op by design).",
        trusted=core.COMMON_TRUSTED,
        assumptions=["Learner2D is exercised since its NumPy 2 / SciPy 1.15 breakage was repaired (fix: commits)",
                     "AverageLearner1D: data holds the running mean per abscissa, so only keys, counts and pending bookkeeping are compared"],
        extra={"kinds": dist, "ops": stats, "histories_aborted_by_exception": aborted},
        partial=["LearnerND / IntegratorLearner / complete AverageLearner1D (Props/C10More.lean, on the models of C04 / C07 / C16): every clause "
                 "is proved in the form that is true of the model; where a clause is false of model and code the counterexample is a "
                 "kernel-checked `example` next to it and the theorem carries the explicit hypothesis (LearnerND: no operation marks a known "
                 "point pending; integrator: the returned abscissa had no value; AverageLearner1D: told => not pending per operation only, "
                 "ask itself re-issues evaluated seeds - recorded finding)",
                 "Learner2D (AdaptiveModel/L2D.lean, bookkeeping only - the candidate list of _fill_stack is an oracle): proved for every "
                 "oracle and history, since the repairs e806eb2 / 844d031 also 'asked => pending until told or discarded' without any hypothesis "
                 "on the geometry; only the invariant 'no stack key is pending or evaluated' needs CandsFresh (kernel-checked "
                 "counterexamples Ex.inv1_needs_fresh, Ex.inv1_needs_fresh_evaluated)"],
    )


def replay(ctx, path):
    d = json.load(open(path)).get("replay")
    r = rejected_tell_case(d["seed"]) if d["kind"].endswith("rejected-tell") else case((d["kind"], d["seed"], d["nops"]))
    print(r)
    return 1 if r["fail"] else 0
