"""C18 — DataSaver is transparent.

proof:  lean/AdaptiveProofs/Props/C18.lean (generic over every wrapped learner model)
tie:    DataSaver(SequenceLearner) in lock-step with DataSaver.wrap (Seq.asLearner) (extra_data,
        child observables, _get_data/_set_data round trip)
search: twin runs on the real code for every wrapped learner type: DataSaver(L) fed full results
        vs L fed picked values; extra_data across save/load, pickle, copy_from
"""
from __future__ import annotations

import operator
import os
import pickle
import random
import shutil
import tempfile

import cloudpickle

import adaptive
from harness import core
from harness import learners as L
from harness.props import c17

MODULES = ["AdaptiveProofs.Props.C18"]


# ------------------------------------------------------------------ correspondence (Seq child)
def corr_case(rng, nops):
    n = rng.choice([0, 1, 2, 3, 5, 8, 12])
    pick_snd = rng.random() < 0.5
    seq = list(range(200, 200 + n))
    ds = adaptive.DataSaver(adaptive.SequenceLearner(lambda x: x, seq), arg_picker=operator.itemgetter(1 if pick_snd else 0))
    lines, outs = [f"ds new {n} {int(pick_snd)}"], []

    def obs():
        ex = ",".join(f"{k[0]}:({v[0]};{v[1]})" for k, v in ds.extra_data.items())
        return c17.obs_impl(ds, n) + " extra=" + ex
    outs.append("ok " + obs())
    outstanding = []
    for _ in range(nops):
        r = rng.random()
        if r < 0.35:
            k, c = rng.choice([0, 1, 2, 3, n + 1]), rng.random() < 0.8
            pts, _ = ds.ask(k, tell_pending=c)
            idx = [i for i, _ in pts]
            if c:
                outstanding += [i for i in idx if i not in outstanding]
            lines.append(f"ds ask {k} {int(c)}")
            outs.append("pts=" + ",".join(map(str, idx)) + " " + obs())
        elif r < 0.85 and n > 0:
            i = outstanding.pop(rng.randrange(len(outstanding))) if outstanding and rng.random() < 0.7 else rng.randrange(n)
            a, b = rng.randrange(-99, 99), rng.randrange(-99, 99)
            ds.tell((i, seq[i]), (a, b))
            lines.append(f"ds tell {i} {a} {b}")
            outs.append("ok " + obs())
        elif r < 0.93:
            ds.remove_unfinished()
            outstanding.clear()
            lines.append("ds remove_unfinished")
            outs.append("ok " + obs())
        else:
            fresh = ds.new()
            fresh.copy_from(ds)
            ds = fresh
            outstanding.clear()
            lines.append("ds roundtrip")
            outs.append("ok " + obs())
    return {"lines": lines, "impl": outs, "meta": {"n": n}}


def canon_model(line):
    return c17.canon_model(line)


# ------------------------------------------------------------------ twin-run oracle (all kinds)
def twin_run(kind_name, ops, seed, scratch):
    kind = L.KINDS[kind_name]
    pick = operator.itemgetter("y")
    ds = adaptive.DataSaver(kind.make(), arg_picker=pick)
    plain = kind.make()
    rng = random.Random(seed)
    outstanding, told = [], {}

    def full(p):
        return {"y": kind.fn(p), "aux": ("extra", L.canon(p))}

    def tell(p):
        r = full(p)
        ds.tell(p, r)
        plain.tell(p, pick(r))
        told[L.canon(p)] = r
        for q in list(outstanding):
            if L.canon(q) == L.canon(p):
                outstanding.remove(q)

    for i, op in enumerate(ops):
        try:
            if op[0] == "ask":
                # the same request on both twins: an exception is C18's business only when the twins do not fail alike
                ea = eb = None
                try:
                    a = ds.ask(op[1], tell_pending=op[2])
                except Exception as e:  # noqa: BLE001
                    ea = e
                try:
                    b = plain.ask(op[1], tell_pending=op[2])
                except Exception as e:  # noqa: BLE001
                    eb = e
                if ea is not None or eb is not None:
                    if type(ea) is not type(eb):
                        return ("wrapper_exception_mismatch", f"op {i} ask({op[1]},{op[2]}): wrapped {ea!r}, plain {eb!r}")
                    return None  # both refuse alike (e.g. AverageLearner1D.ask(0) divides by the request size); stop this history
                if L.canon(a) != L.canon(b):
                    return ("suggestions", f"op {i} ask({op[1]},{op[2]}): wrapped {a} vs plain {b}")
                if op[2]:
                    outstanding += list(a[0])
            elif op[0] == "tell_asked" and outstanding:
                tell(outstanding[op[1] % len(outstanding)])
            elif op[0] == "tell_new" and kind.rand_point:
                tell(kind.rand_point(random.Random(op[1])))
            elif op[0] == "retell" and told and kind.supports_foreign and op[1] % 4 == 0:
                # a malformed result (the picker raises): the tell fails and must leave no trace, neither in the wrapped
                # learner nor in extra_data (also when the point is already known)
                keys = list(told)
                cp = keys[op[1] % len(keys)]
                p = next((q for q in list(ds.extra_data) if L.canon(q) == cp), None)
                if p is not None:
                    before = ({L.canon(k): L.canon(v) for k, v in ds.extra_data.items()}, L.observe(ds))
                    try:
                        ds.tell(p, {"not_y": 1.0})
                        raised = False
                    except Exception:
                        raised = True
                    after = ({L.canon(k): L.canon(v) for k, v in ds.extra_data.items()}, L.observe(ds))
                    if raised and after != before:
                        return ("failed_tell_leaves_trace", f"op {i}: a tell whose result the picker rejected changed "
                                                            f"{'extra_data' if after[0] != before[0] else 'the wrapped learner'}")
            elif op[0] == "retell" and told and kind.supports_foreign:
                keys = list(told)
                # retell the same result for an already told point
                cp = keys[op[1] % len(keys)]
                p = next((q for q in list(ds.extra_data) if L.canon(q) == cp), None)
                if p is not None and kind_name in ("seq", "l2d", "integ") and op[1] % 3 == 0:
                    # learners that take the latest value: the point is measured again with another result; the wrapper must
                    # hand the new value on and keep the new full result
                    y2 = kind.fn(p)
                    y2 = (y2 + 1) if isinstance(y2, (int, float)) else y2
                    r2 = {"y": y2, "aux": ("second measurement", L.canon(p))}
                    ds.tell(p, r2)
                    plain.tell(p, pick(r2))
                    told[L.canon(p)] = r2
                elif p is not None:
                    tell(p)
            elif op[0] == "tell_pending" and kind.rand_point:
                p = kind.rand_point(random.Random(op[1]))
                if L.canon(p) in told and op[1] % 3 == 0 and told:
                    pass  # marking an already told point pending again (a retry): wrapper and plain must agree
                elif op[1] % 5 == 0 and told:
                    cp = list(told)[op[1] % len(told)]
                    p = next((q for q in list(ds.extra_data) if L.canon(q) == cp), p)
                try:
                    plain.tell_pending(p)
                except Exception as e:
                    # e.g. LearnerND refuses to mark a told point pending: the wrapper must refuse alike
                    try:
                        ds.tell_pending(p)
                    except Exception as e2:
                        if type(e2) is type(e):
                            return None  # both refuse; states may be half-updated alike, stop this history
                    return ("wrapper_exception_mismatch", f"op {i} tell_pending({p!r}): plain raised {e!r}, wrapper did not")
                ds.tell_pending(p)
            elif op[0] == "remove":
                ds.remove_unfinished()
                plain.remove_unfinished()
                if kind.discard:
                    outstanding.clear()
            elif op[0] == "tell_many_asked" and outstanding:
                k = min(op[2], len(outstanding))
                ps = [outstanding[(op[1] + j) % len(outstanding)] for j in range(k)]
                ps = list({L.canon(p): p for p in ps}.values())
                rs = [full(p) for p in ps]
                lazy = op[1] % 2 == 0  # one-shot iterables are legal arguments of tell_many
                ds.tell_many(iter(ps) if lazy else ps, (r for r in rs) if lazy else rs)
                plain.tell_many(ps, [pick(r) for r in rs])
                for p, r in zip(ps, rs):
                    told[L.canon(p)] = r
                outstanding[:] = [q for q in outstanding if L.canon(q) not in {L.canon(p) for p in ps}]
        except Exception as e:
            # both twins must fail alike; a failure of the plain learner alone is not C18's business
            return None if _plain_also_fails(kind, ops[: i + 1], seed) else ("wrapper_exception", f"op {i} {op}: {e!r}")
        oa, ob = L.observe(ds), L.observe(plain)
        if oa != ob:
            diff = [k for k in oa if oa[k] != ob[k]]
            return ("observables", f"op {i} {op}: wrapped and plain differ in {diff}")
        ex = {L.canon(k): v for k, v in ds.extra_data.items()}
        if set(ex) != set(told):
            return ("extra_keys", f"op {i}: extra_data keys {len(ex)} != told points {len(told)}")
        if any(L.canon(ex[k]) != L.canon(told[k]) for k in told):
            return ("extra_values", f"op {i}: extra_data value differs from the full result told last")
    # persistence channels
    want = {L.canon(k): L.canon(v) for k, v in ds.extra_data.items()}
    for chan in ("save", "pickle", "cloudpickle", "copy_from"):
        try:
            if chan == "save":
                f = os.path.join(scratch, "ds.pickle")
                ds.save(f)
                r = ds.new()
                r.load(f)
            elif chan == "pickle":
                r = pickle.loads(pickle.dumps(ds))
            elif chan == "cloudpickle":
                r = cloudpickle.loads(cloudpickle.dumps(ds))
            else:
                r = ds.new()
                r.copy_from(ds)
        except (pickle.PicklingError, AttributeError) as e:
            if chan == "pickle" and "pickle" in str(e).lower():
                continue  # closures (curvature loss) need cloudpickle; not a DataSaver matter
            return ("persist_exception", f"{chan}: {e!r}")
        except Exception as e:
            return ("persist_exception", f"{chan}: {e!r}")
        got = {L.canon(k): L.canon(v) for k, v in r.extra_data.items()}
        if got != want:
            return ("extra_persist", f"extra_data lost across {chan}: {len(got)} vs {len(want)} entries")
        if kind_name != "avg1d" and L.data_of(r) != L.data_of(ds):  # avg1d restores means up to rounding (C13)
            return ("data_persist", f"data differs across {chan}")
    # a new wrapper made by new() starts empty and stays independent of the original
    try:
        fresh = ds.new()
    except Exception as e:  # noqa: BLE001
        return ("persist_exception", f"new(): {e!r}")
    if len(fresh.extra_data) or fresh.extra_data is ds.extra_data:
        return ("new_not_empty", f"DataSaver.new() holds {len(fresh.extra_data)} full results of the original "
                                 f"({'the very same container' if fresh.extra_data is ds.extra_data else 'a copy'})")
    # saving twice to the same file: between the two saves a known point is measured again (learners that take the latest
    # value) - the second save must write what the wrapper holds now
    if kind_name in ("seq", "l2d", "integ") and told:
        try:
            f2 = os.path.join(scratch, "ds_twice.pickle")
            ds.save(f2)
            p = next(iter(ds.extra_data))
            y2 = kind.fn(p)
            y2 = (y2 + 2) if isinstance(y2, (int, float)) else y2
            r2 = {"y": y2, "aux": ("measured again before the second save", L.canon(p))}
            ds.tell(p, r2)
            plain.tell(p, pick(r2))
            ds.save(f2)
            back = ds.new()
            back.load(f2)
        except Exception as e:  # noqa: BLE001
            return ("persist_exception", f"second save: {e!r}")
        got = {L.canon(k): L.canon(v) for k, v in back.extra_data.items()}
        now = {L.canon(k): L.canon(v) for k, v in ds.extra_data.items()}
        if got != now:
            return ("extra_persist", "a second save to the same file (after a known point was measured again) did not store what the "
                                     "wrapper holds now")
        if L.data_of(back) != L.data_of(ds):
            return ("data_persist", "data differs after a second save to the same file")
    # rolling back to a checkpoint: the saved state is loaded into a wrapper that has gone on in the meantime.  For the learners
    # whose load REPLACES their data the full results must be replaced too (exactly the points the learner holds)
    if kind_name in ("lnd2", "avg", "integ", "l2d") and told:
        try:
            f = os.path.join(scratch, "ds_checkpoint.pickle")
            ds.save(f)
            extra_pts = []
            for _ in range(3):
                pts, _imps = ds.ask(2)
                for p in pts:
                    ds.tell(p, full(p))
                    extra_pts.append(p)
            ds.load(f)
        except Exception:  # noqa: BLE001
            return None
        have = {L.canon(k) for k in ds.extra_data}
        held = {L.canon(k) for k in ds.learner.data}
        if have != held:
            return ("extra_keys_after_rollback", f"after loading a checkpoint into a wrapper that had gone on, extra_data holds "
                                                 f"{len(have)} points, the wrapped learner {len(held)} ({len(have - held)} stale)")
    return None


def _plain_also_fails(kind, ops, seed):
    """replays the ops on an unwrapped learner alone"""
    plain = kind.make()
    outstanding = []
    try:
        for op in ops:
            if op[0] == "ask":
                a = plain.ask(op[1], tell_pending=op[2])
                if op[2]:
                    outstanding += list(a[0])
            elif op[0] == "tell_asked" and outstanding:
                p = outstanding[op[1] % len(outstanding)]
                plain.tell(p, kind.fn(p))
                outstanding = [q for q in outstanding if L.canon(q) != L.canon(p)]
            elif op[0] == "tell_new" and kind.rand_point:
                p = kind.rand_point(random.Random(op[1]))
                plain.tell(p, kind.fn(p))
            elif op[0] == "tell_pending" and kind.rand_point:
                plain.tell_pending(kind.rand_point(random.Random(op[1])))
            elif op[0] == "remove":
                plain.remove_unfinished()
                if kind.discard:
                    outstanding.clear()
            elif op[0] == "tell_many_asked" and outstanding:
                k = min(op[2], len(outstanding))
                ps = [outstanding[(op[1] + j) % len(outstanding)] for j in range(k)]
                ps = list({L.canon(p): p for p in ps}.values())
                plain.tell_many(ps, [kind.fn(p) for p in ps])
                outstanding = [q for q in outstanding if L.canon(q) not in {L.canon(p) for p in ps}]
    except Exception:
        return True
    return False


def gen_ops(seed, kn, nops):
    """Batched tells go through BaseLearner.tell_many of the wrapper (a loop over tell); for Learner1D the
    unwrapped learner's own tell_many has a separate batch path whose loss normalisation legitimately differs
    (see C11), so batched tells are compared for every wrapped kind except Learner1D and AverageLearner1D (which has its own
    tell_many as well)."""
    return [op for op in L.gen_ops(random.Random(seed), L.KINDS[kn], nops)
            if op[0] != "tell_many_asked" or not (kn.startswith("l1d") or kn == "avg1d")]


def run(ctx):
    proof = core.prove(MODULES, leanchecker=ctx.thorough)
    corr = core.Corr("DataSaver(SequenceLearner)~DataSaver.lean")
    cases = [corr_case(ctx.rng, ctx.n(30, 80)) for _ in range(ctx.n(150, 2000))]
    for c in cases:
        for l in c["lines"]:
            corr.count("op:" + l.split()[1])
    core.lockstep(corr, cases, canon_model=canon_model)
    failures = []
    core.OUT.mkdir(exist_ok=True)
    scratch = tempfile.mkdtemp(prefix="c18_", dir=core.OUT)
    nrun, nontrivial, skipped = 0, set(), 0
    try:
        kinds = ["l1d", "l1d_vec", "l1d_curv", "lnd2", "l2d", "avg", "avg1d", "seq", "integ"]
        for kn in kinds:
            for _ in range(ctx.n(12, 200)):
                seed = ctx.rng.randrange(1 << 30)
                ops = gen_ops(seed, kn, ctx.n(30, 60))
                f = twin_run(kn, ops, seed, scratch)
                nrun += 1
                corr.count("twin:" + kn)
                nontrivial.add((kn, seed))
                if f:
                    failures.append({"clause": f[0], "signature": f"C18.{f[0]}.{kn}", "detail": f[1],
                                     "replay": {"kind": kn, "seed": seed, "nops": ctx.n(30, 60)}})
    finally:
        shutil.rmtree(scratch, ignore_errors=True)
    return core.conclude(
        ctx, proof, [corr], failures,
        rule="lock-step histories of DataSaver(SequenceLearner) (ask/tell of result pairs/discard/copy_from, both pickers) and "
             "twin runs DataSaver(L) vs L for L in {Learner1D (3 losses, vector), LearnerND 2-D, AverageLearner, "
             "AverageLearner1D, SequenceLearner, IntegratorLearner, Learner2D} (incl. a second measurement of a point for the learners "
             "that take the latest value, and loading a checkpoint into a wrapper that has gone on) with persistence through save/load, pickle, cloudpickle, "
             "copy_from; non-trivial = distinct (kind, seed) twin history",
        samples=[c["lines"][:8] for c in cases[:2]],
        evaluations=len(cases) + nrun, distinct=len(nontrivial) + len(corr.distinct),
        explanation="DataSaver.lean wraps ANY learner model; Props/C18.lean proves for all op lists that the child state equals the "
                    "child run on picked values, that asks return the same points, that extra_data holds the last full result of "
                    "exactly the told points and that _get_data/_set_data preserve it",
        trusted=core.COMMON_TRUSTED + ["hand-written model lean/AdaptiveModel/DataSaver.lean", "cloudpickle round trip of extra_data"],
        assumptions=["points are hashable (DataSaver keys extra_data by point)"],
    )


def replay(ctx, path):
    import json
    d = json.load(open(path)).get("replay")
    scratch = tempfile.mkdtemp(prefix="c18_", dir=core.OUT)
    try:
        ops = gen_ops(d["seed"], d["kind"], d["nops"])
        f = twin_run(d["kind"], ops, d["seed"], scratch)
    finally:
        shutil.rmtree(scratch, ignore_errors=True)
    print("twin oracle:", f)
    return 1 if f else 0
