"""C04 — LearnerND: one loss per simplex of the data, and ask refines the worst simplex.

proof:  lean/AdaptiveProofs/Props/C04.lean over AdaptiveModel/LND.lean (bookkeeping of LearnerND over an abstract
        triangulation; every geometric / numeric answer is an oracle, theorems hold for all oracles and op lists)
tie:    real LearnerND in lock-step with the model at Float: 2-D and 3-D, scalar and vector outputs, rectangular and
        ConvexHull domains, default_loss / uniform_loss / std_loss, runner-like interleavings (ask k committing or not, shuffled partial
        tells, unsuggested and lattice points, tell_pending, re-tells, remove_unfinished); ask results (ids + improvements,
        bit for bit), loss(), keys of _losses, pending points, npoints compared after every operation
search: the property's clauses evaluated on the real learner after every operation (harness/lnd_oracles.py)
"""
from __future__ import annotations

import json
import re
import warnings

from harness import core, lnd_drive, lnd_oracles

MODULES = ["AdaptiveProofs.Props.C04", "AdaptiveProofs.Props.C04Reach"]
_G = re.compile(r" ~g=(\d)$")


def aspect(case):
    w = [b - a for a, b in case["bbox"]]
    return max(w) / min(w)


def signature(prop, clause, case, discarded, err=None):
    """clause + call site (exceptions) or triggering configuration; precise enough that a different violation of
    the same clause does not match a known finding"""
    if aspect(case) >= 1e4 and case["dim"] >= 3:
        # Triangulation._simplex_is_almost_flat works on unnormalised coordinates: with such a box every simplex
        # counts as flat, insertions leave holes, and every clause downstream can fail
        return f"{prop}.triangulation_degenerate:domain_aspect_ratio>=1e4"
    if err is not None:
        site = next((f for f in reversed(err["chain"]) if f in (
            "_try_adding_pending_point_to_simplex", "_pop_highest_existing_simplex", "_update_losses", "tell",
            "_update_subsimplex_losses")), err["chain"][-1] if err["chain"] else "?")
        clause = f"exception:{err['op'].split('_')[0]}:{err['type']}({err['msg'].split('.')[0][:40]})@{site}"
        if discarded and err["type"] == "AssertionError" and site == "_pop_highest_existing_simplex":
            return f"{prop}.queue_stale:after_remove_unfinished"  # fixed by e79ba45: reported again if it returns
        return f"{prop}.{clause}"
    if discarded and clause in ("ask_refines_worst", "ask_improvement"):
        return f"{prop}.queue_stale:after_remove_unfinished"  # fixed by e79ba45: reported again if it returns
    return f"{prop}.{clause}"


def _exact_incircle(self, pt_index, simplex, transform):
    from adaptive.learner import triangulation as T
    center, radius = self.circumscribed_circle(simplex, transform)
    pt = T.dot(self.get_vertices([pt_index]), transform)[0]
    return T.norm(center - pt) < radius


def run_case(case, shadow=False):
    warnings.simplefilter("ignore")
    fails = []
    box = {}

    def hook(l, info, when):
        if "o" not in box:
            box["o"] = lnd_oracles.C04Oracle(l, case)
            box["k"] = 0
        o = box["o"]
        if when == "before":
            o.before(info)
            return
        box["k"] += 1
        if info["op"].startswith("ask") and info.get("result") is not None:
            pts, imps, _ = info["result"]
            box.setdefault("asks", []).append((o.pre, (list(pts), list(imps)), info["line"], info["discarded"]))
        if fails:
            return
        for cl, det in o.after(info):
            fails.append((cl, f"after op {box['k']} ({info['line'][:60]}): {det}", info["discarded"]))

    try:
        lines, outs, l, stats, err = lnd_drive.execute(case, hook=hook)
    except Exception as e:
        # an exception the driver does not expect from a LearnerND on a legal history (e.g. raised while the learner is
        # being set up or inside a wrapped call): a failure of the case, not of the infrastructure
        import traceback
        tb = traceback.extract_tb(e.__traceback__)
        site = next((f"{f.filename.split('/')[-1]}:{f.name}" for f in reversed(tb) if "/adaptive/" in f.filename), "harness")
        err = {"type": type(e).__name__, "where": site, "msg": str(e)[:200], "op": "history", "chain": [site], "line": "",
               "discarded": False}
        return {"lines": [], "impl": [], "meta": case, "fails": [], "stats": {}, "err": err}
    if fails and fails[0][0] == "sub_tiling" and not err and not shadow:
        # which mechanism?  The same history with Triangulation.point_in_cicumcircle replaced by the test WITHOUT its relative 1e-8
        # band on the radius (the recorded C03 finding: in an anisotropic metric circumradii are huge and the band decides): if the
        # whole history then meets every clause, the band is the cause of THIS failure
        from adaptive.learner import triangulation as T
        orig = T.Triangulation.point_in_cicumcircle
        T.Triangulation.point_in_cicumcircle = _exact_incircle
        try:
            sh = run_case(case, shadow=True)
        finally:
            T.Triangulation.point_in_cicumcircle = orig
        if not sh["fails"] and not sh["err"]:
            cl, det, disc = fails[0]
            fails[0] = ("sub_tiling:incircle_decided_by_eps", det + "; the same history with the in-circle test without its relative 1e-8 "
                        "band on the radius meets every clause", disc)
    st = dict(stats)
    o = box.get("o")
    if o and not fails and not err:
        unobserved(case, o, box.get("asks", []), lnd_drive.LAST_CONCRETE, fails)
    if o:
        st["oracle_evaluations"] = o.checked
        for k, v in o.stats.items():
            st[k] = v
    return {"lines": lines, "impl": outs, "meta": case, "fails": fails[:3], "stats": st, "err": err}


def unobserved(case, o, asks, concrete, fails):
    """the same history with NOTHING observed between the operations (no loss(), no read of `tri`): every answer of ask must
    be the observed run's answer; where it differs, the clauses of the property are evaluated on the unobserved answer with
    the observed run's state before that ask (a different answer that meets the clauses is counted, not reported)"""
    for k, res, l2 in lnd_drive.blind_replay(case, concrete):
        if isinstance(res, Exception):
            where, chain = lnd_drive.where_of(res)
            if k < len(asks) or any(op[0] != "ask" for op in concrete):
                fails.append(("exception_unobserved", f"the history without any loss()/tri read in between raised "
                                                       f"{type(res).__name__}: {str(res)[:80]} at {where} (the observed run did not)",
                              False))
            return
        if k >= len(asks):
            return
        pre, obs, line, disc = asks[k]
        o.count("unobserved_asks_compared")
        same = ([tuple(map(float, p)) for p in res[0]] == [tuple(map(float, p)) for p in obs[0]]
                and [float(x) for x in res[1]] == [float(x) for x in obs[1]])
        if same:
            continue
        o.pre = pre
        bad = o.check_ask({"result": (res[0], res[1], None), "line": line}) if pre is not None else []
        if bad:
            cl, det = bad[0]
            fails.append((cl + ":unobserved", f"ask no. {k + 1} ({line}) of the history WITHOUT any loss()/tri read in between "
                                              f"returned {res[0]} / {res[1]} (observed run: {obs[0]} / {obs[1]}): {det}", disc))
        else:
            o.count("unobserved_answer_differs_but_meets_clauses")
        return


def gen_cases(rng, n, nops):
    return [lnd_drive.gen_case(rng, nops) for _ in range(n)]


def collect(results, corr, failures, prop):
    for r in results:
        c = r["meta"]
        corr.count(f"dim:{c['dim']}")
        corr.count(f"domain:{c['domain']}")
        corr.count(f"loss:{c['loss']}")
        corr.count(f"vdim:{c['vdim']}")
        corr.count(f"fn:{c['fn']}")
        if aspect(c) >= 1e4:
            corr.count("domain_aspect_ratio>=1e4")
        if any(abs(a) >= 100 * (b - a) for a, b in c["bbox"]):
            corr.count("domain_far_from_origin")
        for k, v in r["stats"].items():
            corr.count(k, int(v))
        if r["err"]:
            e = r["err"]
            corr.count(f"exception:{e['type']}@{e['where']}")
            failures.append({"clause": "exception", "signature": signature(prop, "exception", c, e["discarded"], e),
                             "detail": f"{e['op']} raised {e['type']}: {e['msg']} via {' > '.join(e['chain'][-5:])} "
                                       f"[dim={c['dim']} domain={c['domain']} loss={c['loss']} line `{e['line'][:50]}`]",
                             "replay": {"case": c}})
        for cl, det, disc in r["fails"][:1]:
            failures.append({"clause": cl, "signature": signature(prop, cl, c, disc), "detail": det,
                             "replay": {"case": c}})
        if c.get("expect") == "pass" and (r["err"] or r["fails"]):
            what = r["err"]["type"] + ": " + r["err"]["msg"] if r["err"] else r["fails"][0][0] + ": " + r["fails"][0][1]
            failures.append({"clause": "regression", "signature": f"{prop}.regression:{c.get('name')}",
                             "detail": f"corpus history {c.get('name')} must pass on the repaired code: {what}",
                             "replay": {"case": c}})
        if r["stats"].get("conflicts"):
            failures.append({"clause": "oracle_not_a_function", "signature": f"{prop}.harness:oracle_not_a_function",
                             "detail": "a recorded oracle answered the same key differently (modelling assumption broken)",
                             "replay": {"case": c}})


def make_canon(ghost):
    def canon(line):
        m = _G.search(line)
        if m:
            ghost[m.group(1)] = ghost.get(m.group(1), 0) + 1
            line = line[: m.start()]
        return line
    return canon


TRUSTED = core.COMMON_TRUSTED + [
    "hand-written model AdaptiveModel/LND.lean (bookkeeping of LearnerND), tied bit-exactly to the real class on the "
    "generated histories",
    "everything geometric or numeric is an oracle of the model (Triangulation incl. Bowyer-Watson and scipy Delaunay, "
    "point_in_simplex, volumes, the loss function, choose_point_in_simplex, inside_bounds, random bootstrap points); "
    "theorems hold for all oracle answers; the explicit hypotheses are truthful COMBINATORICS of the triangulation and the "
    "sub-triangulations (ReportExact, TriGeom, SubGeom, SubIdxGeom: exact (deleted, added) reports, vertex indices in range, "
    "added simplices contain the new vertex, a fresh sub-triangulation loses its root simplex — C03's theorems) and "
    "ChooseGeom (chosen point in the domain and accepted by point_in_simplex for its simplex / the owning simplex; inserting it "
    "removes the sub-simplex; tri.simplices duplicate-free) and AskNew (the point _ask_best_point chooses has no value yet: since "
    "the repair f204e85 tell_pending ignores evaluated points, so a chosen evaluated point would silently drop its simplex from the "
    "queue - kernel-checked counterexample lnd_queue_complete_needs_askNew; AskNew follows from ChooseLocal + DataBound, "
    "lnd_askNew_of_bound); the former ghost flag geomOK is proved true under these (lnd_ghost_true) and still counted in the "
    "evidence as an empirical test of them",
    "harness/lnd_drive.py monkeypatch recorder; python round(x, 8) reproduced exactly from the bit pattern "
    "(Drv/LND.lean rnd8); sortedcontainers.SortedKeyList ordering (bisect_right insertion)",
    "IEEE rounding is outside the theorems (ordered fields)",
]

PARTIAL = [
    "lnd_ask_fresh_statement (ask returns distinct points none of which is evaluated or pending) is a stated Prop only; "
    "lnd_ask_fresh proves the full clause under the state-level hypothesis ChooseFresh, lnd_ask_fresh_of_bound reduces ChooseFresh "
    "to ChooseLocal + PointsBound; the real code violates PointsBound (known finding C04.exception:ask:ValueError(Point already "
    "in triangulation), and pending points told before the triangulation exists)",
]


def run(ctx):
    proof = core.prove(MODULES, extra_targets=["AdaptiveProofs.Examples.C04Reach"], leanchecker=ctx.thorough)
    failures = []
    corr = core.Corr("LearnerND~LND.lean")
    cases = [dict(c) for c in lnd_drive.CORPUS] + gen_cases(ctx.rng, ctx.n(260, 4000), ctx.n(34, 70))
    results = core.pmap(run_case, cases)
    collect(results, corr, failures, ctx.prop_id)
    ghost = {}
    core.lockstep(corr, results, canon_model=make_canon(ghost), shards=16)
    corr.distribution["model_ops_with_geometric_side_conditions_holding"] = ghost.get("1", 0)
    corr.distribution["model_ops_with_geometric_side_conditions_broken"] = ghost.get("0", 0)
    if (not proof.ok or not corr.ok) and not [f for f in failures if not _is_known(ctx.prop_id, f)]:
        extra = core.pmap(run_case, gen_cases(ctx.rng, ctx.n(400, 1500), 60))
        collect(extra, core.Corr("deep"), failures, ctx.prop_id)
    evaluations = sum(r["stats"].get("oracle_evaluations", 0) for r in results)
    return core.conclude(
        ctx, proof, [corr], failures,
        rule="seeded LearnerND histories: dims 2 and 3, rectangular (5 magnitudes per axis, aspect ratio <= 160, plus a rare "
             "1e6 aspect; 20% translated by 200-1000 domain sizes along some axes) and ConvexHull domains, default_loss / uniform_loss / std_loss, scalar and 2-/3-vector outputs, 5 functions "
             "(smooth, peaked, constant, large linear, tiny variation); ops: ask 1-6 points committing or not, shuffled "
             "partial tells, unsuggested random and lattice points, tell_pending, re-tells, remove_unfinished (30% of the "
             "histories), loss; preceded by the scripted corpus of minimised findings (lnd_drive.CORPUS); non-trivial = "
             "distinct op-line sequence",
        samples=[[x for x in r["lines"] if " oracle " not in x][:5] for r in results[:2]],
        evaluations=evaluations, distinct=len(corr.distinct),
        explanation="Every op runs on the real learner (oracle answers recorded by monkeypatching) and on the Lean model at "
                    "Float; ask results (point ids, improvements bit for bit), loss(), keys of _losses, pending points and "
                    "npoints are compared after every op. The search oracle evaluates the clauses of C04 on the real object "
                    "after every op with exact rational geometry.",
        trusted=TRUSTED,
        assumptions=["points told are inside the domain and not within 1e-6 of the domain size of another known point",
                     "loss functions without neighbouring simplices (nth_neighbors = 0)",
                     "ask(n) with n >= 1"],
        partial=PARTIAL,
    )


def _is_known(prop, f):
    return any(k.get("status") == "finding" and k["signature"] == f["signature"] for k in core.load_known(prop))


def replay(ctx, path):
    d = json.load(open(path))
    case = (d.get("replay") or {}).get("case")
    if not case:
        print(json.dumps(d, indent=1)[:3000])
        return 0
    for k in ("bounds", "bbox", "hull"):
        if k in case:
            case[k] = [tuple(x) for x in case[k]]
    r = run_case(case)
    bad = False
    if r["err"]:
        e = r["err"]
        print("EXCEPTION", e["op"], e["type"], e["msg"], "via", " > ".join(e["chain"][-6:]))
        print("  signature", signature(ctx.prop_id, "exception", case, e["discarded"], e))
        bad = True
    for cl, det, disc in r["fails"]:
        print("FAIL", cl, det)
        print("  signature", signature(ctx.prop_id, cl, case, disc))
        bad = True
    corr = core.Corr("replay")
    core.lockstep(corr, [r], canon_model=make_canon({}))
    for dd in corr.disagreements:
        print("DISAGREE op", dd["index"], dd["line"][:200], "\n impl ", dd["impl"][:800], "\n model", dd["model"][:800])
    if corr.error:
        print("driver error", corr.error)
    print(f"replayed {len([x for x in r['lines'] if ' oracle ' not in x])} ops, lock-step disagreements: {len(corr.disagreements)}")
    return 1 if bad or corr.disagreements else 0
