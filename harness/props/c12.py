"""C12 — rescaling inputs or outputs does not change which points are chosen.

proof:  lean/AdaptiveProofs/Props/C12.lean — over ordered fields, for positive factors: every operation of the Learner1D model
        commutes with scaling the domain/abscissae by cx and the values by cy (losses unchanged, suggestions scaled)
tie:    the model is tied to Learner1D bit-exactly by the lock-step runs of C01/C02
search: paired REAL learners (Learner1D with every shipped scale-free loss, scalar and vector outputs; LearnerND 2-D/3-D with a
        common input factor), factors 2^k with k in [-30, 30] on inputs and outputs: at every step of a history with pending
        points and out-of-order delivery the rescaled learner must choose exactly the scaled points (bit for bit) and report the
        same losses (bit for bit); non-power-of-two factors to 1e-9
"""
from __future__ import annotations

import json
import math
import random
import warnings

import numpy as np

import adaptive
from adaptive.learner import learner1D as l1
from harness import core

MODULES = ["AdaptiveProofs.Props.C12"]
LOSSES1 = {
    "default": lambda: None,
    "uniform": lambda: l1.uniform_loss,
    "triangle": lambda: l1.triangle_loss,
    "curvature": lambda: l1.curvature_loss_function(),
    "resolution": lambda: l1.resolution_loss_function(0.01, 1.0),
}


def base_fn(kind, a, b):
    if kind == "smooth":
        return lambda u: math.sin(a * u) + b * u
    if kind == "step":
        return lambda u: (1.0 if u > b * 0.5 else -0.5) + 0.125 * u
    if kind == "peak":
        return lambda u: u + 0.0004 / (0.0004 + (u - b * 0.3) ** 2)
    if kind == "vec":
        return lambda u: np.array([math.sin(a * u), 10.0 * u * u, 1.0 if u > 0 else 0.0])
    raise ValueError(kind)


def eq_exact(a, b):
    a, b = np.asarray(a, dtype=float), np.asarray(b, dtype=float)
    return a.shape == b.shape and bool(np.all((a == b) | (np.isnan(a) & np.isnan(b))))


def eq_close(a, b, rtol=1e-6, atol=0.0):
    """generic (non power-of-two) factors: rounding differs between the two runs, and quantities that are
    square roots of tiny differences (curvature loss) amplify it"""
    a, b = np.asarray(a, dtype=float), np.asarray(b, dtype=float)
    return a.shape == b.shape and bool(np.allclose(a, b, rtol=rtol, atol=atol, equal_nan=True))


def l1d_case(arg):
    seed, pow2 = arg
    warnings.simplefilter("ignore")
    rng = random.Random(seed)
    lossn = rng.choice(list(LOSSES1))
    fk = rng.choice(["smooth", "step", "peak", "vec"])
    g = base_fn(fk, rng.uniform(0.5, 3), rng.uniform(-1, 1))
    if pow2:
        cx, cy = 2.0 ** rng.randint(-30, 30), 2.0 ** rng.randint(-30, 30)
    else:
        cx, cy = rng.uniform(0.01, 100), rng.uniform(0.01, 100)
    lo, hi = rng.choice([(-1.0, 1.0), (0.0, 1.0), (-0.5, 3.5)])
    f = lambda x: g(x)
    a = adaptive.Learner1D(f, bounds=(lo, hi), loss_per_interval=LOSSES1[lossn]())
    b = adaptive.Learner1D(lambda x: cy * g(x / cx), bounds=(cx * lo, cx * hi), loss_per_interval=LOSSES1[lossn]())
    eq = eq_exact if pow2 else eq_close
    out = []  # outstanding (x in a's coordinates)
    res = {"seed": seed, "pow2": pow2, "loss": lossn, "fn": fk, "cx": cx, "cy": cy, "fail": None, "steps": 0}

    def fail(cl, det):
        res["fail"] = (cl, f"[{lossn}, {fk}, cx={cx!r}, cy={cy!r}] step {res['steps']}: {det}")
        return res

    deep = rng.random() < 0.3   # deep refinement at one spot: sequential ask(1..2)/tell, 60-90 steps (x-precision cut-offs)
    if deep and fk not in ("step", "peak"):
        fk = res["fn"] = "step"
        g = base_fn(fk, 1.0, rng.uniform(-1, 1))
    res["deep"] = deep
    for _ in range(rng.choice([60, 75, 90]) if deep else rng.choice([15, 30, 45])):
        res["steps"] += 1
        r = rng.random() * (0.8 if deep else 1.0)
        if deep and out:
            r = 0.6
        if r < 0.45:
            n = rng.choice([1, 1, 2]) if deep else rng.choice([1, 1, 2, 3, 5])
            commit = True if deep else rng.random() < 0.8
            pa, ia = a.ask(n, tell_pending=commit)
            pb, ib = b.ask(n, tell_pending=commit)
            same = eq([cx * x for x in pa], pb) if pow2 else eq_close([cx * x for x in pa], pb, 1e-9, 1e-9 * cx * (hi - lo))
            if len(pa) != len(pb) or not same:
                return fail("points", f"ask({n}): original {pa} -> scaled {[cx * x for x in pa]} but rescaled learner chose {pb}")
            if not eq(ia, ib):
                return fail("improvements", f"ask({n}) improvements {ia} vs {ib}")
            if commit:
                out += [x for x in pa if x not in out]
        elif r < 0.85 and out:
            rng.shuffle(out)
            k = rng.randrange(1, len(out) + 1)
            if not deep and rng.random() < 0.3:
                # the same results as one batch (both paths of tell_many; the rest stays pending)
                xs, out = out[:k], out[k:]
                ys = [g(x) for x in xs]
                force = rng.random() < 0.5
                a.tell_many(xs, ys, force=force)
                b.tell_many([cx * x for x in xs], [cy * y for y in ys], force=force)
                res["batches"] = res.get("batches", 0) + 1
            else:
                for _ in range(k):
                    x = out.pop()
                    y = g(x)
                    a.tell(x, y)
                    b.tell(cx * x, cy * y)
        elif r < 0.9:
            x = lo + (hi - lo) * rng.randrange(0, 65) / 64.0
            a.tell_pending(x)
            b.tell_pending(cx * x)
            if x not in a.data and x not in out:
                out.append(x)
        elif r < 0.94:
            a.remove_unfinished()
            b.remove_unfinished()
            out.clear()
        for real in (True, False):
            if not eq(a.loss(real=real), b.loss(real=real)):
                return fail("loss", f"loss(real={real}) {a.loss(real=real)!r} vs rescaled {b.loss(real=real)!r}")
    return res


def fn_nd(dim, a, b):
    if dim == 2:
        return lambda p: math.exp(-((p[0] - 0.1 * b) ** 2 + (p[1] + 0.2) ** 2) * (1 + a)) + 0.25 * p[0]
    return lambda p: p[0] * p[1] + math.sin(a * p[2]) + 0.5 * b


def _subtri_order_differs(a, b, cx):
    """mechanism detector: some simplex holds, in both learners, a sub-triangulation over the SAME (scaled) vertex set whose pending
    vertices were inserted in a DIFFERENT order (LearnerND._update_losses re-inserts pending points while iterating a set of float
    tuples, whose order follows the hashes of the coordinates and so depends on the scale)"""
    try:
        for sx, sa in a._subtriangulations.items():
            sb = b._subtriangulations.get(sx)
            if sb is None:
                continue
            va = [tuple(float(cx * x) for x in v) for v in sa.vertices]
            vb = [tuple(float(x) for x in v) for v in sb.vertices]
            common = set(va) & set(vb)   # (the point just chosen differs: it is the failure itself)
            ra, rb = [v for v in va if v in common], [v for v in vb if v in common]
            if ra != rb and len(common) >= len(va) - 1:
                return True
    except Exception:  # noqa: BLE001
        pass
    return False


def lnd_case(arg):
    seed, pow2 = arg
    warnings.simplefilter("ignore")
    rng = random.Random(seed)
    dim = rng.choice([2, 2, 3])
    g0 = fn_nd(dim, rng.uniform(0.5, 3), rng.uniform(-1, 1))
    vec = rng.random() < 0.35
    # vector outputs whose components live in offset bands (the first value already spreads over several units)
    g = (lambda p: np.array([g0(p) - 3.0, 0.5 * g0(p) + 3.0])) if vec else g0
    if pow2:
        cx, cy = 2.0 ** rng.randint(-30, 30), 2.0 ** rng.randint(-30, 30)
    else:
        cx, cy = rng.uniform(0.01, 100), rng.uniform(0.01, 100)
    bounds = [(-1.0, 1.0)] * dim if rng.random() < 0.6 else [(0.0, 1.0), (-2.0, 2.0), (-1.0, 0.5)][:dim]
    # every shipped loss of LearnerND is scale-free (they see coordinates divided by the domain size and values divided by the range);
    # triangle / curvature look at the neighbouring simplices as well
    from adaptive.learner import learnerND as LN
    lossn = rng.choice(["default", "default", "uniform", "std", "triangle", "triangle", "curvature", "curvature"])
    mkloss = {"default": lambda: LN.default_loss, "uniform": lambda: LN.uniform_loss, "std": lambda: LN.std_loss,
              "triangle": lambda: LN.triangle_loss, "curvature": lambda: LN.curvature_loss_function()}[lossn]
    a = adaptive.LearnerND(g, bounds=bounds, loss_per_simplex=mkloss())
    b = adaptive.LearnerND(lambda p: cy * g(tuple(x / cx for x in p)), bounds=[(cx * l, cx * h) for l, h in bounds],
                           loss_per_simplex=mkloss())
    eq = eq_exact if pow2 else eq_close
    out = []
    res = {"seed": seed, "pow2": pow2, "dim": dim, "cx": cx, "cy": cy, "fail": None, "steps": 0, "vector": vec, "loss": lossn}

    def fail(cl, det):
        res["fail"] = (cl, f"[LearnerND {dim}-D{' vector' if vec else ''}, {lossn} loss, cx={cx!r}, cy={cy!r}] step {res['steps']}: {det}")
        return res

    try:
        for _ in range(rng.choice([10, 20, 30])):
            res["steps"] += 1
            r = rng.random()
            if r < 0.5:
                n = rng.choice([1, 1, 2, 3])
                pa, ia = a.ask(n)
                pb, ib = b.ask(n)
                sp = [[cx * x for x in p] for p in pa]
                same = eq(sp, [list(p) for p in pb]) if pow2 else eq_close(sp, [list(p) for p in pb], 1e-9, 1e-9 * cx)
                if len(pa) != len(pb) or not same:
                    res["ulp_level"] = len(pa) == len(pb) and eq_close(sp, [list(p) for p in pb], 1e-12, 0.0)
                    if not res["ulp_level"] and len(pa) == len(pb) and eq_close(sorted(sp), sorted(list(p) for p in pb), 1e-12, 1e-9 * cx):
                        # the same points in another order: simplices of (mathematically) equal loss, the tie is broken by
                        # last-bit differences of the losses
                        res["ulp_level"] = True
                    if pow2 and not res["ulp_level"] and eq(ia, ib) and _subtri_order_differs(a, b, cx):
                        # equal priorities (the improvements agree bit for bit), the same (simplex, sub-simplex) INDEX entry popped,
                        # but the indices name different pending vertices in the two learners
                        res["pending_order"] = True
                    return fail("points", f"ask({n}): original {pa} but rescaled learner chose {pb}")
                if not eq(ia, ib):
                    res["ulp_level"] = eq_close(ia, ib, 1e-12, 0.0)
                    return fail("improvements", f"ask({n}) improvements {ia} vs {ib}")
                out += [p for p in pa if p not in out]
            elif out:
                rng.shuffle(out)
                for _ in range(rng.randrange(1, len(out) + 1)):
                    p = out.pop()
                    y = g(p)
                    a.tell(p, y)
                    b.tell(tuple(cx * x for x in p), cy * y)
            if a.npoints > dim + 1 and not eq(a.loss(), b.loss()):
                res["ulp_level"] = eq_close(a.loss(), b.loss(), 1e-12, 0.0)
                return fail("loss", f"loss() {a.loss()!r} vs rescaled {b.loss()!r}")
    except Exception as e:
        res["aborted"] = type(e).__name__
    return res


def run(ctx):
    proof = core.prove(MODULES, extra_targets=["AdaptiveProofs.Examples.L1D"], leanchecker=ctx.thorough)
    n = ctx.n(240, 4000)
    args1 = [(ctx.rng.randrange(1 << 30), i % 5 != 0) for i in range(n)]
    args2 = [(ctx.rng.randrange(1 << 30), i % 5 != 0) for i in range(n // 2)]
    r1 = core.pmap(l1d_case, args1)
    r2 = core.pmap(lnd_case, args2)
    failures, dist, steps = [], {}, 0
    for r in r1:
        steps += r["steps"]
        dist[f"l1d:{r['loss']}:{'pow2' if r['pow2'] else 'generic'}"] = dist.get(f"l1d:{r['loss']}:{'pow2' if r['pow2'] else 'generic'}", 0) + 1
        if r["fail"] and not r["pow2"]:
            dist["l1d:generic_factor_drift(not deciding)"] = dist.get("l1d:generic_factor_drift(not deciding)", 0) + 1
        elif r["fail"]:
            cl, det = r["fail"]
            failures.append({"clause": "l1d_" + cl, "signature": f"C12.l1d_{cl}", "detail": det,
                             "replay": {"l1d": [r["seed"], r["pow2"]]}})
    for r in r2:
        steps += r["steps"]
        k = f"lnd{r['dim']}:{'pow2' if r['pow2'] else 'generic'}" + (":aborted:" + r["aborted"] if r.get("aborted") else "")
        dist[k] = dist.get(k, 0) + 1
        dist[f"lnd_loss:{r.get('loss')}{':vector' if r.get('vector') else ''}"] = dist.get(f"lnd_loss:{r.get('loss')}{':vector' if r.get('vector') else ''}", 0) + 1
        if r["fail"] and not r["pow2"]:
            dist["lnd:generic_factor_drift(not deciding)"] = dist.get("lnd:generic_factor_drift(not deciding)", 0) + 1
        elif r["fail"]:
            cl, det = r["fail"]
            sig = f"C12.lnd_{cl}"
            if r.get("pending_order"):
                sig = "C12.lnd:tie_broken_by_pending_set_order"
            if r.get("ulp_level"):
                sig = "C12.lnd:ulp_level_difference"
            if r["dim"] * math.log(r["cx"]) < -45:
                # volume of a simplex of the down-scaled domain below e^-50: Triangulation.orientation's absolute cut
                sig = "C12.lnd:orientation_absolute_logdet_cut"
            failures.append({"clause": "lnd_" + cl, "signature": sig, "detail": det,
                             "replay": {"lnd": [r["seed"], r["pow2"]]}})
    return core.conclude(
        ctx, proof, [], failures,
        rule="paired real learners, original and rescaled (inputs x cx, outputs x cy): Learner1D with 5 scale-free losses x 4 function "
             "shapes (incl. a discontinuity, a narrow peak, 3-vector output) x 3 bounds, LearnerND in 2-D/3-D with a common input "
             "factor; cx, cy = 2^k, k uniform in [-30, 30] (bit-for-bit comparison) for 4 of 5 cases, generic positive factors "
             "(1e-9 relative) for the rest; histories of 10-45 steps with committing and non-committing asks, out-of-order partial "
             "delivery, unsuggested pending marks, discards; non-trivial = pair history",
        samples=[list(a) for a in args1[:3]],
        evaluations=steps, distinct=len(r1) + len(r2),
        explanation="At every step the rescaled learner must return exactly cx times the original's points and identical "
                    "improvements and losses.",
        trusted=core.COMMON_TRUSTED + ["IEEE-754: multiplication by a power of two is exact absent overflow/underflow (the reason the "
                                       "bit-for-bit clause can hold); the Lean theorem is over ordered fields"],
        assumptions=["power-of-two factors within 60 binades, no overflow/underflow of the scaled quantities"],
        extra={"distribution": dist},
        partial=["LearnerND equivariance is not proved in Lean (no model of its geometry here): paired oracle only"],
    )


def replay(ctx, path):
    d = json.load(open(path)).get("replay")
    if "l1d" in d:
        r = l1d_case(tuple(d["l1d"]))
    else:
        r = lnd_case(tuple(d["lnd"]))
    print(r)
    return 1 if r["fail"] else 0
