"""C06 — bounded retries, nothing lost."""
from harness import runner_common as rc

MODULES = ["AdaptiveProofs.Props.C06"]


def run(ctx):
    return rc.run_check(
        ctx, MODULES, [("c06", rc.oracle_c06), ("c05", rc.oracle_c05)], faults=True,
        explanation="same runner model; Props/C06.lean proves the retry bound, retry-first, tell-at-most-once, the "
                    "characterisation of `failed` and of the raised error for every assignment of success/failure")


def replay(ctx, path):
    return rc.replay(ctx, path, [("c06", rc.oracle_c06), ("c05", rc.oracle_c05)])
