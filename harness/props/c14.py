"""C14 — saving is atomic; loading tolerates absence.

proof:  lean/AdaptiveProofs/Props/C14.lean over lean/AdaptiveModel/SaveFs.lean
tie:    the real adaptive.utils.save run in a forked child with `adaptive.utils.os` / `open`
        replaced by fault-injecting shims (OSError or a real os._exit at the named primitive);
        primitive trace, return value, destination and temp file compared with the model
search: destination loads to old or new data; failure ⇒ old untouched; success ⇒ new, no temp
"""
from __future__ import annotations

import builtins
import itertools
import json
import os
import shutil
import tempfile
import types

from harness import core

MODULES = ["AdaptiveProofs.Props.C14"]
STEPS = ["makedirs", "open", "write", "close", "replace", "exists", "remove"]
OLD = {"version": "old", "xs": [1.0, 2.0, 3.0]}
NEW = {"version": "new", "xs": [float(i) for i in range(40)], "note": "x" * 50}


def fault_sets():
    yield {}
    for s in STEPS:
        for k in ("oserror", "death"):
            if s == "exists" and k == "oserror":
                continue
            yield {s: k}
    for k2 in ("oserror", "death"):
        yield {"write": "oserror", "close": k2}
        yield {"replace": "oserror", "remove": k2}
    yield {"replace": "oserror", "exists": "death"}
    yield {"open": "oserror", "replace": "oserror"}
    yield {"close": "oserror", "remove": "oserror"}


def cases(ctx):
    out = []
    for faults in fault_sets():
        prefixes = ["zero", "half", "most"] if "write" in faults else ["zero"]
        for pref, has_old, has_dir, compress in itertools.product(prefixes, (0, 1), (0, 1), (0, 1)):
            out.append({"faults": faults, "prefix": pref, "has_old": has_old, "has_dir": has_dir, "compress": compress})
    return out


def child(case, root, logf, resf):
    """runs in the forked child: real utils.save with shims"""
    import adaptive.utils as au

    faults = case["faults"]
    info = {}

    def log(step):
        with builtins.open(logf, "a") as f:
            f.write(step + "\n")

    def hit(step):
        log(step)
        k = faults.get(step)
        if k == "death":
            with builtins.open(resf + ".info", "w") as f:
                json.dump(info, f)
            os._exit(77)
        if k == "oserror":
            raise OSError(5, f"injected at {step}")

    class FileShim:
        def __init__(self, path, mode):
            hit("open")
            self.f = builtins.open(path, mode, buffering=0)

        def write(self, blob):
            info["n"] = len(blob)
            k = {"zero": 0, "half": len(blob) // 2, "most": len(blob) - 1}[case["prefix"]]
            if "write" in faults:
                info["k"] = k
                self.f.write(blob[:k])
                hit("write")
            log("write")
            return self.f.write(blob)

        def __enter__(self):
            return self

        def __exit__(self, *exc):
            if faults.get("close") == "death":
                hit("close")
            self.f.close()
            hit("close")
            return False

    pathns = types.SimpleNamespace(**{k: getattr(os.path, k) for k in dir(os.path) if not k.startswith("__")})

    def exists(p):
        hit("exists")
        return os.path.exists(p)
    pathns.exists = exists
    osns = types.SimpleNamespace(**{k: getattr(os, k) for k in dir(os) if not k.startswith("__")})

    def makedirs(*a, **k):
        hit("makedirs")
        return os.makedirs(*a, **k)

    def replace(a, b):
        hit("replace")
        return os.replace(a, b)

    def remove(p):
        hit("remove")
        return os.remove(p)
    osns.makedirs, osns.replace, osns.remove, osns.path = makedirs, replace, remove, pathns
    au.os = osns
    au.open = lambda path, mode="r": FileShim(path, mode)
    fname = os.path.join(root, "sub", "dest.pickle") if case["has_dir"] else "dest.pickle"
    try:
        r = au.save(fname, NEW, compress=bool(case["compress"]))
        res = "true" if r is True else "false" if r is False else f"other:{r!r}"
    except OSError:
        res = "raised"
    with builtins.open(resf + ".info", "w") as f:
        json.dump(info, f)
    with builtins.open(resf, "w") as f:
        f.write(res)
    os._exit(0)


def run_case(case, scratch):
    import adaptive.utils as au

    root = tempfile.mkdtemp(dir=scratch)
    try:
        sub = os.path.join(root, "sub")
        # relative fname (no dirname) is resolved against the child's cwd = root
        dest = os.path.join(sub, "dest.pickle") if case["has_dir"] else os.path.join(root, "dest.pickle")
        if case["has_old"]:
            os.makedirs(os.path.dirname(dest), exist_ok=True)
            assert au.save(dest, OLD, compress=bool(case["compress"]))
        logf, resf = os.path.join(root, "trace.log"), os.path.join(root, "result.txt")
        pid = os.fork()
        if pid == 0:
            try:
                os.chdir(root)
                child(case, root, logf, resf)
            finally:
                os._exit(99)
        _, status = os.waitpid(pid, 0)
        code = os.waitstatus_to_exitcode(status)
        trace = open(logf).read().split() if os.path.exists(logf) else []
        # the shim logs "write" twice on a faulty write (prefix then fault): dedupe consecutive
        tr = []
        for s in trace:
            if not tr or tr[-1] != s:
                tr.append(s)
        result = open(resf).read() if os.path.exists(resf) else ("died" if code == 77 else f"crash:{code}")
        info = json.load(open(resf + ".info")) if os.path.exists(resf + ".info") else {}

        def classify(path):
            if not os.path.exists(path):
                return "none", None
            try:
                d = au.load(path, compress=bool(case["compress"]))
            except Exception:
                return f"partial:{os.path.getsize(path)}", None
            if d == NEW and info.get("n") and os.path.getsize(path) != info["n"]:
                return f"partial:{os.path.getsize(path)}", None  # truncated, although the unpickler stops early
            return ("old" if d == OLD else "new" if d == NEW else "other"), d
        dcls, ddata = classify(dest)
        temps = [p for p in os.listdir(os.path.dirname(dest)) if p.startswith("dest.pickle.")] if os.path.isdir(os.path.dirname(dest)) else []
        tcls = "none"
        if temps:
            tcls, _ = classify(os.path.join(os.path.dirname(dest), temps[0]))
        n, k = info.get("n", 0), info.get("k", 0)
        line = f"save run {case['has_old']} {case['has_dir']} {n} {k} " + (
            ",".join(f"{s}:{v}" for s, v in case["faults"].items()) or "-")
        out = f"trace={','.join(tr)} result={result} dest={dcls} temp={tcls}"
        # property oracle (independent of the model)
        fail = None
        want_old = "old" if case["has_old"] else "none"
        if dcls not in (want_old, "new"):
            fail = ("atomic", f"destination is {dcls} after {case}")
        elif result in ("false", "raised") and dcls != want_old:
            fail = ("failure_untouched", f"save reported {result} but destination is {dcls}")
        elif result == "true" and (dcls != "new" or tcls != "none"):
            fail = ("success_installs", f"save returned True but destination={dcls} temp={tcls}")
        elif not case["faults"] and result != "true":
            fail = ("no_fault_succeeds", f"fault-free save returned {result}")
        elif "oserror" in case["faults"].values() and "death" not in case["faults"].values() and result == "true" \
                and any(s in tr for s, v in case["faults"].items() if v == "oserror"):
            fail = ("oserror_reports_failure", f"I/O error injected at {case['faults']} but save returned True")
        return line, out, fail
    finally:
        shutil.rmtree(root, ignore_errors=True)


# ------------------------------------------------------------------ fault injection by call index (any primitive)
MUTATORS = {"replace", "rename", "renames", "remove", "unlink", "makedirs", "mkdir", "rmdir", "link", "symlink",
            "truncate", "open", "write", "close", "move", "copy", "copyfile", "copy2", "rmtree", "fsync"}


def generic_child(k, kind, compress, root, resf, k2=None, kind2=None):
    """real utils.save with a fault at the k-th file-system primitive it calls, whatever that primitive is; optionally a
    second fault at the k2-th call (a fault SEQUENCE within one save: the first one is then an I/O error)"""
    import adaptive.utils as au
    count = {"n": 0, "names": []}

    def hit(name):
        count["names"].append(name)
        for kk, kd in ((k, kind), (k2, kind2)):
            if kk is not None and count["n"] == kk:
                count["n"] += 1
                count["hits"] = count.get("hits", 0) + 1
                with builtins.open(resf + ".names", "w") as f:
                    f.write(",".join(count["names"]))
                with builtins.open(resf + ".hits", "w") as f:
                    f.write(str(count["hits"]))
                if kd == "death":
                    os._exit(77)
                raise OSError(5, f"injected at call {kk} ({name})")
        count["n"] += 1

    class Proxy:
        def __init__(self, real):
            object.__setattr__(self, "_real", real)

        def __getattr__(self, name):
            v = getattr(object.__getattribute__(self, "_real"), name)
            if name == "path":
                return v
            if name in MUTATORS and callable(v):
                def w(*a, **kw):
                    hit(name)
                    return v(*a, **kw)
                return w
            return v

    class FileShim:
        def __init__(self, path, mode):
            hit("open")
            self.f = builtins.open(path, mode, buffering=0)

        def write(self, blob):
            hit("write")
            return self.f.write(blob)

        def __enter__(self):
            return self

        def __exit__(self, *exc):
            self.f.close()
            hit("close")
            return False

    au.os = Proxy(os)
    if hasattr(au, "shutil"):
        au.shutil = Proxy(au.shutil)
    au.open = lambda path, mode="r": FileShim(path, mode) if any(c in mode for c in "wax+") else builtins.open(path, mode)
    try:
        r = au.save(os.path.join(root, "sub", "dest.pickle"), NEW, compress=bool(compress))
        res = "true" if r is True else "false" if r is False else f"other:{r!r}"
    except OSError:
        res = "raised"
    with builtins.open(resf + ".names", "w") as f:
        f.write(",".join(count["names"]))
    with builtins.open(resf, "w") as f:
        f.write(res)
    os._exit(0)


def generic_search(scratch, maxk=12):
    """property oracle under a fault at every call position (independent of the model's list of primitives)"""
    import adaptive.utils as au
    fails, n = [], 0
    for k, kind, has_old, compress in itertools.product(range(maxk), ("oserror", "death"), (0, 1), (0, 1)):
        root = tempfile.mkdtemp(dir=scratch)
        try:
            dest = os.path.join(root, "sub", "dest.pickle")
            if has_old:
                os.makedirs(os.path.dirname(dest))
                assert au.save(dest, OLD, compress=bool(compress))
            resf = os.path.join(root, "result.txt")
            pid = os.fork()
            if pid == 0:
                try:
                    generic_child(k, kind, compress, root, resf)
                finally:
                    os._exit(99)
            _, status = os.waitpid(pid, 0)
            code = os.waitstatus_to_exitcode(status)
            names = open(resf + ".names").read().split(",") if os.path.exists(resf + ".names") else []
            if len(names) <= k:
                continue  # the save made fewer than k+1 primitive calls: no fault was injected
            n += 1
            result = open(resf).read() if os.path.exists(resf) else ("died" if code == 77 else f"crash:{code}")
            if not os.path.exists(dest):
                d = "none"
            else:
                try:
                    data = au.load(dest, compress=bool(compress))
                    d = "old" if data == OLD else "new" if data == NEW else "other"
                except Exception:
                    d = "partial"
            want_old = "old" if has_old else "none"
            where = f"{kind} at call {k} ({names[k]}) of {names}, previous file: {bool(has_old)}, gzip: {bool(compress)}"
            rep = {"generic": True, "k": k, "kind": kind, "has_old": has_old, "compress": compress}
            if d not in (want_old, "new"):
                fails.append(("atomic", f"destination is {d} after {where}", rep))
            elif result in ("false", "raised") and d != want_old:
                fails.append(("failure_untouched", f"save reported {result} but destination is {d} after {where}", rep))
            elif result == "true" and kind == "oserror" and d != "new":
                fails.append(("success_installs", f"save returned True but destination is {d} after {where}", rep))
        finally:
            shutil.rmtree(root, ignore_errors=True)
    # fault sequences within one save: an I/O error at call k1, then a second fault (I/O error or death) at a later call
    for k1, k2, kind2, has_old, compress in itertools.product(range(maxk), range(1, maxk), ("oserror", "death"), (0, 1), (0, 1)):
        if k2 <= k1:
            continue
        root = tempfile.mkdtemp(dir=scratch)
        try:
            dest = os.path.join(root, "sub", "dest.pickle")
            if has_old:
                os.makedirs(os.path.dirname(dest))
                assert au.save(dest, OLD, compress=bool(compress))
            resf = os.path.join(root, "result.txt")
            pid = os.fork()
            if pid == 0:
                try:
                    generic_child(k1, "oserror", compress, root, resf, k2=k2, kind2=kind2)
                finally:
                    os._exit(99)
            _, status = os.waitpid(pid, 0)
            code = os.waitstatus_to_exitcode(status)
            hits = int(open(resf + ".hits").read()) if os.path.exists(resf + ".hits") else 0
            if hits < 2:
                continue  # the save ended before the second fault could strike (covered by the single-fault search)
            n += 1
            names = open(resf + ".names").read().split(",")
            result = open(resf).read() if os.path.exists(resf) else ("died" if code == 77 else f"crash:{code}")
            if not os.path.exists(dest):
                d = "none"
            else:
                try:
                    data = au.load(dest, compress=bool(compress))
                    d = "old" if data == OLD else "new" if data == NEW else "other"
                except Exception:
                    d = "partial"
            want_old = "old" if has_old else "none"
            where = (f"I/O error at call {k1} ({names[k1]}) then {kind2} at call {k2} ({names[k2] if k2 < len(names) else '?'}) of {names}, "
                     f"previous file: {bool(has_old)}, gzip: {bool(compress)}")
            rep = {"generic": True, "k": k1, "kind": "oserror", "k2": k2, "kind2": kind2, "has_old": has_old, "compress": compress}
            if d not in (want_old, "new"):
                fails.append(("atomic", f"destination is {d} after {where}", rep))
            elif result in ("false", "raised") and d != want_old:
                fails.append(("failure_untouched", f"save reported {result} but destination is {d} after {where}", rep))
        finally:
            shutil.rmtree(root, ignore_errors=True)
    return fails, n


def load_oracle(scratch):
    """loading a missing / empty file leaves learners exactly as they were"""
    import adaptive
    fails = []
    root = tempfile.mkdtemp(dir=scratch)
    try:
        for compress in (True, False):
            for mk in (lambda: adaptive.Learner1D(lambda x: x, (-1, 1)),
                       lambda: adaptive.SequenceLearner(lambda x: x, list(range(6))),
                       lambda: adaptive.AverageLearner(lambda seed: seed, atol=0.1, rtol=0.1)):
                l = mk()
                pts, _ = l.ask(3)
                for p in pts[:2]:
                    l.tell(p, 0.5)
                before = (dict(l.data), l.loss(), set(map(repr, l.pending_points)))
                missing = os.path.join(root, "missing.pickle")
                empty = os.path.join(root, "empty.pickle")
                open(empty, "wb").close()
                for name, f in (("missing", missing), ("empty", empty)):
                    try:
                        l.load(f, compress=compress)
                    except Exception as e:
                        fails.append(("load_tolerates", f"load of {name} file raised {e!r} ({type(l).__name__}, compress={compress})"))
                        continue
                    after = (dict(l.data), l.loss(), set(map(repr, l.pending_points)))
                    if after != before:
                        fails.append(("load_noop", f"load of {name} file changed {type(l).__name__}"))
    finally:
        shutil.rmtree(root, ignore_errors=True)
    return fails


def run(ctx):
    proof = core.prove(MODULES, leanchecker=ctx.thorough)
    corr = core.Corr("utils.save~SaveFs.lean")
    core.OUT.mkdir(exist_ok=True)
    scratch = tempfile.mkdtemp(prefix="c14_", dir=core.OUT)
    failures, lines, outs, metas = [], [], [], []
    try:
        cs = cases(ctx)
        for case in cs:
            line, out, fail = run_case(case, scratch)
            lines.append(line)
            outs.append(out)
            metas.append(case)
            for s, v in case["faults"].items():
                corr.count(f"fault:{s}:{v}")
            if not case["faults"]:
                corr.count("fault:none")
            corr.count("result:" + out.split("result=")[1].split()[0])
            if fail:
                failures.append({"clause": fail[0], "signature": f"C14.{fail[0]}", "detail": fail[1], "replay": case})
        for f in load_oracle(scratch):
            failures.append({"clause": f[0], "signature": f"C14.{f[0]}", "detail": f[1], "replay": {"load": True}})
        gf, ngen = generic_search(scratch)
        corr.count("generic_fault_positions", ngen)
        for cl, det, rep in gf[:3]:
            failures.append({"clause": cl, "signature": f"C14.{cl}", "detail": det, "replay": rep})
    finally:
        shutil.rmtree(scratch, ignore_errors=True)
    core.lockstep(corr, [{"lines": [l], "impl": [o], "meta": m} for l, o, m in zip(lines, outs, metas)])
    return core.conclude(
        ctx, proof, [corr], failures, level="proof",
        rule="every primitive of one save x {OSError, process death (real os._exit in a forked child)} plus double "
             "faults (write+close, replace+remove, replace+exists, open+replace, close+remove) x 3 partial-write lengths "
             "x {previous file, none} x {dirname, none} x {gzip, plain}; non-trivial = distinct case with a fault",
        samples=[{"line": l, "impl": o} for l, o in list(zip(lines, outs))[:4]],
        evaluations=len(lines), distinct=len({l for l, m in zip(lines, metas) if m["faults"]}),
        explanation="SaveFs.lean models utils.save as its sequence of file-system primitives with success/OSError/death "
                    "at each; Props/C14.lean proves destination in {old,new} for every fault assignment, result semantics, "
                    "loadability and the missing/empty load no-op; the real save is run under every enumerated fault",
        trusted=core.COMMON_TRUSTED + ["hand-written model lean/AdaptiveModel/SaveFs.lean",
                                       "POSIX rename atomicity (os.replace), writes touch only the temp path, temp path != destination",
                                       "cloudpickle/gzip round trip (decode (encode x) = x)"],
        assumptions=["os.path.exists does not raise", "kernel/file-system crash consistency below rename is not modelled"],
        extra={"exhaustive": True},
    )


def replay(ctx, path):
    d = json.load(open(path))
    case = d.get("replay", d)
    core.OUT.mkdir(exist_ok=True)
    scratch = tempfile.mkdtemp(prefix="c14_", dir=core.OUT)
    if case.get("generic") or case.get("load"):
        try:
            gf, _ = generic_search(scratch)
            lf = load_oracle(scratch)
        finally:
            shutil.rmtree(scratch, ignore_errors=True)
        for f in gf + lf:
            print("FAIL", f[0], f[1])
        return 1 if gf or lf else 0
    try:
        line, out, fail = run_case(case, scratch)
    finally:
        shutil.rmtree(scratch, ignore_errors=True)
    print(line, "\n impl ", out, "\n model", core.run_driver([line])[0], "\n oracle", fail)
    return 1 if fail else 0
