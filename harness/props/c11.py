"""C11 — what a learner knows depends on the set of results, not on how they arrived.

proof:  lean/AdaptiveProofs/Props/C11.lean (SequenceLearner / AverageLearner permutation invariance; Learner1D with exact
        recomputation: the state is a function of the data — see the file for what is proved)
tie:    models tied to the code by the lock-step checks C01/C02 (L1D), C16 (Avg), C17 (Seq)
search: point sets from real runs told one by one in several orders (all permutations for <= 5 points) and in one batch
        (Learner1D: loop path and forced batch path), with and without pending points; losses, losses_combined, loss()
        and ask(n, tell_pending=False) compared
"""
from __future__ import annotations

import itertools
import json
import math
import random
import warnings

import numpy as np

import adaptive
from adaptive.learner import learner1D as l1
from harness import core, learners as L

MODULES = ["AdaptiveProofs.Props.C11"]
LOSSES = {
    "default": lambda: None,
    "uniform": lambda: l1.uniform_loss,
    "triangle": lambda: l1.triangle_loss,
    "curvature": lambda: l1.curvature_loss_function(),
    "resolution": lambda: l1.resolution_loss_function(0.01, 1.0),
    "abs_min_log": lambda: l1.abs_min_log_loss,
}


def fns(name, a, b):
    if name == "smooth":
        return lambda x: math.sin(a * x) + b * x
    if name == "step":
        return lambda x: (1.0 if x > b * 0.5 else -0.5) + 0.1 * x
    if name == "peak":
        return lambda x: x + 0.02 ** 2 / (0.02 ** 2 + (x - b * 0.3) ** 2)
    if name == "vec":
        return lambda x: np.array([math.sin(a * x), 10.0 * x * x, 1.0 if x > 0 else 0.0])
    if name == "logpos":
        return lambda x: 2.0 + math.sin(a * x)
    raise ValueError(name)


def mk(lossn, bounds, f, factor):
    l = adaptive.Learner1D(f, bounds=bounds, loss_per_interval=LOSSES[lossn]())
    l._recompute_losses_factor = factor
    return l


def close(a, b, rtol=1e-9):
    a, b = float(a), float(b)
    return a == b or (math.isnan(a) and math.isnan(b)) or abs(a - b) <= rtol * max(abs(a), abs(b)) + 1e-13


def same_table(da, db):
    if set(da) != set(db):
        return f"keys differ: {sorted(set(da) ^ set(db))[:3]}"
    for k in da:
        if not close(da[k], db[k]):
            return f"loss of {k}: {float(da[k])!r} vs {float(db[k])!r}"
    return None


def compare_l1d(a, b, what):
    d = same_table(dict(a.losses), dict(b.losses))
    if d:
        return ("losses", f"{what}: losses {d}")
    d = same_table(dict(a.losses_combined), dict(b.losses_combined))
    if d:
        return ("losses_combined", f"{what}: losses_combined {d}")
    for real in (True, False):
        if not close(a.loss(real=real), b.loss(real=real)):
            return ("loss", f"{what}: loss(real={real}) {a.loss(real=real)!r} vs {b.loss(real=real)!r}")
    for n in (1, 2, 5):
        pa, pb = sorted(a.ask(n, tell_pending=False)[0]), sorted(b.ask(n, tell_pending=False)[0])
        if len(pa) != len(pb) or any(not close(x, y, 1e-9) for x, y in zip(pa, pb)):
            return ("suggestions", f"{what}: ask({n}) {pa} vs {pb}")
    return None


def l1d_case(arg):
    seed, factor = arg
    warnings.simplefilter("ignore")
    rng = random.Random(seed)
    lossn = rng.choice(list(LOSSES))
    fn = rng.choice(["smooth", "step", "peak", "vec"]) if lossn != "abs_min_log" else "logpos"
    bounds = rng.choice([(-1.0, 1.0), (0.0, 1e-3), (1000.0, 1007.0), (-5e6, 2e6)])
    lo, hi = bounds
    a_, b_ = rng.uniform(0.5, 3), rng.uniform(-1, 1)
    raw = fns(fn, a_, b_)
    f = lambda x: raw(2 * (x - lo) / (hi - lo) - 1)
    # a point set produced by a real run (out-of-order delivery)
    src = mk(lossn, bounds, f, factor)
    npts = rng.choice([2, 3, 4, 5, 5, 8, 13, 20])
    out = []
    while src.npoints < npts:
        out += src.ask(rng.choice([1, 2, 3]))[0]
        rng.shuffle(out)
        for _ in range(rng.randrange(1, len(out) + 1)):
            x = out.pop()
            src.tell(x, f(x))
    src.remove_unfinished()
    if rng.random() < 0.25 and src.data:
        # two evaluated neighbours 1-3 ulp apart, as a run that homes in on a discontinuity produces
        x0 = rng.choice(list(src.data))
        x1 = x0
        for _ in range(rng.choice([1, 2, 3])):
            x1 = math.nextafter(x1, hi if x0 < hi else lo)
        if lo <= x1 <= hi and x1 not in src.data:
            src.tell(x1, f(x1))
    data = list(src.data.items())
    pend = []
    if rng.random() < 0.5 and lo in src.data and hi in src.data:
        pend = [lo + (hi - lo) * rng.random() for _ in range(rng.choice([1, 2, 4]))]
        pend = [p for p in pend if p not in src.data]
    slow = []
    if rng.random() < 0.35 and len(data) >= 4:
        # a slow end point: its result has not arrived, it is PENDING (the property's proviso: both end points known or pending)
        slow = [b for b in rng.choice([[lo], [hi], [lo, hi]]) if b in src.data]
        data = [(x, y) for x, y in data if x not in slow]
        pend = [p for p in pend if p not in slow] + slow
    have = dict(data)
    res = {"seed": seed, "factor": factor, "loss": lossn, "n": len(data), "fail": None, "orders": 0, "pending": len(pend),
           "slow_bounds": len(slow)}

    resumed = rng.random() < 0.3   # a learner resumed after a cancelled run: pending marks, then remove_unfinished

    def build(order, mode, plain=False):
        l = mk(lossn, bounds, f, factor)
        if resumed and not plain and len(order) >= 2:
            for x, y in order[:2]:
                l.tell(x, y)
            for p in (pend or [lo + (hi - lo) * 0.37]) + [b_ for b_ in (lo, hi) if b_ not in dict(order[:2])][:1]:
                l.tell_pending(p)
            l.loss()                            # (a runner's goal looks at the loss while points are outstanding)
            l.ask(1, tell_pending=False)
            l.remove_unfinished()
        if pend and mode == "pend_first":
            for p in pend:
                l.tell_pending(p)
        if mode in ("single", "pend_first"):
            for x, y in order:
                l.tell(x, y)
        elif mode == "pend_first_batch":
            for p in pend:
                l.tell_pending(p)
            l.tell_many([x for x, _ in order], [y for _, y in order])
        elif mode == "batch":
            l.tell_many([x for x, _ in order], [y for _, y in order])
        elif mode == "force":
            l.tell_many([x for x, _ in order], [y for _, y in order], force=True)
        if pend and mode not in ("pend_first", "pend_first_batch"):
            for p in pend:
                l.tell_pending(p)
        return l

    res["resumed"] = resumed
    ref = build(data, "single", plain=True)
    perms = list(itertools.permutations(data)) if len(data) <= 5 else [rng.sample(data, len(data)) for _ in range(6)]
    for perm in perms:
        for mode in ("single", "pend_first"):
            if mode == "pend_first" and not pend:
                continue
            res["orders"] += 1
            f_ = compare_l1d(ref, build(list(perm), mode), f"{len(data)} points, order {'permuted'} ({mode})")
            if f_:
                res["fail"] = f_
                return res
    # batch delivery needs both end points known or pending (fixes the x normalisation)
    if slow and all(b in have or b in pend for b in (lo, hi)):
        res["orders"] += 1
        f_ = compare_l1d(ref, build(rng.sample(data, len(data)), "pend_first_batch"), f"{len(data)} points, one batch after the pending marks (end point(s) {slow} pending)")
        if f_:
            res["fail"] = ("batch_" + f_[0], f_[1])
            return res
    if lo in have and hi in have:
        for mode in ("batch", "force"):
            res["orders"] += 1
            f_ = compare_l1d(ref, build(rng.sample(data, len(data)), mode), f"{len(data)} points, one batch ({mode})")
            if f_:
                res["fail"] = ("batch_" + f_[0], f_[1])
                return res
    return res


def avg_seq_case(seed):
    rng = random.Random(seed)
    fails = None
    # AverageLearner
    vals = {k: rng.gauss(0.3, 2.0) for k in rng.sample(range(40), rng.randrange(2, 12))}
    order = list(vals.items())
    ref = adaptive.AverageLearner(lambda s: s, atol=0.1, rtol=0.2)
    for k, v in order:
        ref.tell(k, v)
    for _ in range(4):
        rng.shuffle(order)
        l = adaptive.AverageLearner(lambda s: s, atol=0.1, rtol=0.2)
        if rng.random() < 0.5:
            l.tell_many([k for k, _ in order], [v for _, v in order])
        else:
            for k, v in order:
                l.tell(k, v)
        if dict(l.data) != dict(ref.data) or l.npoints != ref.npoints:
            return ("avg_data", "AverageLearner data depends on the order")
        if not (close(l.mean, ref.mean) and close(l.std, ref.std, 1e-7) and close(l.loss(), ref.loss(), 1e-7)):
            return ("avg_stats", f"AverageLearner statistics depend on the order: {l.mean!r},{l.std!r} vs {ref.mean!r},{ref.std!r}")
        if sorted(l.ask(3, tell_pending=False)[0]) != sorted(ref.ask(3, tell_pending=False)[0]):
            return ("avg_suggestions", "AverageLearner suggestions depend on the order")
    # SequenceLearner
    n = rng.randrange(2, 12)
    seq = [rng.randrange(100) for _ in range(n)]
    idx = rng.sample(range(n), rng.randrange(1, n + 1))
    vals = {i: rng.randrange(-9, 9) for i in idx}
    ref = adaptive.SequenceLearner(lambda x: x, seq)
    for i in idx:
        ref.tell((i, seq[i]), vals[i])
    for _ in range(4):
        rng.shuffle(idx)
        l = adaptive.SequenceLearner(lambda x: x, seq)
        if rng.random() < 0.5:
            l.tell_many([(i, seq[i]) for i in idx], [vals[i] for i in idx])
        else:
            for i in idx:
                l.tell((i, seq[i]), vals[i])
        if list(l.data.items()) != list(ref.data.items()) or l.loss() != ref.loss() or l.done() != ref.done():
            return ("seq_state", "SequenceLearner state depends on the order")
        if [i for i, _ in l.ask(3, tell_pending=False)[0]] != [i for i, _ in ref.ask(3, tell_pending=False)[0]]:
            return ("seq_suggestions", "SequenceLearner suggestions depend on the order")
    return fails


def run(ctx):
    proof = core.prove(MODULES, extra_targets=["AdaptiveProofs.Examples.L1D"], leanchecker=ctx.thorough)
    n1 = ctx.n(160, 3000)
    args = [(ctx.rng.randrange(1 << 30), 1) for _ in range(n1)] + [(ctx.rng.randrange(1 << 30), 2) for _ in range(n1 // 4)]
    results = core.pmap(l1d_case, args)
    failures, orders, dist = [], 0, {}
    for r in results:
        orders += r["orders"]
        dist[f"factor{r['factor']}:{r['loss']}"] = dist.get(f"factor{r['factor']}:{r['loss']}", 0) + 1
        dist["with_pending"] = dist.get("with_pending", 0) + (1 if r["pending"] else 0)
        dist["with_pending_end_point"] = dist.get("with_pending_end_point", 0) + (1 if r.get("slow_bounds") else 0)
        if r["fail"]:
            cl, det = r["fail"]
            sig = f"C11.l1d_{cl}"
            if r["factor"] != 1:
                sig = "C11.l1d_order_dependence:recompute_factor_gt_1"
            failures.append({"clause": "l1d_" + cl, "signature": sig, "detail": f"[factor {r['factor']}, {r['loss']}] " + det,
                             "replay": {"seed": r["seed"], "factor": r["factor"]}})
    seeds = [ctx.rng.randrange(1 << 30) for _ in range(ctx.n(200, 3000))]
    for sd, f in zip(seeds, core.pmap(avg_seq_case, seeds)):
        if f:
            failures.append({"clause": f[0], "signature": f"C11.{f[0]}", "detail": f[1], "replay": {"avg_seq_seed": sd}})
    return core.conclude(
        ctx, proof, [], failures,
        rule="point sets of 2-20 results produced by real out-of-order Learner1D runs (6 loss functions, scalar/vector outputs, 4 bounds), "
             "re-told in all permutations (<= 5 points) or 6 random orders, with pending points marked before or after, and as one "
             "batch through both tell_many paths (when both end points are known); exact recomputation (factor 1) must agree, the "
             "default factor 2 is checked as well; AverageLearner / SequenceLearner: shuffled single tells and tell_many; "
             "non-trivial = compared (order, mode) pair",
        samples=[list(a) for a in args[:3]],
        evaluations=orders + 8 * len(seeds), distinct=len(results) + len(seeds),
        explanation="losses, losses_combined (keys exactly, values to 1e-9), loss(real) and the sorted ask(1/2/5) suggestions of the "
                    "re-built learner are compared with the learner told in the original order.",
        trusted=core.COMMON_TRUSTED,
        assumptions=["batched delivery only when both domain end points are among the results (the property's proviso)"],
        extra={"distribution": dist},
        partial=["see Props/C11.lean for which parts of the Learner1D statement are proved"],
    )


def replay(ctx, path):
    d = json.load(open(path)).get("replay")
    if "seed" in d:
        r = l1d_case((d["seed"], d["factor"]))
        print(r)
        return 1 if r["fail"] else 0
    f = avg_seq_case(d["avg_seq_seed"])
    print(f)
    return 1 if f else 0
