"""C05 — runners drive a legal history under every completion schedule."""
from harness import runner_common as rc

MODULES = ["AdaptiveProofs.Props.C05"]


def run(ctx):
    return rc.run_check(
        ctx, MODULES, [("c05", rc.oracle_c05)], faults=False, real_async=True,
        explanation="Runner.lean models BaseRunner bookkeeping and both run loops with learner/goal/executor as the "
                    "environment; Props/C05.lean proves legal tells, the in-flight bound and refill, and the clean exit for "
                    "every event list; the real runners are driven by deterministic schedules and compared call by call; "
                    "in addition AsyncRunner runs coroutine functions that need several loop iterations to unwind on a real event "
                    "loop (goal stop and cancellation at any yield): when it has stopped nothing it started is still running")


def replay(ctx, path):
    return rc.replay(ctx, path, [("c05", rc.oracle_c05)])
