"""C20 — Geometric and loss primitives compute what their names say.

translate: harness/translate.py regenerates lean/AdaptiveModel/Gen/{Prims,PrimsRun,Constants}.lean from the repository's
           CURRENT source (python `ast`), first thing in every run.
proof:     lean/AdaptiveProofs/Props/C20.lean — theorems over fields / ordered fields about the GENERATED definitions
           (determinants, circumcentres, in-triangle test, Heron = Gram, volume = |det|/d!, invariances, 1-D losses, linspace).
tie:       every in-scope function of the real code is called on seeded inputs and compared with the generated definition
           evaluated at Float by the driver (`prims call …`): bit-exact where only + - * / and IEEE sqrt are involved,
           <= 4 ulp where libm `hypot` is involved; the generated constants are compared with the live defaults.
search:    exact `fractions.Fraction` re-computation of the mathematical meaning (Laplace determinant, circumcentre by
           exact linear solve, exact barycentric coordinates, Gram-determinant volumes) against what the real functions
           return, dims 1-5, including the numpy-based general-dimension branches and the loss functions (oracle only).
Functions that raise for every input under the installed NumPy/SciPy are listed in the evidence as environmental.
"""
from __future__ import annotations

import hashlib
import itertools
import json
import math
import random
import traceback
import warnings
from fractions import Fraction as Fr

import numpy as np

from harness import core, translate
from harness.core import f2b

MODULES = ["AdaptiveProofs.Props.C20", "AdaptiveProofs.Lemmas.Choose", "AdaptiveProofs.Props.C20More"]
REL = 1e-9          # the property's tolerance ("to rounding")
BAND = 1e-6         # guard band around the thresholds of the tolerance-guarded predicates

# functions known to raise for EVERY input under the installed NumPy 2.5 / SciPy 1.18 (DESIGN.md section 7, F8):
# reported as environmental.  Any OTHER function that raises for every input is a violation.
# Functions that raised for EVERY input under the installed NumPy 2.5 / SciPy 1.18 when this check was first built
# (learner2D.choose_point_in_triangle, deviations, default_loss, resolution/thresholded loss, float(learnerND.std_loss)).
# They were repaired in /repo (fix: 6bbcd68, 96c1a46, 21a0c15), so nothing is whitelisted any more: a function that raises
# for every valid input is reported as `always_raises`.
KNOWN_ENV = {}


def mods():
    from adaptive.learner import learner1D, learner2D, learnerND, triangulation
    return triangulation, learner1D, learnerND, learner2D


# ------------------------------------------------------------------------------------------ input generators
def dyadic(rng, span=8, maxpow=4):
    m = rng.randint(0, maxpow)
    return rng.randint(-span * (1 << m), span * (1 << m)) / (1 << m)


def coord_gen(rng):
    """a coordinate generator for one case: small dyadic rationals (mostly), the same scaled by a power of two,
    or generic doubles (exercise the rounding order in the bit-level comparison)"""
    r = rng.random()
    if r < 0.6:
        return "dyadic", lambda: dyadic(rng)
    if r < 0.8:
        k = rng.randint(-20, 20)
        return "dyadic*2^k", lambda: dyadic(rng) * 2.0 ** k
    return "generic", lambda: rng.uniform(-4, 4)


def fdet(M):
    """exact determinant by Laplace expansion along the first row"""
    n = len(M)
    if n == 1:
        return M[0][0]
    if n == 2:
        return M[0][0] * M[1][1] - M[0][1] * M[1][0]
    tot = Fr(0)
    for j in range(n):
        if M[0][j] != 0:
            minor = [row[:j] + row[j + 1:] for row in M[1:]]
            tot += (-1) ** j * M[0][j] * fdet(minor)
    return tot


def fsolve(A, b):
    """exact solution of A x = b (Gaussian elimination over Fractions); None if singular"""
    n = len(A)
    M = [list(map(Fr, A[i])) + [Fr(b[i])] for i in range(n)]
    for c in range(n):
        p = next((r for r in range(c, n) if M[r][c] != 0), None)
        if p is None:
            return None
        M[c], M[p] = M[p], M[c]
        for r in range(n):
            if r != c and M[r][c] != 0:
                f = M[r][c] / M[c][c]
                M[r] = [a - f * b_ for a, b_ in zip(M[r], M[c])]
    return [M[i][n] / M[i][i] for i in range(n)]


def FR(pts):
    return [[Fr(float(c)) for c in p] for p in pts]


def edges(P):
    """rows p_i - p_last (as the code) of exact points"""
    return [[a - b for a, b in zip(p, P[-1])] for p in P[:-1]]


def well_conditioned(P, thresh=1e-3):
    """|det of the edge vectors| >= thresh * product of the edge max-norms (non-degenerate input)"""
    E = edges(P)
    d = abs(fdet(E))
    prod = Fr(1)
    for e in E:
        prod *= max(abs(c) for c in e) or Fr(1)
    return d > 0 and d >= Fr(thresh) * prod


def gen_simplex(rng, d, gen, tries=50, n=None):
    n = n or d + 1
    for _ in range(tries):
        pts = [tuple(gen() for _ in range(d)) for _ in range(n)]
        if n != d + 1 or well_conditioned(FR(pts)):
            return pts
    return None


def gram_vol_sq(P):
    """exact squared k-volume of the simplex with exact vertices P (k = len(P) - 1, any embedding dimension)"""
    k = len(P) - 1
    E = [[a - b for a, b in zip(p, P[0])] for p in P[1:]]
    G = [[sum(a * b for a, b in zip(u, v)) for v in E] for u in E]
    return fdet(G) / Fr(math.factorial(k)) ** 2 if k else Fr(1)


def close(got, exact, rel=REL, scale=None):
    """|got - exact| <= rel * max(|exact|, scale)"""
    g = Fr(float(got))
    ref = max(abs(exact), Fr(scale) if scale is not None else 0)
    return abs(g - exact) <= Fr(rel) * ref


def close_sq(got, exact_sq, rel=REL):
    """got >= 0 and got^2 = exact_sq to relative 2*rel"""
    g = Fr(float(got))
    return g >= 0 and abs(g * g - exact_sq) <= 2 * Fr(rel) * abs(exact_sq)


def fl(x):
    return float(x)


# ------------------------------------------------------------------------------------------ lock-step cases
def bits(vals):
    return ",".join("#" + str(f2b(float(v))) for v in vals)


def flat(r):
    if isinstance(r, (bool, np.bool_)):
        return [1.0 if r else 0.0]
    if isinstance(r, (tuple, list, np.ndarray)):
        return [y for x in r for y in flat(x)]
    return [float(r)]


def corr_case(seed):
    """one sample of every generated (non-radicand) definition: protocol lines + what the real functions return.
    impl line = `<max ulp>|<bits>`; radicand definitions are tied to the full ones by `rfl` theorems in Props/C20.lean"""
    warnings.simplefilter("ignore")
    T, L1, LN, L2 = mods()
    rng = random.Random(seed)
    kind, g = coord_gen(rng)
    lines, impl = [], []

    def add(name, args, nats, thunk, ulp):
        a = ",".join(str(f2b(float(x))) for x in args) or "-"
        lines.append(f"prims call {name} {a}" + (f" {','.join(map(str, nats))}" if nats else ""))
        try:
            impl.append(f"{ulp}|{bits(flat(thunk()))}")
        except Exception as e:      # the real function raised on a non-degenerate input: shown as a disagreement
            impl.append(f"{ulp}|raised {type(e).__name__}: {str(e)[:120]}")

    v2, v3 = [g() for _ in range(2)], [g() for _ in range(3)]
    add("fast_norm2", v2, [], lambda: T.fast_norm(tuple(v2)), 0)
    add("fast_norm3", v3, [], lambda: T.fast_norm(tuple(v3)), 0)
    tri = gen_simplex(rng, 2, g) or [(0.0, 0.0), (1.0, 0.0), (0.0, 1.0)]
    tet = gen_simplex(rng, 3, g) or [(0.0, 0.0, 0.0), (1.0, 0.0, 0.0), (0.0, 1.0, 0.0), (0.0, 0.0, 1.0)]
    ftri, ftet = [c for p in tri for c in p], [c for p in tet for c in p]
    # a query point: barycentric combination (inside / outside / close to an edge) or anywhere
    if rng.random() < 0.7:
        al = [rng.choice([-0.25, 0.0, 0.125, 0.25, 0.5, 1.0, 1e-9, -1e-9, 1e-7, -1e-7]) for _ in range(2)]
        pt = tuple(tri[0][k] + al[0] * (tri[1][k] - tri[0][k]) + al[1] * (tri[2][k] - tri[0][k]) for k in range(2))
    else:
        pt = (g(), g())
    eps = rng.choice([1e-8, 1e-8, 0.0, 1e-3])
    add("fast_2d_point_in_simplex", list(pt) + ftri + [eps], [], lambda: T.fast_2d_point_in_simplex(pt, tri, eps), 0)
    add("point_in_simplex2", list(pt) + ftri + [eps], [], lambda: T.point_in_simplex(pt, tri, eps), 0)
    add("fast_2d_circumcircle", ftri, [], lambda: T.fast_2d_circumcircle(tri), 0)
    add("circumsphere2", ftri, [], lambda: T.circumsphere(tri), 0)
    add("fast_3d_circumcircle", ftet, [], lambda: T.fast_3d_circumcircle(tet), 0)
    add("circumsphere3", ftet, [], lambda: T.circumsphere(tet), 0)
    m2, m3 = [g() for _ in range(4)], [g() for _ in range(9)]
    add("fast_det2", m2, [], lambda: T.fast_det([m2[:2], m2[2:]]), 0)
    add("fast_det3", m3, [], lambda: T.fast_det([m3[:3], m3[3:6], m3[6:]]), 0)
    add("simplex_volume_heron", ftri, [], lambda: T.simplex_volume_in_embedding(tri), 0)
    xs, ys = sorted([g(), g()]), [g(), g()]
    add("l1d_uniform_loss", xs + ys, [], lambda: L1.uniform_loss(tuple(xs), tuple(ys)), 0)
    add("l1d_default_loss", xs + ys, [], lambda: L1.default_loss(tuple(xs), tuple(ys)), 4)     # libm hypot
    yv2 = [[g(), g()], [g(), g()]]
    yv3 = [[g(), g(), g()], [g(), g(), g()]]
    add("l1d_default_loss_vec2", xs + yv2[0] + yv2[1], [], lambda: L1.default_loss(tuple(xs), (np.array(yv2[0]), np.array(yv2[1]))), 4)
    add("l1d_default_loss_vec3", xs + yv3[0] + yv3[1], [], lambda: L1.default_loss(tuple(xs), (np.array(yv3[0]), np.array(yv3[1]))), 4)
    x4 = sorted({g() for _ in range(4)})
    while len(x4) < 4:
        x4 = sorted(set(x4) | {g()})
    for _ in range(50):       # both point triples non-collinear (a collinear triple is degenerate input: Heron's radicand
        y4 = [g() for _ in range(4)]     # can round below zero and the real function then raises "math domain error")
        if all(well_conditioned(FR([(x4[i], y4[i]), (x4[i + 1], y4[i + 1]), (x4[i + 2], y4[i + 2])]), 1e-3) for i in (0, 1)):
            break
    else:
        x4, y4 = [0.0, 1.0, 2.0, 3.0], [0.0, 1.0, 0.0, 1.0]
    add("l1d_triangle_loss4", x4 + y4, [], lambda: L1.triangle_loss(tuple(x4), tuple(y4)), 0)
    add("l1d_triangle_loss3l", x4[1:] + y4[1:], [], lambda: L1.triangle_loss((None, *x4[1:]), (None, *y4[1:])), 0)
    add("l1d_triangle_loss3r", x4[:3] + y4[:3], [], lambda: L1.triangle_loss((*x4[:3], None), (*y4[:3], None)), 0)
    add("l1d_triangle_loss2", x4[1:3] + y4[1:3], [], lambda: L1.triangle_loss((None, x4[1], x4[2], None), (None, y4[1], y4[2], None)), 0)
    add("l1d_triangle_loss4_vec1", x4 + y4, [], lambda: L1.triangle_loss(tuple(x4), tuple(np.array([y]) for y in y4)), 0)
    n = rng.choice([1, 2, 2, 3, 4, 5, 7, 10, 17])
    add("l1d_linspace", xs, [n], lambda: L1.linspace(xs[0], xs[1], n), 0)
    add("nd_volume2", ftri, [], lambda: LN.volume(tri), 0)
    add("nd_volume3", ftet, [], lambda: LN.volume(tet), 0)
    vals3, vals4, sc = [g() for _ in range(3)], [g() for _ in range(4)], g()
    add("nd_uniform_loss2", ftri + vals3 + [sc], [], lambda: LN.uniform_loss(tri, vals3, sc), 0)
    add("nd_uniform_loss3", ftet + vals4 + [sc], [], lambda: LN.uniform_loss(tet, vals4, sc), 0)
    return {"lines": lines, "impl": impl, "meta": {"seed": seed, "kind": kind}}


def const_case():
    """generated constants vs the live values they were read from"""
    warnings.simplefilter("ignore")
    lines, impl = [], []
    try:
        consts = translate.collect_constants()
    except translate.TranslateError:
        consts = []      # already reported as a broken proof obligation by run()
    for name, v, prov in consts:
        lines.append(f"prims const {name}")
        impl.append(f"0|#{f2b(float(v))}")
    return {"lines": lines, "impl": impl, "meta": {"kind": "constants"}}


def _ord(b):
    b = int(b)
    return b if b < (1 << 63) else (1 << 63) - b


def choose_case(seed):
    """learnerND.choose_point_in_simplex for triangles against the hand model AdaptiveModel/Choose.lean (which composes the
    GENERATED circumsphere2 / point_in_simplex2), bit for bit"""
    warnings.simplefilter("ignore")
    from harness import choose_corr
    lines, impl, stats = choose_corr.harness_case(seed)
    return {"lines": lines, "impl": impl, "meta": {"kind": "choose2", "seed": seed, "stats": stats}}


def prims2_case(seed):
    """the hand models of AdaptiveModel/Prims2.lean (Learner2D area / uniform / surface loss / choose_point_in_triangle, 1-D resolution
    and curvature losses, LearnerND default_loss on a 2-D domain incl. numpy's LU determinant, Triangulation.orientation) against
    the real functions: bit for bit, or within the measured ulp bound where libm / BLAS paths differ"""
    warnings.simplefilter("ignore")
    from harness import prims2_corr
    lines, impl, stats = prims2_corr.harness_case(seed)
    return {"lines": lines, "impl": impl, "meta": {"kind": "prims2", "seed": seed, "stats": stats}}


def cm_tolerance(simplices, wants):
    """absolute tolerance for volumes computed through the Cayley-Menger determinant (simplex_volume_in_embedding): the rounding
    error of vol^2 is absolute on the scale L^(2k) of the point set (L = longest edge, k = number of vertices - 1), so the error of
    vol is about eps * K * L^(2k) / (2 vol): relative 1e-8 for well-shaped simplices, proportionally more for thin ones"""
    tol = 0.0
    for q, w in zip(simplices, wants):
        pts = [[float(c) for c in v] for v in q]
        L = max((math.dist(a, b) for i, a in enumerate(pts) for b in pts[i + 1:]), default=0.0)
        k = len(pts) - 1
        tol = max(tol, 1e-13 * L ** (2 * k) / max(w, 1e-300))
    return tol


def cmp_bits(a, b):
    """impl `<ulp>|#..,#..` against model `#..,#..`: bit-exact, or within <ulp> units in the last place"""
    ulp, _, av = a.partition("|")
    if av == b:
        return "eq"
    xa, xb = av.split(","), b.split(",")
    if len(xa) != len(xb) or not all(t.startswith("#") for t in xa + xb):
        return "ne"
    drift = False
    for s, t in zip(xa, xb):
        if s == t:
            continue
        fa, fb = core.b2f(int(s[1:])), core.b2f(int(t[1:]))
        if fa != fa and fb != fb:
            continue
        if fa != fa or fb != fb or abs(_ord(s[1:]) - _ord(t[1:])) > int(ulp):
            return "ne"
        drift = True
    return "drift" if drift else "eq"


# ------------------------------------------------------------------------------------------ oracle machinery
class Rec:
    """collects, per real function, calls / raises / property failures of one oracle item"""

    def __init__(self, oracle, seed):
        self.oracle, self.seed, self.rows, self.tags = oracle, seed, [], []

    def call(self, fn, f, *a, **k):
        try:
            with warnings.catch_warnings():
                warnings.simplefilter("ignore")
                r = f(*a, **k)
            self.rows.append({"fn": fn, "raised": None})
            return True, r
        except Exception as e:
            tb = traceback.extract_tb(e.__traceback__)
            inner = tb[-1]
            self.rows.append({"fn": fn, "raised": type(e).__name__, "msg": str(e)[:200],
                              "where": f"{inner.filename.split('site-packages/')[-1].replace('/repo/', '')}:{inner.name}"})
            return False, None

    def check(self, fn, clause, ok, detail):
        if not ok:
            self.rows.append({"fn": fn, "fail": clause, "detail": detail})

    def tag(self, t):
        self.tags.append(t)

    def out(self):
        return {"oracle": self.oracle, "seed": self.seed, "rows": self.rows, "tags": self.tags}


def o_det(R, rng, g):
    T, L1, LN, L2 = mods()
    n = rng.choice([1, 2, 2, 3, 3, 4, 5])
    for _ in range(30):
        M = [[g() for _ in range(n)] for _ in range(n)]
        P = FR(M) + [[Fr(0)] * n]
        if well_conditioned(P, 1e-4):
            break
    else:
        return
    R.tag(f"fast_det n={n}" + (" (numpy)" if n not in (2, 3) else ""))
    ok, got = R.call("triangulation.fast_det", T.fast_det, M)
    if ok:
        ex = fdet(FR(M))
        R.check("triangulation.fast_det", f"fast_det_{'closed' if n in (2, 3) else 'general'}", close(got, ex),
                f"fast_det({M}) = {float(got)!r}, exact determinant {fl(ex)!r}")
        # relabelling / homogeneity on the real code
        if n >= 2:
            M2 = [M[1], M[0]] + M[2:]
            ok2, got2 = R.call("triangulation.fast_det", T.fast_det, M2)
            if ok2:
                R.check("triangulation.fast_det", "fast_det_row_swap", close(got2, -ex),
                        f"fast_det with rows 0,1 exchanged = {float(got2)!r}, expected {fl(-ex)!r}")


def o_det_int(R, rng, g):
    """the determinant shortcut on integer-typed matrices (python ints, numpy integer arrays, integer vertex coordinates) with
    large entries: the products must not wrap around in an integer dtype"""
    T, L1, LN, L2 = mods()
    n = rng.choice([2, 2, 3, 3, 4])
    mag = rng.choice([3, 20, 33, 40])
    for _ in range(30):
        M = [[rng.randrange(-(1 << mag), 1 << mag) for _ in range(n)] for _ in range(n)]
        P = [[Fr(x) for x in row] for row in M]
        if well_conditioned([[x / Fr(1 << mag) for x in row] for row in P] + [[Fr(0)] * n], 1e-3):
            break
    else:
        return
    ex = fdet(P)
    kind = rng.choice(["python ints", "numpy int64"])
    arg = M if kind == "python ints" else np.array(M, dtype=np.int64)
    R.tag(f"fast_det n={n} integer entries ~2^{mag} ({kind})")
    ok, got = R.call("triangulation.fast_det", T.fast_det, arg)
    if ok:
        R.check("triangulation.fast_det", "fast_det_integer_input", close(got, ex),
                f"fast_det({kind} {M}) = {float(got)!r}, exact determinant {fl(ex)!r}")


def o_norm(R, rng, g):
    T, *_ = mods()
    n = rng.choice([1, 2, 2, 3, 3, 4, 5])
    v = [g() for _ in range(n)]
    if not any(v):
        return
    R.tag(f"fast_norm n={n}")
    ok, got = R.call("triangulation.fast_norm", T.fast_norm, tuple(v) if n in (2, 3) else np.array(v))
    if ok:
        ex = sum(Fr(x) ** 2 for x in v)
        R.check("triangulation.fast_norm", "fast_norm", close_sq(got, ex), f"fast_norm({v}) = {float(got)!r}, exact square {fl(ex)!r}")


def exact_circumcentre(P):
    p0 = P[0]
    A = [[2 * (a - b) for a, b in zip(p, p0)] for p in P[1:]]
    rhs = [sum((a - b) ** 2 for a, b in zip(p, p0)) for p in P[1:]]
    c = fsolve(A, rhs)
    if c is None:
        return None, None
    centre = [a + b for a, b in zip(c, p0)]
    return centre, sum(x * x for x in c)


def o_circumsphere(R, rng, g):
    T, *_ = mods()
    d = rng.choice([2, 2, 3, 3, 4, 5])
    pts = gen_simplex(rng, d, g)
    if pts is None:
        return
    P = FR(pts)
    centre, r2 = exact_circumcentre(P)
    R.tag(f"circumsphere dim={d}" + (" (numpy)" if d > 3 else ""))
    fns = [("triangulation.circumsphere", T.circumsphere)]
    if d == 2:
        fns.append(("triangulation.fast_2d_circumcircle", T.fast_2d_circumcircle))
    if d == 3:
        fns.append(("triangulation.fast_3d_circumcircle", T.fast_3d_circumcircle))
    for name, f in fns:
        ok, got = R.call(name, f, pts if d <= 3 else np.array(pts))
        if not ok:
            continue
        c, rad = got
        scale = max([abs(x) for x in centre] + [1]) if False else None
        rr = Fr(math.sqrt(float(r2))) if r2 > 0 else Fr(1)
        good = all(abs(Fr(float(ci)) - ei) <= Fr(REL) * max(rr, abs(ei)) for ci, ei in zip(c, centre))
        R.check(name, "circumcentre", good,
                f"{name}({pts}): centre {tuple(map(float, c))}, exact {tuple(map(fl, centre))}")
        R.check(name, "circumradius", close_sq(rad, r2),
                f"{name}({pts}): radius {float(rad)!r}, exact squared radius {fl(r2)!r}")
        cf = [Fr(float(x)) for x in c]
        ds = [sum((a - b) ** 2 for a, b in zip(cf, p)) for p in P]
        R.check(name, "circumcentre_equidistant", max(ds) - min(ds) <= Fr(1e-8) * r2,
                f"{name}({pts}): squared distances from the returned centre to the vertices {list(map(fl, ds))}")
    # relabelling on the real code
    perm = pts[:]
    rng.shuffle(perm)
    ok, got = R.call("triangulation.circumsphere", T.circumsphere, perm if d <= 3 else np.array(perm))
    if ok:
        rr = Fr(math.sqrt(float(r2)))
        good = all(abs(Fr(float(ci)) - ei) <= Fr(REL) * max(rr, abs(ei)) for ci, ei in zip(got[0], centre)) and close_sq(got[1], r2)
        R.check("triangulation.circumsphere", "circumsphere_relabel", good, f"circumsphere of permuted vertices {perm} = {got}")


def o_point_in_simplex(R, rng, g):
    T, *_ = mods()
    d = rng.choice([2, 2, 2, 3, 4, 5])
    pts = gen_simplex(rng, d, g)
    if pts is None:
        return
    eps = rng.choice([1e-8, 1e-8, 1e-8, 1e-3, 1e-5])
    r = rng.random()
    if r < 0.75:      # barycentric construction: inside, outside, near a face (both sides, outside the guard band or inside it)
        al = [rng.choice([-0.5, -0.01, -1e-4, 0.0, 1e-4, 0.01, 0.1, 0.2, 0.3, 0.5, 0.9, 1.0, 1.2]) for _ in range(d)]
        if rng.random() < 0.5:   # a point of the simplex: rescale to sum <= 1
            al = [abs(a) for a in al]
            s = sum(al) or 1.0
            k = rng.choice([0.5, 0.9, 0.999, 1.0, 1.001, 1.1])
            al = [a / s * k for a in al]
        p = tuple(pts[0][k] + sum(al[i] * (pts[i + 1][k] - pts[0][k]) for i in range(d)) for k in range(d))
    else:
        p = tuple(g() for _ in range(d))
    P = FR(pts)
    A = [[P[i + 1][k] - P[0][k] for i in range(d)] for k in range(d)]
    alpha = fsolve(A, [Fr(float(p[k])) - P[0][k] for k in range(d)])
    if alpha is None:
        return
    a0 = 1 - sum(alpha)
    margins = [a + Fr(eps) for a in alpha] + [a0 + Fr(eps)]
    in_band = any(abs(m) < Fr(BAND) for m in margins)
    R.tag(f"point_in_simplex dim={d}" + (" (numpy)" if d > 2 else "") + (" [guard band]" if in_band else ""))
    fns = [("triangulation.point_in_simplex", T.point_in_simplex)]
    if d == 2:
        fns.append(("triangulation.fast_2d_point_in_simplex", T.fast_2d_point_in_simplex))
    # with the default tolerance every point of the closed simplex (exact coordinates >= 0) must be accepted:
    # that is what the tolerance is for (checked inside the guard band too, one-sided)
    if all(a >= 0 for a in alpha) and a0 >= 0:
        for name, f in fns:
            ok, got = R.call(name, f, p if d == 2 else np.array(p), pts)
            if ok:
                R.check(name, "point_in_simplex_closed", bool(got),
                        f"{name}({p}, {pts}) with the default tolerance = {bool(got)} although the exact barycentric "
                        f"coordinates {[fl(a0)] + list(map(fl, alpha))} are all >= 0")
    for name, f in fns:
        ok, got = R.call(name, f, p if d == 2 else np.array(p), pts, eps)
        if ok and not in_band:
            want = all(m > 0 for m in margins)
            R.check(name, "point_in_simplex", bool(got) == want,
                    f"{name}({p}, {pts}, eps={eps}) = {bool(got)}, exact barycentric coordinates "
                    f"{[fl(a0)] + list(map(fl, alpha))} -> expected {want}")


def o_orientation(R, rng, g):
    T, L1, LN, L2 = mods()
    d = rng.choice([2, 2, 3, 3, 4, 5])
    pts = gen_simplex(rng, d, g)
    if pts is None:
        return
    face, origin = pts[:-1], pts[-1]
    ex = fdet(edges(FR(pts)))
    want = 1 if ex > 0 else -1
    R.tag(f"orientation dim={d}")
    if abs(ex) > Fr(math.exp(-40)):
        ok, got = R.call("triangulation.orientation", T.orientation, face, origin)
        if ok:
            R.check("triangulation.orientation", "orientation_sign", float(got) == want,
                    f"orientation({face}, {origin}) = {float(got)}, exact determinant {fl(ex)!r}")
        ok, got = R.call("learnerND.orientation", LN.orientation, pts)
        if ok:
            R.check("learnerND.orientation", "orientation_sign", float(got) == want,
                    f"learnerND.orientation({pts}) = {float(got)}, exact determinant {fl(ex)!r}")
        f2 = [face[1], face[0]] + list(face[2:]) if d >= 2 else face
        ok, got = R.call("triangulation.orientation", T.orientation, f2, origin)
        if ok:
            R.check("triangulation.orientation", "orientation_swap", float(got) == -want,
                    f"orientation with two face points exchanged = {float(got)}, expected {-want}")


def o_volume_embedding(R, rng, g):
    T, *_ = mods()
    m, D = rng.choice([(3, 2), (3, 2), (2, 3), (3, 3), (3, 4), (3, 5), (4, 3), (4, 4), (4, 5), (5, 4), (5, 5), (2, 4), (6, 5)])
    k = m - 1
    for _ in range(40):
        pts = [tuple(g() for _ in range(D)) for _ in range(m)]
        P = FR(pts)
        v2 = gram_vol_sq(P)
        prod = Fr(1)
        for p in P[1:]:
            prod *= sum((a - b) ** 2 for a, b in zip(p, P[0])) or Fr(1)
        if v2 > 0 and v2 * Fr(math.factorial(k)) ** 2 >= Fr(1e-4) * prod:
            break
    else:
        return
    R.tag(f"simplex_volume_in_embedding {k}-simplex in dim {D}" + (" (Heron)" if D == 2 else " (Cayley-Menger, numpy)"))
    ok, got = R.call("triangulation.simplex_volume_in_embedding", T.simplex_volume_in_embedding, pts)
    if ok:
        R.check("triangulation.simplex_volume_in_embedding", "volume_in_embedding", close_sq(got, v2),
                f"simplex_volume_in_embedding({pts}) = {float(got)!r}, exact squared volume (Gram determinant) {fl(v2)!r}")
    perm = pts[:]
    rng.shuffle(perm)
    ok, got = R.call("triangulation.simplex_volume_in_embedding", T.simplex_volume_in_embedding, perm)
    if ok:
        R.check("triangulation.simplex_volume_in_embedding", "volume_in_embedding_relabel", close_sq(got, v2),
                f"simplex_volume_in_embedding of permuted vertices {perm} = {float(got)!r}, exact squared volume {fl(v2)!r}")


def o_nd_volume(R, rng, g):
    T, L1, LN, L2 = mods()
    d = rng.choice([1, 2, 2, 3, 3, 4, 5])
    pts = gen_simplex(rng, d, g)
    if pts is None:
        return
    ex = abs(fdet(edges(FR(pts)))) / math.factorial(d)
    R.tag(f"learnerND.volume dim={d}")
    ok, got = R.call("learnerND.volume", LN.volume, pts)
    if ok:
        R.check("learnerND.volume", "nd_volume", close(got, ex), f"volume({pts}) = {float(got)!r}, exact |det|/d! = {fl(ex)!r}")
    ok, got = R.call("learnerND.uniform_loss", LN.uniform_loss, pts, [0.0] * (d + 1), 1.0)
    if ok:
        R.check("learnerND.uniform_loss", "nd_uniform_loss", close(got, ex), f"uniform_loss({pts}) = {float(got)!r}, exact volume {fl(ex)!r}")
    # homogeneity: scaling by a power of two is exact in binary floating point
    k = rng.choice([-3, -1, 1, 2, 5])
    sp = [tuple(c * 2.0 ** k for c in p) for p in pts]
    ok, got = R.call("learnerND.volume", LN.volume, sp)
    if ok:
        R.check("learnerND.volume", "nd_volume_homogeneous", close(got, ex * Fr(2) ** (k * d)),
                f"volume(2^{k} * simplex) = {float(got)!r}, expected 2^({k}*{d}) * {fl(ex)!r}")
    # translation by a dyadic vector
    t = [dyadic(rng) for _ in range(d)]
    tp = [tuple(c + s for c, s in zip(p, t)) for p in pts]
    ex_t = abs(fdet(edges(FR(tp)))) / math.factorial(d)
    ok, got = R.call("learnerND.volume", LN.volume, tp)
    if ok:
        R.check("learnerND.volume", "nd_volume_translate", close(got, ex_t), f"volume(simplex + {t}) = {float(got)!r}, exact {fl(ex_t)!r}")


def o_nd_losses(R, rng, g):
    T, L1, LN, L2 = mods()
    d = rng.choice([2, 2, 3, 4])
    pts = gen_simplex(rng, d, g)
    if pts is None:
        return
    vd = rng.choice([0, 0, 1, 2, 3])       # 0 = scalar values
    mkv = (lambda: g()) if vd == 0 else (lambda: tuple(g() for _ in range(vd)))
    vals = [mkv() for _ in range(d + 1)]
    aug = [tuple(p) + (tuple(v) if vd else (v,)) for p, v in zip(pts, vals)]
    vol = abs(fdet(edges(FR(pts)))) / math.factorial(d)
    R.tag(f"learnerND losses dim={d} values={'scalar' if vd == 0 else f'{vd}-vector'}")
    v2 = gram_vol_sq(FR(aug))
    ok, got = R.call("learnerND.default_loss", LN.default_loss, pts, vals, 1.0) if v2 > 0 else (False, None)
    if ok and v2 > 0:
        R.check("learnerND.default_loss", "nd_default_loss", close_sq(got, v2),
                f"default_loss({pts}, {vals}) = {float(got)!r}, exact squared volume of the lifted simplex {fl(v2)!r}")
    # std_loss
    ok, got = R.call("learnerND.std_loss", LN.std_loss, pts, vals, 1.0)
    if ok:
        arr = np.asarray(vals, dtype=float).reshape(d + 1, -1)
        var = [sum((Fr(x) - sum(map(Fr, col)) / (d + 1)) ** 2 for x in col) / (d + 1) for col in arr.T.tolist()]
        r = math.sqrt(float(sum(var)))
        want = r * float(vol) ** (1.0 / d) + float(vol)
        g0 = np.asarray(got, dtype=float).ravel()
        R.check("learnerND.std_loss", "nd_std_loss", g0.size == 1 and abs(g0[0] - want) <= 1e-9 * max(abs(want), 1e-300),
                f"std_loss({pts}, {vals}) = {got!r}, expected |std| * vol^(1/d) + vol = {want!r}")
        R.call("float(learnerND.std_loss)", float, got)
    # neighbours: one point beyond each face (some missing)
    nb, nbv = [], []
    for i in range(d + 1):
        if rng.random() < 0.3:
            nb.append(None)
            nbv.append(None)
        else:
            nb.append(tuple(g() for _ in range(d)))
            nbv.append(mkv())
    present = [(n, v) for n, v in zip(nb, nbv) if n is not None]
    tl = None
    qs = []
    if present:
        vols, good = [], True
        for n_, v_ in present:
            q = FR(aug + [tuple(n_) + (tuple(v_) if vd else (v_,))])
            if len(q) - 1 > len(q[0]):
                good = False
                break
            vols.append(gram_vol_sq(q))
            qs.append(q)
        if good and all(v >= 0 for v in vols):
            tl = sum(math.sqrt(float(v)) for v in vols) / len(present)
    else:
        tl = 0.0
    nondeg = tl is not None and (not present or all(v > Fr(1e-9) for v in vols))
    ok, got = R.call("learnerND.triangle_loss", LN.triangle_loss, pts, vals, 1.0, nb, nbv) if nondeg else (False, None)
    if ok and tl is not None and (tl > 1e-3 or not present):
        R.check("learnerND.triangle_loss", "nd_triangle_loss",
                abs(float(got) - tl) <= 1e-8 * max(tl, 1e-300) + cm_tolerance(qs, [math.sqrt(float(v)) for v in vols]) if present else float(got) == 0,
                f"triangle_loss = {float(got)!r}, mean exact volume of the simplices spanned with each neighbour {tl!r}")
    expl = rng.choice([0.05, 0.05, 0.5, 0.0])
    ok, got = R.call("learnerND.curvature_loss_function()", lambda: LN.curvature_loss_function(expl)(pts, vals, 1.0, nb, nbv)) if nondeg else (False, None)
    if ok and tl is not None and (tl > 1e-3 or not present):
        want = (tl + expl * float(vol) ** ((2 + d) / d)) ** (1 / (2 + d))
        R.check("learnerND.curvature_loss_function()", "nd_curvature_loss", abs(float(got) - want) <= 1e-8 * abs(want),
                f"curvature_loss(exploration={expl}) = {float(got)!r}, expected (triangle + e*vol^((2+d)/d))^(1/(2+d)) = {want!r}")


def o_choose_point(R, rng, g):
    T, L1, LN, L2 = mods()
    d = rng.choice([2, 2, 3, 4])
    pts = gen_simplex(rng, d, g)
    if pts is None:
        return
    # the axis scaling LearnerND applies (transform): niceness and the longest edge are judged in the scaled frame, the point
    # is returned in the original one
    diag = None
    if rng.random() < 0.5:
        diag = [rng.choice([1.0, 0.01, 0.125, 0.5, 4.0, 10.0, 64.0]) for _ in range(d)]
    Q = FR(pts)
    P = Q if diag is None else [[c * Fr(w) for c, w in zip(p, diag)] for p in Q]
    centre, r2 = exact_circumcentre(P)
    A = [[P[i + 1][k] - P[0][k] for i in range(d)] for k in range(d)]
    alpha = fsolve(A, [centre[k] - P[0][k] for k in range(d)])
    bary = [1 - sum(alpha)] + alpha
    if any(abs(b) < Fr(BAND) for b in bary):
        return
    inside = all(b > 0 for b in bary)
    R.tag(f"choose_point_in_simplex dim={d} {'centroid' if inside else 'longest edge'} {'identity' if diag is None else 'axis scaling'}")
    if diag is None:
        ok, got = R.call("learnerND.choose_point_in_simplex", LN.choose_point_in_simplex, np.array(pts, dtype=float))
    else:
        ok, got = R.call("learnerND.choose_point_in_simplex", LN.choose_point_in_simplex, np.array(pts, dtype=float),
                         transform=np.diag(diag))
    if not ok:
        return
    if inside:
        want = [sum(p[k] for p in Q) / (d + 1) for k in range(d)]
    else:
        el = sorted(((sum((a - b) ** 2 for a, b in zip(P[i], P[j])), i, j) for i in range(d + 1) for j in range(i + 1, d + 1)), reverse=True)
        if el[0][0] - el[1][0] <= Fr(1e-6) * el[0][0]:
            return          # no unique longest edge
        _, i, j = el[0]
        want = [(a + b) / 2 for a, b in zip(Q[i], Q[j])]
    scale = max(abs(c) for p in Q for c in p) or 1
    R.check("learnerND.choose_point_in_simplex", "choose_point_in_simplex",
            all(abs(Fr(float(a)) - b) <= Fr(REL) * scale for a, b in zip(got, want)),
            f"choose_point_in_simplex({pts}, transform=diag({diag})) = {list(map(float, got))}, circumcentre "
            f"{'inside' if inside else 'outside'} in the scaled frame -> expected {list(map(fl, want))}")


def o_l1d(R, rng, g):
    T, L1, LN, L2 = mods()
    xs4 = sorted({g() for _ in range(4)})
    if len(xs4) < 4:
        return
    vd = rng.choice([0, 0, 0, 2, 3])
    mk = (lambda: g()) if vd == 0 else (lambda: np.array([g() for _ in range(vd)]))
    ys4 = [mk() for _ in range(4)]
    xs, ys = tuple(xs4[1:3]), tuple(ys4[1:3])
    dx = Fr(xs[1]) - Fr(xs[0])
    comp = (lambda y: [Fr(float(y))]) if vd == 0 else (lambda y: [Fr(float(c)) for c in y])
    dys = [abs(a - b) for a, b in zip(comp(ys[0]), comp(ys[1]))]
    R.tag(f"learner1D losses values={'scalar' if vd == 0 else f'{vd}-vector'}")
    ok, got = R.call("learner1D.uniform_loss", L1.uniform_loss, xs, ys)
    if ok:
        R.check("learner1D.uniform_loss", "l1d_uniform_loss", close(got, dx), f"uniform_loss({xs}) = {float(got)!r}, exact dx {fl(dx)!r}")
    d2 = dx * dx + max(dys) ** 2
    ok, got = R.call("learner1D.default_loss", L1.default_loss, xs, ys)
    if ok:
        R.check("learner1D.default_loss", "l1d_default_loss", close_sq(got, d2),
                f"default_loss({xs}, {ys}) = {float(got)!r}, exact dx^2 + max dy^2 = {fl(d2)!r}")
    # abs_min_log_loss: distance loss of log(min |y|)
    if all(min(abs(c) for c in comp(y)) > 0 for y in ys):
        lg = [math.log(float(min(abs(c) for c in comp(y)))) for y in ys]
        want = math.hypot(float(dx), lg[1] - lg[0])
        ok, got = R.call("learner1D.abs_min_log_loss", L1.abs_min_log_loss, xs, ys)
        if ok:
            R.check("learner1D.abs_min_log_loss", "l1d_abs_min_log_loss", abs(float(got) - want) <= 1e-9 * want,
                    f"abs_min_log_loss({xs}, {ys}) = {float(got)!r}, expected {want!r}")
    # triangle loss: mean area of the triangles of adjacent point triples
    pat = rng.choice([(1, 1), (1, 1), (0, 1), (1, 0), (0, 0)])
    xq = [xs4[0] if pat[0] else None, xs4[1], xs4[2], xs4[3] if pat[1] else None]
    yq = [ys4[0] if pat[0] else None, ys4[1], ys4[2], ys4[3] if pat[1] else None]
    pp = [(Fr(x),) + tuple(comp(y)) for x, y in zip(xq, yq) if x is not None]
    if len(pp) == 2:
        tri_want, tri_ok = float(dx), True
    else:
        a2 = [gram_vol_sq(pp[i:i + 3]) for i in range(len(pp) - 2)]
        tri_ok = all(a > Fr(1e-8) for a in a2)
        tri_want = sum(math.sqrt(float(a)) for a in a2) / len(a2)
    # a (nearly) collinear triple is degenerate input: the volume routines may legitimately raise there
    ok, got = R.call("learner1D.triangle_loss", L1.triangle_loss, xq, yq) if tri_ok else (False, None)
    if ok and tri_ok:
        R.check("learner1D.triangle_loss", "l1d_triangle_loss", abs(float(got) - tri_want) <= 1e-9 * abs(tri_want),
                f"triangle_loss({xq}, {yq}) = {float(got)!r}, mean exact triangle area {tri_want!r}")
    af, ef, hf = rng.choice([(1, 0.02, 0.02), (1, 0.02, 0.02), (2.0, 0.5, 0.25), (0.0, 1.0, 0.0)])
    ok, got = R.call("learner1D.curvature_loss_function()", lambda: L1.curvature_loss_function(af, ef, hf)(xq, yq)) if tri_ok else (False, None)
    if ok and tri_ok:
        want = af * math.sqrt(tri_want) + ef * math.sqrt(float(d2)) + hf * float(dx)
        R.check("learner1D.curvature_loss_function()", "l1d_curvature_loss", abs(float(got) - want) <= 1e-9 * abs(want),
                f"curvature_loss({af},{ef},{hf})({xq}, {yq}) = {float(got)!r}, expected a*sqrt(triangle)+e*default+h*dx = {want!r}")
    # resolution cut-offs
    w = float(dx)
    lo, hi = rng.choice([(w * 2, w * 4), (w / 4, w / 2), (w / 2, w * 2), (0, 1)])
    if abs(w - lo) > 1e-9 * w and abs(w - hi) > 1e-9 * w:
        ok, got = R.call("learner1D.resolution_loss_function()", lambda: L1.resolution_loss_function(lo, hi)(xs, ys))
        if ok:
            if w < lo:
                good, exp = float(got) == 0, "0 (shorter than min_length)"
            elif w > hi:
                good, exp = math.isinf(float(got)) and float(got) > 0, "inf (longer than max_length)"
            else:
                good, exp = close_sq(got, d2), f"default loss, square {fl(d2)!r}"
            R.check("learner1D.resolution_loss_function()", "l1d_resolution_loss", good,
                    f"resolution_loss({lo}, {hi})({xs}, {ys}) = {float(got)!r}, expected {exp}")


def o_linspace(R, rng, g):
    T, L1, LN, L2 = mods()
    a, b = sorted([g(), g()])
    if a == b:
        return
    n = rng.choice([1, 2, 3, 4, 5, 8, 13, 33])
    R.tag(f"linspace n={n}")
    ok, got = R.call("learner1D.linspace", L1.linspace, a, b, n)
    if ok:
        want = [Fr(a) + (Fr(b) - Fr(a)) * i / n for i in range(1, n)]
        sc = max(abs(Fr(a)), abs(Fr(b)))
        R.check("learner1D.linspace", "l1d_linspace", len(got) == n - 1 and all(close(x, w, scale=sc) for x, w in zip(got, want)),
                f"linspace({a}, {b}, {n}) = {got}, exact {list(map(fl, want))}")


def o_l2d(R, rng, g):
    T, L1, LN, L2 = mods()
    from scipy.interpolate import LinearNDInterpolator
    n = rng.choice([4, 5, 6, 8])
    pts = sorted({(g(), g()) for _ in range(n)})
    if len(pts) < 4:
        return
    try:
        vals = np.array([[g()] for _ in pts])
        ip = LinearNDInterpolator(np.array(pts, dtype=float), vals)
    except Exception:
        return          # scipy could not triangulate (degenerate cloud): not a function under test
    simp = ip.tri.simplices
    P = [[Fr(float(c)) for c in p] for p in ip.tri.points]
    ex_areas = [abs(fdet(edges([P[i] for i in s]))) / 2 for s in simp]
    if min(ex_areas) < Fr(1e-6):
        return
    R.tag(f"learner2D n={len(pts)} triangles={len(simp)}")
    ok, got = R.call("learner2D.areas", L2.areas, ip)
    if ok:
        R.check("learner2D.areas", "l2d_areas", len(got) == len(simp) and all(close(a, e) for a, e in zip(got, ex_areas)),
                f"areas = {list(map(float, got))}, exact {list(map(fl, ex_areas))} for points {pts}")
    ok, got = R.call("learner2D.uniform_loss", L2.uniform_loss, ip)
    if ok:
        R.check("learner2D.uniform_loss", "l2d_uniform_loss", all(close_sq(a, e) for a, e in zip(got, ex_areas)),
                f"uniform_loss = {list(map(float, got))}, exact areas {list(map(fl, ex_areas))}")
    ptp = float(np.ptp(ip.values, axis=0).max() or 1)
    z = [Fr(float(v[0] / ptp)) for v in ip.values]
    ok, got = R.call("learner2D.minimize_triangle_surface_loss", L2.minimize_triangle_surface_loss, ip)
    if ok:
        want = [gram_vol_sq([P[i] + [z[i]] for i in s]) for s in simp]
        R.check("learner2D.minimize_triangle_surface_loss", "l2d_triangle_surface", all(close_sq(a, e) for a, e in zip(got, want)),
                f"minimize_triangle_surface_loss = {list(map(float, got))}, exact squared lifted areas {list(map(fl, want))}")
    tri3 = np.array([pts[0], pts[1], pts[2]], dtype=float)
    ok, got = R.call("learner2D.choose_point_in_triangle", L2.choose_point_in_triangle, tri3, 5)
    if ok:
        a, b, c = [[Fr(float(x)) for x in p] for p in tri3]
        area = abs(fdet([[b[0] - a[0], b[1] - a[1]], [c[0] - a[0], c[1] - a[1]]])) / 2
        el = sorted(((sum((u - v) ** 2 for u, v in zip(p, q)), p, q) for p, q in ((a, b), (b, c), (c, a))), key=lambda t: t[0], reverse=True)
        if area > 0:
            bad = float(el[0][0]) / float(area) * (math.sqrt(3) / 4)
            if abs(bad - 5) > 1e-6 and el[0][0] - el[1][0] > Fr(1e-6) * el[0][0]:
                want = [(u + v) / 2 for u, v in zip(el[0][1], el[0][2])] if bad > 5 else [(a[k] + b[k] + c[k]) / 3 for k in range(2)]
                R.check("learner2D.choose_point_in_triangle", "l2d_choose_point",
                        all(abs(Fr(float(x)) - w) <= Fr(REL) * max(1, abs(w)) for x, w in zip(got, want)),
                        f"choose_point_in_triangle({tri3.tolist()}, 5) = {list(map(float, got))}, expected {list(map(fl, want))}")
    R.call("learner2D.deviations", L2.deviations, ip)
    R.call("learner2D.default_loss", L2.default_loss, ip)
    R.call("learner2D.resolution_loss_function()", lambda: L2.resolution_loss_function(0.01, 1.0)(ip))
    R.call("learner2D.thresholded_loss_function()", lambda: L2.thresholded_loss_function(0.0, 1.0)(ip))
    # thresholded loss = default loss, times the priority factor for the triangles whose values all lie below the lower or all
    # above the upper threshold (every combination of thresholds; the reference is the code's own default_loss)
    ok_d, base = R.call("learner2D.default_loss", L2.default_loss, ip)
    if ok_d:
        vals = np.asarray(ip.values)[np.asarray(simp)]          # (ntri, 3, k)
        flat = sorted(float(v) for v in np.asarray(ip.values).ravel())
        lo_t, hi_t = flat[len(flat) // 3], flat[(2 * len(flat)) // 3]
        for lower, upper in ((lo_t, None), (None, hi_t), (lo_t, hi_t), (hi_t, lo_t)):
            R.tag(f"thresholded_loss lower={'set' if lower is not None else '-'} upper={'set' if upper is not None else '-'}")
            ok_t, got_t = R.call("learner2D.thresholded_loss_function()",
                                 lambda: L2.thresholded_loss_function(lower, upper, 0.1)(ip))
            if not ok_t:
                continue
            want_t = np.array(base, dtype=float).copy()
            for i in range(len(want_t)):
                below = lower is not None and bool((vals[i] < lower).all())
                above = upper is not None and bool((vals[i] > upper).all())
                if below:
                    want_t[i] *= 0.1
                if above:      # (lower > upper: a triangle between the two is deprioritised by both rules)
                    want_t[i] *= 0.1
            R.check("learner2D.thresholded_loss_function()", "l2d_thresholded_loss",
                    np.allclose(np.asarray(got_t, dtype=float), want_t, rtol=1e-12, atol=0.0),
                    f"thresholded_loss_function({lower}, {upper}) = {np.asarray(got_t).tolist()}, expected {want_t.tolist()}")
    if len(pts) <= 6:
        ok, got = R.call("learner2D.triangle_loss", L2.triangle_loss, ip)
        if ok:
            V = [[Fr(float(c)) for c in v] for v in ip.values]
            want, good, cmt = [], True, []
            for i, s in enumerate(simp):
                nbr = sorted({int(v) for nb in ip.tri.neighbors[i] if nb != -1 for v in simp[nb]} - {int(v) for v in s})
                if not nbr:
                    good = False
                    break
                sims = [[P[j] + V[j] for j in s] + [P[c] + V[c]] for c in nbr]
                vols = [gram_vol_sq(q) for q in sims]
                want.append(sum(math.sqrt(float(v)) for v in vols) / len(nbr))
                cmt.append(cm_tolerance(sims, [math.sqrt(float(v)) for v in vols]))
            if good and all(w > 1e-3 for w in want):
                # (volumes through the Cayley-Menger determinant: the rounding error is absolute on the scale of the point set - cm_tolerance)
                R.check("learner2D.triangle_loss", "l2d_triangle_loss",
                        all(abs(float(a) - w) <= 1e-8 * w + t for a, w, t in zip(got, want, cmt)),
                        f"learner2D.triangle_loss = {list(map(float, got))}, exact {want}")


def o_quadrature(R, rng, g):
    """quadrature constants of integrator_coeffs (oracle only; the tables belong to C08's model)"""
    from adaptive.learner import integrator_coeffs as IC
    ok, co = R.call("integrator_coeffs._coefficients", IC._coefficients)
    if not ok:
        return
    ns, xi, V, V_inv = co["ns"], co["xi"], co["V"], co["V_inv"]
    d = rng.randrange(4)
    n = ns[d]
    R.tag(f"quadrature depth={d} n={n}")
    x = xi[d]
    R.check("integrator_coeffs.xi", "quad_nodes_antisymmetric", all(float(x[i]) == -float(x[n - 1 - i]) for i in range(n)),
            f"nodes of the {n}-point rule are not exactly antisymmetric")
    R.check("integrator_coeffs.xi", "quad_nodes_clenshaw_curtis",
            all(abs(float(x[i]) + math.cos(i * math.pi / (n - 1))) <= 1e-15 for i in range(n)) and x[0] == -1 and x[-1] == 1,
            f"nodes of the {n}-point rule are not -cos(i pi/(n-1))")
    if d < 3:
        R.check("integrator_coeffs.xi", "quad_nodes_nested", all(abs(float(a) - float(b)) <= 1e-15 for a, b in zip(xi[d + 1][::2], x)),
                f"nodes of the {n}-point rule are not every second node of the {ns[d + 1]}-point rule")
    dev = np.abs(V[d] @ V_inv[d] - np.eye(n)).max()
    R.check("integrator_coeffs.V_inv", "quad_V_inverse", dev <= 1e-9, f"max |V V_inv - 1| = {dev!r} for the {n}-point rule")
    # calc_V columns are the orthonormal Legendre polynomials sqrt(i + 1/2) P_i, P_i from the exact recursion
    ok, legs = R.call("integrator_coeffs.legendre", IC.legendre, n)
    q = Fr(rng.randint(-64, 64), 64)
    if ok:
        ok2, row = R.call("integrator_coeffs.calc_V", IC.calc_V, np.array([float(q)]), n)
        if ok2:
            want = [math.sqrt(i + 0.5) * float(sum(c * q ** k for k, c in enumerate(legs[i]))) for i in range(n)]
            R.check("integrator_coeffs.calc_V", "quad_calc_V", all(abs(float(a) - w) <= 1e-9 * max(1.0, abs(w)) for a, w in zip(row[0], want)),
                    f"calc_V({float(q)}, {n}) differs from sqrt(i+1/2) P_i(x)")
        i, j = rng.randrange(n), rng.randrange(n)
        ok3, sp = R.call("integrator_coeffs.scalar_product", IC.scalar_product, legs[i], legs[j])
        if ok3:
            R.check("integrator_coeffs.legendre", "quad_legendre_orthogonal", sp == (Fr(2, 2 * i + 1) if i == j else 0),
                    f"int P_{i} P_{j} = {sp}, expected {Fr(2, 2 * i + 1) if i == j else 0}")
    # shift matrices: coefficients of f on the left / right half interval
    c = np.array([rng.uniform(-1, 1) / (1 + k) for k in range(ns[3])])
    for name, a in (("T_left", -1), ("T_right", 1)):
        lhs = V[3] @ (co[name] @ c)
        rhs = IC.calc_V((xi[3] + a) / 2, ns[3]) @ c
        R.check("integrator_coeffs." + name, "quad_shift_matrix", np.abs(lhs - rhs).max() <= 1e-9 * max(1.0, np.abs(rhs).max()),
                f"{name} does not map coefficients on [-1,1] to coefficients of the half interval (max dev {np.abs(lhs - rhs).max()!r})")
    # Newton polynomial over the nodes and its Legendre decomposition
    ok, cf = R.call("integrator_coeffs.newton", IC.newton, n)
    if ok:
        xq = float(q)
        p = sum(float(ck) * xq ** k for k, ck in enumerate(cf))
        w = 1.0
        for i in range(n):
            w *= xq + math.cos(i * math.pi / (n - 1))
        R.check("integrator_coeffs.newton", "quad_newton", abs(p - w) <= 1e-9 * max(abs(w), 1e-12) + 1e-13,
                f"newton({n}) at {xq}: {p!r}, prod (x - x_i) = {w!r}")
        bd = co["b_def"][d]
        val = float((IC.calc_V(np.array([xq]), n + 1) @ bd)[0])
        R.check("integrator_coeffs.calc_bdef", "quad_bdef", abs(val - w) <= 1e-8 * max(abs(w), 1e-12) + 1e-12,
                f"b_def[{d}] evaluated at {xq} = {val!r}, Newton polynomial = {w!r}")


ORACLES = {
    "det": (o_det, 3), "det_int": (o_det_int, 1), "norm": (o_norm, 1), "circumsphere": (o_circumsphere, 3), "point_in_simplex": (o_point_in_simplex, 3),
    "orientation": (o_orientation, 2), "volume_embedding": (o_volume_embedding, 3), "nd_volume": (o_nd_volume, 2),
    "nd_losses": (o_nd_losses, 2), "choose_point": (o_choose_point, 1), "l1d": (o_l1d, 3), "linspace": (o_linspace, 1),
    "l2d": (o_l2d, 1), "quadrature": (o_quadrature, 1),
}


def oracle_item(arg):
    name, seed = arg
    rng = random.Random(f"{name}-{seed}")
    kind, g = coord_gen(rng)
    if name in ("l2d", "l1d", "nd_losses", "choose_point", "point_in_simplex") and kind == "dyadic*2^k":
        kind, g = "dyadic", (lambda: dyadic(rng))     # mixed-unit inputs (values vs coordinates) stay at one scale
    R = Rec(name, seed)
    R.tag(f"inputs:{kind}")
    try:
        ORACLES[name][0](R, rng, g)
    except Exception as e:                # a bug of the oracle itself must not be reported as a violation
        R.rows.append({"fn": f"<oracle {name}>", "oracle_error": f"{type(e).__name__}: {e}", "tb": traceback.format_exc()[-600:]})
    return R.out()


def aggregate(results):
    """per real function: calls, raises; failures; environmental list"""
    per, fails, oracle_errors, tags = {}, [], [], {}
    for r in results:
        for t in r["tags"]:
            tags[t] = tags.get(t, 0) + 1
        for row in r["rows"]:
            if "oracle_error" in row:
                oracle_errors.append({"oracle": r["oracle"], "seed": r["seed"], **row})
                continue
            st = per.setdefault(row["fn"], {"calls": 0, "raised": 0, "exc": {}, "fails": 0, "sample": None})
            if "fail" in row:
                st["fails"] += 1
                fails.append({"clause": row["fail"], "signature": f"C20.{row['fail']}:{row['fn']}", "detail": row["detail"],
                              "replay": {"oracle": r["oracle"], "seed": r["seed"]}})
                continue
            st["calls"] += 1
            if row["raised"]:
                st["raised"] += 1
                key = f"{row['raised']}@{row['where']}"
                st["exc"][key] = st["exc"].get(key, 0) + 1
                st["sample"] = st["sample"] or {"exception": row["raised"], "message": row["msg"], "where": row["where"],
                                                "replay": {"oracle": r["oracle"], "seed": r["seed"]}}
    env = []
    for fn, st in sorted(per.items()):
        if not st["raised"]:
            continue
        s = st["sample"]
        if st["raised"] == st["calls"] and st["calls"] >= 3 and KNOWN_ENV.get(fn) == s["exception"]:
            env.append({"function": fn, "raises_for_every_input": True, "inputs_tried": st["calls"], "exception": s["exception"],
                        "message": s["message"], "raised_in": ("harness: float(result)" if fn.startswith("float(") else s["where"]), "classified": "environmental (installed NumPy/SciPy), not a violation"})
        else:
            every = st["raised"] == st["calls"]
            fails.append({"clause": "always_raises" if every else "raises",
                          "signature": f"C20.{'always_raises' if every else 'raises'}:{fn}:{s['exception']}",
                          "detail": f"{fn} raised {s['exception']}({s['message']}) in {s['where']} for {st['raised']} of {st['calls']} valid inputs",
                          "replay": s["replay"]})
    return per, fails, env, oracle_errors, tags


# ------------------------------------------------------------------------------------------ run
def gen_hashes():
    out = {}
    for f in ("Prims.lean", "PrimsRun.lean", "Constants.lean"):
        p = translate.GEN / f
        out[f] = hashlib.sha1(p.read_bytes()).hexdigest()[:16] if p.exists() else None
    return out


def run(ctx):
    warnings.simplefilter("ignore")
    # 1. translate (the tie of the proofs to the source)
    tr_status = {"ok": True, "changed": {}, "error": None}
    try:
        tr_status["changed"] = translate.generate()
    except translate.TranslateError as e:
        tr_status.update(ok=False, error=str(e))
    # 2. prove
    proof = core.prove(MODULES, leanchecker=ctx.thorough)
    if not tr_status["ok"]:
        proof.build_ok = False
        proof.broken.insert(0, f"translator: a function left the translatable subset: {tr_status['error']}")
    # 3. correspondence
    corr = core.Corr("real primitives ~ Gen/Prims.lean at Float (bit level)")
    ncases = ctx.n(600, 20000)
    cases = core.pmap(corr_case, [ctx.rng.randrange(1 << 30) for _ in range(ncases)])
    for c in cases:
        corr.count("inputs:" + c["meta"]["kind"])
        for l in c["lines"]:
            corr.count("fn:" + l.split()[2])
    cases.append(const_case())
    corr.count("constants", len(cases[-1]["lines"]))
    core.lockstep(corr, cases, cmp=cmp_bits, shards=ctx.n(4, 12))
    corr2 = core.Corr("learnerND.choose_point_in_simplex (triangles, None / diagonal transform) ~ Choose.lean at Float (bit level)")
    ccases = core.pmap(choose_case, [ctx.rng.randrange(1 << 30) for _ in range(ctx.n(40, 600))])
    for c in ccases:
        for k, v in c["meta"]["stats"].items():
            corr2.count(k, v)
    core.lockstep(corr2, ccases, cmp=cmp_bits, shards=ctx.n(2, 8))
    corr3 = core.Corr("Learner2D / 1-D cut-off / N-D default loss / orientation primitives ~ Prims2.lean at Float (bit level or measured ulp bound)")
    pcases = core.pmap(prims2_case, [ctx.rng.randrange(1 << 30) for _ in range(ctx.n(12, 200))])
    for c in pcases:
        for k, v in c["meta"]["stats"].items():
            if k.count(":") == 1:
                corr3.count(k, v)
    core.lockstep(corr3, pcases, cmp=cmp_bits, shards=ctx.n(2, 8))
    # 4. search
    deep = not proof.ok or not corr.ok or not corr2.ok or not corr3.ok
    per_unit = ctx.n(200, 6000) * (3 if deep else 1)
    items = [(name, ctx.rng.randrange(1 << 30)) for name, (_, w) in ORACLES.items() for _ in range(per_unit * w)]
    results = core.pmap(oracle_item, items)
    per, failures, env, oracle_errors, tags = aggregate(results)
    for oe in oracle_errors[:3]:
        # the oracle itself raised while working with what the real functions returned (e.g. a table of the wrong
        # length): never seen on the unchanged tree, so it is reported as a failure of the function under test
        failures.append({"clause": "oracle_exception", "signature": "C20.oracle_exception:" + str(oe.get("oracle", "?")),
                         "detail": json.dumps(oe)[:1200], "replay": oe})
    calls = {fn: st["calls"] for fn, st in sorted(per.items())}
    return core.conclude(
        ctx, proof, [corr, corr2, corr3], failures,
        rule="seeded inputs (small dyadic rationals, the same scaled by 2^k, generic doubles), non-degenerate simplices "
             "(|det| >= 1e-3 x product of edge norms), query points built from barycentric coordinates inside / outside / next "
             "to faces, dims 1-5; non-trivial = distinct protocol-line sequence (correspondence) / oracle item that reached a check",
        samples=[c["lines"][:4] for c in cases[:1]],
        evaluations=len(cases) + len(results), distinct=len(corr.distinct) + sum(1 for r in results if r["rows"]),
        explanation="Gen/Prims.lean is regenerated from the repository source by harness/translate.py on every run; the theorems of "
                    "Props/C20.lean are about those definitions, the driver evaluates the same definitions at Float and every "
                    "component of every result is compared with the real function bit for bit (<= 4 ulp where libm hypot is "
                    "involved). The oracle recomputes each function's mathematical meaning exactly with fractions.Fraction "
                    "(Laplace determinant, circumcentre by exact solve + equidistance of the returned centre, barycentric "
                    "coordinates, Gram-determinant volumes, 1-D/N-D/2-D loss formulas) and compares to 1e-9 relative; "
                    "tolerance-guarded predicates are compared only outside a 1e-6 guard band around their thresholds.",
        trusted=core.COMMON_TRUSTED + [
            "harness/translate.py (python-subset -> Lean; kernel table: sqrt/abs abstract, array/asarray identity, numpy "
            "broadcasting '-', np.hypot(a,b)=sqrt(a*a+b*b), pdist euclidean, math.factorial) and the constants dump",
            "modelled, not verified (oracle only): numpy.linalg.det / solve / slogdet, scipy pdist/squareform, np.hypot, "
            "np.std / np.linalg.norm / np.power, scipy LinearNDInterpolator triangulation, IEEE rounding (theorems are over fields)",
            "hand-written model AdaptiveModel/Choose.lean of learnerND.choose_point_in_simplex for triangles (centroid = ((a+b)+c)/3, "
            "first-maximum argmax over the 3x3 distance matrix, np.dot / np.linalg.solve with a DIAGONAL transform), tied bit for bit "
            "on 10 categories of triangles x 4 transforms; dimension 3 and non-diagonal transforms are not modelled",
            "hand-written models AdaptiveModel/Prims2.lean (Learner2D areas / uniform_loss / minimize_triangle_surface_loss / "
            "choose_point_in_triangle per triangle, 1-D resolution and curvature losses, LearnerND default_loss on a 2-D domain = Cayley-Menger "
            "determinant, Triangulation.orientation with its absolute log-det cut) tied at Float; numpy.linalg.det is emulated (left-looking LU "
            "with fused multiply-add, sign * exp(sum of logs): Drv/NumpyDet.lean) for the bit-exact tie of default_loss, while the THEOREMS are about "
            "the exact cofactor determinant",
            "sqrt satisfies Prims.SqrtLaw (non-negative; squares back on non-negative arguments) — holds for Real.sqrt",
        ],
        assumptions=["non-degenerate inputs (non-zero determinant of the edge vectors), finite coordinates",
                     "quadrature constants of integrator_coeffs are checked by the oracle only (no Lean model here; see C08)"],
        extra={"translator": tr_status, "generated_files_sha1": gen_hashes(),
               "environmental": env, "oracle_calls_per_function": calls, "oracle_input_distribution": dict(sorted(tags.items())),
               "deep_search": deep},
        partial=[],
    )


def replay(ctx, path):
    d = json.load(open(path))
    rp = d.get("replay") or {}
    if "oracle" in rp:
        r = oracle_item((rp["oracle"], rp["seed"]))
        bad = [row for row in r["rows"] if "fail" in row or row.get("raised")]
        for row in bad:
            print("FAIL" if "fail" in row else "RAISED", json.dumps(row, default=str)[:1500])
        fails = [row for row in bad if "fail" in row or KNOWN_ENV.get(row["fn"]) != row.get("raised")]
        return 1 if fails else 0
    print(json.dumps(d, indent=1)[:3000])
    return 0
