"""C17 — SequenceLearner: handed out once, in order; results in order.

proof:   lean/AdaptiveProofs/Props/C17.lean (model lean/AdaptiveModel/Seq.lean)
tie:     lock-step correspondence of the real SequenceLearner with `Seq.Drv.stepLine`
search:  the property's own statement evaluated on the real class (python shadow)
"""
from __future__ import annotations

import itertools

import numpy as np

from harness import core

MODULES = ["AdaptiveProofs.Props.C17"]


# ------------------------------------------------------------------ histories
def make_sequence(kind, n, rng):
    if kind == "int":
        return [rng.randrange(-50, 50) for _ in range(n)]
    if kind == "list":
        return [[rng.randrange(9), rng.randrange(9)] for _ in range(n)]  # unhashable
    if kind == "ndarray":
        return [np.array([rng.random(), rng.random()]) for _ in range(n)]
    if kind == "flaky":  # a lazily computed sequence: reading an element fails once at a few indices (transient fault)
        return FlakySequence([rng.randrange(-50, 50) for _ in range(n)], {rng.randrange(n) for _ in range(3)} if n else set())
    raise ValueError(kind)


class TransientFault(Exception):
    pass


class FlakySequence:
    """a sequence whose element access raises the first time an index of `fail_once` is read after `arm()`"""

    def __init__(self, items, fail_once):
        self.items, self.fail_once, self.armed = items, set(fail_once), [False]

    def arm(self):
        self.armed[0] = True

    def __len__(self):
        return len(self.items)

    def __iter__(self):
        return iter(self.items)

    def __getitem__(self, i):
        if self.armed[0] and i in self.fail_once:
            self.fail_once.discard(i)
            raise TransientFault(f"element {i} not available yet")
        return self.items[i]


def gen_history(rng, max_n=12, max_ops=40):
    """Runner-like history: asks of any size, out-of-order partial tells, tells of
    never-suggested indices, re-tells, discards."""
    n = rng.choice([0, 1, 2, 3, 4, 5, 6, 8, max_n, rng.randrange(0, max_n + 1)])
    if rng.random() < 0.05:
        n = rng.randrange(50, 201)
    kind = rng.choice(["int", "list", "ndarray", "flaky"])
    ops = []
    outstanding, told = [], set()
    for _ in range(rng.randrange(1, max_ops + 1)):
        r = rng.random()
        if r < 0.35:
            k = rng.choice([0, 1, 1, 2, 3, n, n + 2, rng.randrange(0, n + 3)])
            commit = rng.random() < 0.75
            ops.append(("ask", k, commit))
            if commit:
                outstanding.append("?")  # resolved at run time
        elif r < 0.78 and n > 0:
            mode = rng.random()
            ops.append(("tell", mode, rng.randrange(1 << 30), rng.randrange(-1000, 1000)))
        elif r < 0.85 and n > 0:
            # tell_many: several results at once (lists or one-shot iterables - `load_dataframe` passes a zip)
            ops.append(("tell_many", rng.choice([1, 2, 3, 5]), rng.randrange(1 << 30), rng.choice(["list", "zip", "generator"])))
        elif r < 0.93:
            ops.append(("remove_unfinished",))
        elif r < 0.97 and n > 0:
            # the way BalancingLearner uses a child: ask(.., tell_pending=False), then an explicit tell_pending
            ops.append(("peek_mark", rng.choice([1, 1, 2, 3]), rng.randrange(1 << 30)))
        else:
            ops.append(("ask", rng.randrange(0, n + 3), False))
    return {"n": n, "kind": kind, "ops": ops, "seq_seed": rng.randrange(1 << 30)}


def obs_impl(l, n):
    """canonical observation line of the real learner (public API only)."""
    peek, _ = l.ask(n + 1, tell_pending=False)
    todo = ",".join(str(i) for i, _ in peek)
    pend = ",".join(str(i) for i in sorted(l.pending_points))
    data = ",".join(f"{k}:{v}" for k, v in l.data.items())
    try:
        res = "[" + ",".join(str(v) for v in l.result()) + "]"
    except Exception:
        res = "none"
    return (f"todo={todo} pending={pend} data={data} done={int(bool(l.done()))} "
            f"lossT={l.loss(real=True)!r} lossF={l.loss(real=False)!r} npoints={l.npoints} result={res}")


def canon_model(line):
    """model prints losses as num/den; the code returns the float quotient."""
    out = []
    for tok in line.split(" "):
        if tok.startswith("lossT=") or tok.startswith("lossF="):
            k, v = tok.split("=")
            num, den = v.split("/")
            val = 0.0 if int(den) == 0 or int(num) == 0 else int(num) / int(den)
            tok = f"{k}={val!r}"
        out.append(tok)
    return " ".join(out)


def execute(hist, check=None):
    """Run a history on the real SequenceLearner.  Returns (lines, impl_outputs).
    `check(event, **kw)` is the search oracle hook."""
    import random as _r
    from adaptive import SequenceLearner

    rng = _r.Random(hist["seq_seed"])
    n = hist["n"]
    seq = make_sequence(hist["kind"], n, rng)
    l = SequenceLearner(lambda x: x, seq)
    flaky = isinstance(seq, FlakySequence)
    if flaky:
        seq = l.sequence  # (the learner keeps a shallow copy; faults are shared through `fail_once`)
    lines = [f"seq new {n}"]
    outs = ["ok " + obs_impl(l, n)]
    outstanding = []  # indices handed out by committing asks, not yet told/discarded
    told = {}
    if check:
        check("new", l=l, seq=seq, told=told, outstanding=outstanding)
    for op in hist["ops"]:
        if op[0] == "ask":
            _, k, commit = op
            if flaky:
                seq.arm()
                try:
                    pts, imps = l.ask(k, tell_pending=commit)
                except TransientFault:
                    # the request failed and returned nothing: nothing may have been marked as handed out
                    seq.armed[0] = False
                    if check:
                        check("after", l=l, seq=seq, told=told, outstanding=outstanding)
                    continue
                finally:
                    seq.armed[0] = False
            else:
                pts, imps = l.ask(k, tell_pending=commit)
            if check:
                check("ask", l=l, seq=seq, told=told, outstanding=outstanding, k=k, commit=commit,
                      pts=pts, imps=imps)
            idx = [i for i, _ in pts]
            if commit:
                outstanding += [i for i in idx if i not in outstanding]
            lines.append(f"seq ask {k} {int(commit)}")
            outs.append("pts=" + ",".join(map(str, idx)) + " " + obs_impl(l, n))
        elif op[0] == "tell":
            _, mode, pick, v = op
            if n == 0:
                continue
            if mode < 0.7 and outstanding:
                i = outstanding[pick % len(outstanding)]
            elif mode < 0.85 and told:
                i = sorted(told)[pick % len(told)]  # re-tell
            else:
                i = pick % n  # possibly never suggested
            l.tell((i, seq[i]), v)
            told[i] = v
            if i in outstanding:
                outstanding.remove(i)
            lines.append(f"seq tell {i} {v}")
            outs.append("ok " + obs_impl(l, n))
        elif op[0] == "tell_many":
            _, k, pick, how = op
            if n == 0:
                continue
            prng = _r.Random(pick)
            idx = []
            for _j in range(k):
                if outstanding and prng.random() < 0.7:
                    idx.append(outstanding[prng.randrange(len(outstanding))])
                else:
                    idx.append(prng.randrange(n))
            idx = list(dict.fromkeys(idx))
            vals = [prng.randrange(-1000, 1000) for _ in idx]
            pts = [(i, seq[i]) for i in idx]
            if how == "list":
                l.tell_many(pts, vals)
            elif how == "zip":
                l.tell_many(zip(idx, [seq[i] for i in idx]), iter(vals))
            else:
                l.tell_many((p for p in pts), (v for v in vals))
            for i, v in zip(idx, vals):
                told[i] = v
                if i in outstanding:
                    outstanding.remove(i)
            lines.append(f"seq tell_many {','.join(map(str, idx))} {','.join(map(str, vals))}")
            outs.append("ok " + obs_impl(l, n))
        elif op[0] == "remove_unfinished":
            l.remove_unfinished()
            outstanding.clear()
            lines.append("seq remove_unfinished")
            outs.append("ok " + obs_impl(l, n))
        elif op[0] == "peek_mark":
            _, k, pick = op
            pts, imps = l.ask(k, tell_pending=False)
            if check:
                check("ask", l=l, seq=seq, told=told, outstanding=outstanding, k=k, commit=False, pts=pts, imps=imps)
            lines.append(f"seq ask {k} 0")
            outs.append("pts=" + ",".join(str(i) for i, _ in pts) + " " + obs_impl(l, n))
            if pts:
                i, el = pts[pick % len(pts)]
            else:  # nothing left to hand out: mark an element without result (possibly already pending)
                cand = [j for j in range(n) if j not in told]
                if not cand:
                    continue
                i = cand[pick % len(cand)]
                el = seq[i]
            l.tell_pending((i, el))
            if i not in outstanding:
                outstanding.append(i)
            lines.append(f"seq tell_pending {i}")
            outs.append("ok " + obs_impl(l, n))
        if check:
            check("after", l=l, seq=seq, told=told, outstanding=outstanding)
    return lines, outs


# ------------------------------------------------------------------ search oracle
class Oracle:
    """The statement of C17 evaluated on the real object against a plain shadow."""

    def __init__(self):
        self.fail = None

    def __call__(self, ev, l, seq, told, outstanding, **kw):
        if self.fail:
            return
        n = len(seq)
        if ev == "ask":
            pts, k = kw["pts"], kw["k"]
            idx = [i for i, _ in pts]
            avail = [i for i in range(n) if i not in told and i not in outstanding]
            want = avail[:k]
            if idx != want:
                self.fail = ("ask_order", f"ask({k}) returned indices {idx}, expected {want} "
                             f"(told={sorted(told)}, pending={sorted(outstanding)})")
                return
            if any(p is not seq[i] for i, p in pts):
                self.fail = ("ask_element", "returned element is not sequence[index]")
                return
            if n and any(abs(x - 1 / n) > 1e-15 for x in kw["imps"]):
                self.fail = ("ask_improvement", f"improvements {kw['imps']}")
                return
        if ev in ("after", "new"):
            if dict(l.data) != told:
                self.fail = ("data", f"data {dict(l.data)} != told {told}")
            elif set(l.pending_points) != set(outstanding):
                self.fail = ("pending", f"pending {sorted(l.pending_points)} != {sorted(outstanding)}")
            elif bool(l.done()) != (len(told) == n):
                self.fail = ("done_iff", f"done()={l.done()} with {len(told)}/{n} results")
            else:
                want = (n - len(told)) / n if n else 0.0
                wantf = (n - len(told) - len(outstanding)) / n if n else 0.0
                if len(told) == n:
                    want = wantf = 0.0
                if abs(l.loss() - want) > 1e-15 or abs(l.loss(real=False) - wantf) > 1e-15:
                    self.fail = ("loss_fraction", f"loss {l.loss()}/{l.loss(real=False)} expected {want}/{wantf}")
                elif len(told) == n:
                    res = l.result()
                    if len(res) != n or any(res[i] is not told[i] and res[i] != told[i] for i in range(n)):
                        self.fail = ("result_order", f"result {res} expected {[told[i] for i in range(n)]}")
                else:
                    try:
                        l.result()
                        self.fail = ("result_early", "result() did not raise while incomplete")
                    except Exception:
                        pass


def exhaustive_histories(max_n):
    """all delivery orders for n ≤ max_n with every request size pattern from a small
    family and a discard at every position"""
    for n in range(0, max_n + 1):
        for perm in itertools.permutations(range(n)):
            for req in (1, 2, n + 1):
                for discard_at in range(-1, n + 1):
                    ops = []
                    i = 0
                    while i < n:
                        ops.append(("ask", req, True))
                        for _ in range(req):
                            if i < n:
                                if i == discard_at:
                                    ops.append(("remove_unfinished",))
                                ops.append(("tellidx", perm[i]))
                                i += 1
                    yield {"n": n, "kind": "int", "ops": ops, "seq_seed": n}


def execute_exhaustive(hist, oracle):
    """variant of execute for explicit index tells"""
    from adaptive import SequenceLearner

    n = hist["n"]
    seq = list(range(100, 100 + n))
    l = SequenceLearner(lambda x: x, seq)
    told, outstanding = {}, []
    lines, outs = [f"seq new {n}"], ["ok " + obs_impl(l, n)]
    for op in hist["ops"]:
        if op[0] == "ask":
            pts, imps = l.ask(op[1], tell_pending=True)
            oracle("ask", l=l, seq=seq, told=told, outstanding=outstanding, k=op[1], commit=True, pts=pts, imps=imps)
            idx = [i for i, _ in pts]
            outstanding += [i for i in idx if i not in outstanding]
            lines.append(f"seq ask {op[1]} 1")
            outs.append("pts=" + ",".join(map(str, idx)) + " " + obs_impl(l, n))
        elif op[0] == "tellidx":
            i = op[1]
            v = 7 * i + 1
            l.tell((i, seq[i]), v)
            told[i] = v
            if i in outstanding:
                outstanding.remove(i)
            lines.append(f"seq tell {i} {v}")
            outs.append("ok " + obs_impl(l, n))
        else:
            l.remove_unfinished()
            outstanding.clear()
            lines.append("seq remove_unfinished")
            outs.append("ok " + obs_impl(l, n))
        oracle("after", l=l, seq=seq, told=told, outstanding=outstanding)
    return lines, outs


def run(ctx):
    proof = core.prove(MODULES, leanchecker=ctx.thorough)
    corr = core.Corr("SequenceLearner~Seq.lean")
    failures = []
    cases = []
    hists = [gen_history(ctx.rng, max_ops=ctx.n(40, 120)) for _ in range(ctx.n(300, 5000))]
    nontrivial = set()
    for h in hists:
        orc = Oracle()
        try:
            lines, outs = execute(h, orc)
        except Exception as e:  # the real code raised on a valid history
            failures.append({"clause": "no_exception", "signature": f"C17.exception.{type(e).__name__}",
                             "detail": repr(e), "replay": h})
            continue
        if orc.fail:
            failures.append({"clause": orc.fail[0], "signature": f"C17.{orc.fail[0]}",
                             "detail": orc.fail[1], "replay": h})
        cases.append({"lines": lines, "impl": outs, "meta": h})
        kinds = {l.split()[1] for l in lines}
        for k in kinds:
            corr.count("op:" + k)
        corr.count("kind:" + h["kind"])
        corr.count("len:" + ("0" if h["n"] == 0 else "1-12" if h["n"] <= 12 else "50-200"))
        if {"ask", "tell"} <= kinds:
            nontrivial.add("\n".join(lines))
    nexh = 0
    for h in exhaustive_histories(ctx.n(4, 5)):
        orc = Oracle()
        try:
            lines, outs = execute_exhaustive(h, orc)
        except Exception as e:  # the real code raised on a valid history
            failures.append({"clause": "no_exception", "signature": f"C17.exception.{type(e).__name__}",
                             "detail": repr(e), "replay": h})
            continue
        nexh += 1
        if orc.fail:
            failures.append({"clause": orc.fail[0], "signature": f"C17.{orc.fail[0]}",
                             "detail": orc.fail[1], "replay": h})
        cases.append({"lines": lines, "impl": outs, "meta": h})
        nontrivial.add("\n".join(lines))
    corr.distribution["exhaustive_small_histories"] = nexh
    core.lockstep(corr, cases, canon_model=canon_model)
    return core.conclude(
        ctx, proof, [corr], failures,
        rule="seeded runner-like histories (asks of any size, out-of-order partial tells, tells of "
             "never-suggested indices, re-tells, discards; int/list/ndarray elements and lazily computed sequences whose element access fails once) plus every delivery "
             "order for n<=4 (quick) / n<=5 (thorough) with a discard at every position; non-trivial = "
             "distinct op-line sequence containing both ask and tell",
        samples=[c["lines"][:12] for c in cases[:3]],
        evaluations=len(cases), distinct=len(nontrivial),
        explanation="Seq.lean models SequenceLearner; Props/C17.lean proves the partition invariant, ask order, "
                    "no repeat between discards, done/loss/result statements for all op lists; the tie is the "
                    "lock-step correspondence on the histories counted here",
        trusted=core.COMMON_TRUSTED + ["hand-written model lean/AdaptiveModel/Seq.lean (tied by correspondence)",
                                       "sortedcontainers SortedSet/SortedDict ordering"],
        assumptions=["tells carry an index < len(sequence) (the property's quantifier)",
                     "explicit tell_pending only of elements without a result"],
    )


def replay(ctx, path):
    import json
    d = json.load(open(path))
    h = d.get("replay", d)
    orc = Oracle()
    lines, outs = (execute_exhaustive if any(o[0] == "tellidx" for o in h["ops"]) else execute)(h, orc)
    print("impl oracle:", orc.fail)
    mo = [canon_model(x) for x in core.run_driver(lines)]
    for a, b, c in zip(lines, outs, mo):
        print(("== " if b == c else "!= ") + a + "\n   impl  " + b + "\n   model " + c)
    return 1 if orc.fail else 0
