"""C01 — Learner1D: the reported loss is the true worst-interval loss of the current data.

proof:  lean/AdaptiveProofs/Props/C01.lean over AdaptiveModel/L1D.lean (ordered fields, any loss function)
tie:    real Learner1D in lock-step with the same definitions at Float, bit for bit (loss function as recorded oracle)
search: losses recomputed from learner.data with the learner's loss function at every admissible output range
"""
from __future__ import annotations

import json
import random
import warnings

from harness import core, l1d_drive, l1d_oracles

MODULES = ["AdaptiveProofs.Props.C01"]


def run_case(case):
    """execute one generated history on the real learner with the C01 oracle after every op"""
    warnings.simplefilter("ignore")
    fails = []
    box = {}

    def hook(l, info):
        if "o" not in box:
            box["o"] = l1d_oracles.C01Oracle(l, *case["bounds"], case["factor"], l.loss_per_interval.fn, l.nth_neighbors)
            box["k"] = 0
        box["k"] += 1
        if fails:
            return
        for cl, det in box["o"].check():
            fails.append((cl, f"after op {box['k']} ({info.get('op')}): {det}"))

    try:
        lines, outs, l, stats = l1d_drive.execute(case, hook=hook)
    except Exception as e:  # an exception inside the learner on a valid history
        import traceback
        tb = traceback.extract_tb(e.__traceback__)
        where = next((f"{f.filename.split('/')[-1]}:{f.name}" for f in reversed(tb) if "/adaptive/" in f.filename), "?")
        return {"lines": [], "impl": [], "meta": case, "fails": [("exception:" + type(e).__name__ + ":" + where, repr(e))], "stats": {}}
    o = box.get("o")
    st = dict(stats)
    if o:
        st.update(checked=o.checked, stale_hits=o.stale_hits, inf_loss=o.inf_loss_intervals, rescales=len(o.hist) - 1)
    return {"lines": lines, "impl": outs, "meta": case, "fails": fails, "stats": st}


def gen_cases(rng, n, nops):
    return [l1d_drive.gen_case(rng, nops) for _ in range(n)]


def collect(results, corr, failures, prop):
    for r in results:
        c = r["meta"]
        for k in ("loss", "fn"):
            corr.count(f"{k}:{c[k]}")
        corr.count(f"factor:{c['factor']}")
        for k, v in r["stats"].items():
            corr.count(k, int(v))
        for l in r["lines"]:
            corr.count("op:" + l.split()[1])
        for cl, det in r["fails"][:1]:
            sig = f"{prop}.{cl}"
            if cl == "loss_is_max_with_infinite_interval_loss":
                sig = f"{prop}.loss_is_max:loss_function_returns_inf"
            failures.append({"clause": cl, "signature": sig, "detail": det, "replay": {"case": c}})


TRUSTED = core.COMMON_TRUSTED + [
    "hand-written model AdaptiveModel/L1D.lean (tied bit-exactly to Learner1D on the generated histories)",
    "the loss function is an uninterpreted parameter of the theorems and a recorded oracle in the tie",
    "IEEE rounding is outside the theorems (ordered fields); sortedcontainers / ItemSortedDict ordering semantics",
]


def run(ctx):
    proof = core.prove(MODULES, extra_targets=["AdaptiveProofs.Examples.L1D"], leanchecker=ctx.thorough)
    failures = []
    corr = core.Corr("Learner1D~L1D.lean")
    cases = gen_cases(ctx.rng, ctx.n(160, 3000), ctx.n(50, 110))
    results = core.pmap(run_case, cases)
    collect(results, corr, failures, ctx.prop_id)
    live = [r for r in results if r["lines"]]
    core.lockstep(corr, live, canon_model=core.canon_bits, shards=16)
    if (not proof.ok or not corr.ok) and not failures:
        # deep search: the tie or a proof broke; look harder for a failing input on the real code
        extra = core.pmap(run_case, gen_cases(ctx.rng, ctx.n(600, 3000), 110))
        collect(extra, core.Corr("deep"), failures, ctx.prop_id)
    return core.conclude(
        ctx, proof, [corr], failures,
        rule="seeded Learner1D histories (ask/tell in and out of order, re-tells, unsuggested points, tiny intervals, pending marks, "
             "discards, batched tells incl. force=True, 6 shipped loss functions with 0/1 neighbours, scalar and 2/3-vector outputs, "
             "5 bounds of different magnitude, output ranges growing by up to 6 decades, recompute factor 1 and 2); "
             "non-trivial = distinct op-line sequence",
        samples=[r["lines"][:4] for r in live[:2]],
        evaluations=len(results), distinct=len(corr.distinct),
        explanation="Every op of every history is executed on the real learner and on the Lean model at Float; data, pending, both "
                    "loss tables (in container order) and both reported losses are compared bit for bit. The oracle recomputes each "
                    "interval loss from learner.data at every admissible output range, the proportional expected losses and the "
                    "reported maximum.",
        trusted=TRUSTED,
        assumptions=["points inside the bounds; finite values",
                     "generated histories batch only once both end points are known or pending (the property's proviso); the theorems no "
                     "longer need it (ValidOps = points in bounds, non-empty batches) and C02 generates the other histories"],
        partial=PARTIAL,
    )


PARTIAL = []


def replay(ctx, path):
    d = json.load(open(path))
    case = (d.get("replay") or {}).get("case")
    if not case:
        print(json.dumps(d, indent=1)[:3000])
        return 0
    case["bounds"] = tuple(case["bounds"])
    r = run_case(case)
    for cl, det in r["fails"]:
        print("FAIL", cl, det)
    corr = core.Corr("replay")
    if r["lines"]:
        core.lockstep(corr, [r], canon_model=core.canon_bits)
        for dd in corr.disagreements:
            print("DISAGREE op", dd["index"], dd["line"][:200], "\n impl ", dd["impl"][:600], "\n model", dd["model"][:600])
    return 1 if r["fails"] or corr.disagreements else 0
