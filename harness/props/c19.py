"""C19 — a runner's log replays to the same learner."""
from harness import runner_common as rc

MODULES = ["AdaptiveProofs.Props.C19"]


def run(ctx):
    return rc.run_check(
        ctx, MODULES, [("c19", rc.oracle_c19)], faults=False, real_time=True,
        explanation="same runner model with log=True; Props/C19.lean proves log = projection of the call trace, every "
                    "logged ask has n>=1, and that replaying the log then discarding equals the original learner for "
                    "every deterministic learner whose tell commutes with remove_unfinished (instance: SequenceLearner model); "
                    "runs with duration_goal on a real clock (thread pool, sleeping function) complement the deterministic schedules")


def replay(ctx, path):
    return rc.replay(ctx, path, [("c19", rc.oracle_c19)])
