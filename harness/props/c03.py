"""C03 — Triangulation: the simplices always tile the convex hull of the points.

proof:  lean/AdaptiveProofs/Props/C03.lean over AdaptiveModel/Tri.lean (combinatorial state of Triangulation; every geometric
        decision is an oracle, theorems hold for all oracles and all insertion sequences) + the algebraic volume-split identity
tie:    real Triangulation in lock-step with the model: dims 2-4, random / lattice / centroid+midpoint / co-spherical point
        sets, with and without hint simplex, identity and diagonal metrics up to ratio 100; after every add_point the
        simplices, vertex_to_simplices and the returned (deleted, added) must agree exactly; every predicate call of the code
        must be consumed by the model and vice versa
search: the statement itself on the real object with exact integer arithmetic after every insertion (harness/tri_drive.Audit)
"""
from __future__ import annotations

import json

from harness import core, tri_drive

MODULES = ["AdaptiveProofs.Props.C03", "AdaptiveProofs.Props.C03Dim3"]

PARTIAL = [
    "tiles_hull_statement (facets in <= 2 simplices, no orphan vertex, the simplices cover the hull without overlap, Delaunay for "
    "general position; exact predicates) is NOT proved as a whole. Proved of it: the index-agreement clause (tiles_hull_partial) and, "
    "in dimension 2 and 3, CONSERVATION OF VOLUME by the cavity retriangulation: for every accepted interior insertion of the model "
    "(bowyer_watson_exact: deleted = the bad simplices, added = hole faces ++ [pt]) the added simplices have exactly the total volume "
    "of the removed ones, given three geometric hypotheses about truthful predicates - removed simplices that share a facet lie on "
    "opposite sides of it and no facet is in more than two (OppositeSides), the new point sees every hole facet from the inside "
    "(star-shaped cavity), no removed simplex is degenerate (kernel-checked counterexample without it) - "
    "bowyer_watson_preserves_volume_2d/_3d, add_point_interior_preserves_volume_2d/_3d. Star-shapedness and non-degeneracy are DERIVED in "
    "dimension 2 and 3 from truthful in-circle / in-sphere answers (the work-list asks every neighbour of a deleted simplex) plus a locally "
    "Delaunay, genuine triangulation around the cavity (bowyer_watson_truthful_preserves_area_2d / _volume_3d; bridge to the "
    "implementation's centre-radius test at eps = 0). Still missing: OppositeSides and local Delaunay as INVARIANTS of the insertion "
    "sequence, the hull-extension path, cover / "
    "disjointness as sets, facet multiplicity of the new state, Delaunay. On the real code all clauses are audited exactly after "
    "every insertion, where they FAIL on degenerate / anisotropic inputs (known findings C03.tiling:*, "
    "C03.duplicate_rejected:vertex_located_in_foreign_simplex_within_eps). Proved for all oracles and sequences: index invariant, "
    "exact report, rejections are no-ops, no KeyError/IndexError.",
]


def gen_specs(rng, n, quick):
    specs = []
    for i in range(n):
        dim = rng.choice([2, 2, 3, 3, 4])
        family = rng.choice(tri_drive.FAMILIES)
        if quick:
            npts = rng.randrange(4, {2: 15, 3: 13, 4: 11}[dim])
        else:
            npts = rng.randrange(6, {2: 41, 3: 29, 4: 19}[dim])
        ratio = rng.choice([None, None, None, 2.0, 10.0, 100.0, round(10 ** rng.uniform(0, 2), 3)])
        if family == "random_multi":
            ratio = None  # a multi-simplex SciPy start is Delaunay in the euclidean metric only
        spec = {"seed": rng.randrange(1 << 40), "dim": dim, "family": family, "npts": npts, "ratio": ratio}
        if rng.random() < 0.3:
            # the same point set far from the origin (the properties are translation invariant)
            # (a multi-point start is triangulated by SciPy/Qhull, which loses its own precision at 1e5..1e6: moderate offsets there)
            offs = [0.0, 1024.0, -256.0, 37.0, 1000.0] + ([] if family == "random_multi" else [131072.0, -131072.0])
            spec["offset"] = [rng.choice(offs) for _ in range(dim)]
        if "offset" not in spec and rng.random() < 0.25:
            # the same point set at another length scale (a power of two; the property has no length scale).  Very small
            # scales only in 2-D: orientation() treats |det| < e^-50 as degenerate, an absolute cut (recorded under C12)
            ks = list(range(-8, 9)) + ([-24, -20] if dim == 2 else [])
            spec["scale"] = 2.0 ** rng.choice(ks)
        if family == "lattice" and ratio is None and "offset" not in spec and "scale" not in spec and rng.random() < 0.45:
            # an INTEGER lattice: the coordinates are Python ints (pixel / encoder counts) with a large spacing; the default metric
            # must treat them like the same floats (integer arithmetic on differences of 1e6..1e7 overflows in degree 3/4)
            spec["int_coords"] = {2: rng.choice([10 ** 6, 4 * 10 ** 6, 10 ** 7]), 3: rng.choice([30000, 10 ** 5]), 4: 1000}[dim]
        specs.append(spec)
    return specs


def corpus_cases():
    """minimised past failures (explicit cases); always run first"""
    d = core.VERIF / "corpus" / "C03"
    return [dict(json.load(open(f)), corpus=f.name) for f in sorted(d.glob("*.json"))] if d.is_dir() else []


def collect(results, corr, failures, prop):
    for r in results:
        for k, v in r["stats"].items():
            corr.count(k, int(v))
        for cl, det in r["fails"][:1]:
            failures.append({"clause": cl, "signature": f"{prop}.{cl}", "detail": det,
                             "replay": {"case": r["explicit"], "meta": r["meta"]}})


TRUSTED = core.COMMON_TRUSTED + [
    "hand-written model AdaptiveModel/Tri.lean (tied exactly to Triangulation on the generated insertion sequences)",
    "every geometric predicate (locate_point, get_reduced_simplex, orientation, _simplex_is_almost_flat, point_in_cicumcircle, "
    "work-list pop order) is an uninterpreted input of the theorems and a recorded oracle in the tie; SciPy's initial Delaunay",
    "the geometric half of the statement (tiling, Delaunay) is tested exactly on generated inputs, not proved",
    "hull volume in 3-D/4-D: SciPy ConvexHull facets, accepted only after an exact check that they bound the hull",
]


def run(ctx):
    proof = core.prove(MODULES, leanchecker=ctx.thorough)
    failures = []
    corr = core.Corr("Triangulation~Tri.lean")
    specs = corpus_cases() + gen_specs(ctx.rng, ctx.n(600, 3000), not ctx.thorough)
    results = core.pmap(tri_drive.run_case, specs)
    collect(results, corr, failures, ctx.prop_id)
    core.lockstep(corr, results, shards=16)
    if (not proof.ok or not corr.ok) and not failures:
        extra = core.pmap(tri_drive.run_case, gen_specs(ctx.rng, ctx.n(600, 3000), False))
        collect(extra, core.Corr("deep"), failures, ctx.prop_id)
    return core.conclude(
        ctx, proof, [corr], failures,
        rule="seeded insertion sequences into a real Triangulation: dims 2/3/4; families random, random with a multi-simplex SciPy "
             "start, lattice, centroid/edge-midpoint/facet-centroid/edge-extension, co-circular/co-spherical (exact integer points "
             "and rounded), mixed; deliberate duplicates; hints: none / located / arbitrary simplex / empty tuple; metric identity or "
             "diagonal with axis ratio up to 100; 30% of the point sets translated by up to 1e6 per axis, 20% rescaled by 2^-8..2^8 (2-D down to 2^-24); non-trivial = distinct op-line sequence",
        samples=[r["lines"][:3] for r in results[:2]],
        evaluations=sum(len(r["lines"]) for r in results), distinct=len(corr.distinct),
        explanation="Every add_point is executed on the real object with all predicate calls recorded and replayed on the Lean model "
                    "(simplices, vertex_to_simplices and the returned sets compared exactly; recorded calls must be consumed exactly). "
                    "The audit then evaluates the property on the real object with exact integer arithmetic: index agreement, facet "
                    "multiplicity <= 2, no orphan vertex, sum of simplex volumes = hull volume (2-D exact hull; 3/4-D SciPy facets "
                    "verified exactly) up to what slivers of relative volume < 1e-8 on the non-hull boundary facets can account for, "
                    "reported sets = actual difference, rejections leave the object unchanged, duplicates are rejected, distinct points "
                    "are accepted, volume() against the exact volume, empty circumspheres in the supplied metric for the general-position "
                    "families, and each recorded predicate answer against its exact value outside a 1e-6 guard band. A failure of the "
                    "tiling clauses is matched to a known finding only when its mechanism is confirmed in exact arithmetic (an in-circle "
                    "decision inside the 1e-8 band + the same sequence passing with the exact in-sphere test; a hole facet extended by "
                    "_extend_hull; a gap left by skipped slivers before the failing insertion; locate_point missing a simplex that "
                    "contains the point exactly).",
        trusted=TRUSTED,
        assumptions=["hint simplices are simplices of the triangulation, or the empty tuple for a point outside the hull (an empty-tuple "
                     "hint for an inside point that the code accepts ends the sequence without verdict)",
                     "one metric per sequence; a multi-simplex SciPy start only with the identity metric (it is Delaunay in the "
                     "euclidean metric only)",
                     "distinct points are farther than 1e-6 (relative to the extent of the point set) from every vertex",
                     "coordinates of order 1 (the e^-50 cut of orientation() is an absolute scale)"],
        partial=PARTIAL,
    )


def replay(ctx, path):
    d = json.load(open(path))
    rp = d.get("replay") or {}
    case = rp.get("case") or (rp.get("meta") if "seed" in (rp.get("meta") or {}) else None)
    if not case:
        print(json.dumps(d, indent=1)[:3000])
        return 0
    r = tri_drive.run_case(case)
    for cl, det in r["fails"]:
        print("FAIL", cl, det)
    corr = core.Corr("replay")
    if r["lines"]:
        core.lockstep(corr, [r])
    for dd in corr.disagreements:
        print("DISAGREE op", dd["index"], dd["line"][:300], "\n impl ", dd["impl"][:800], "\n model", dd["model"][:800])
    if corr.error:
        print("driver:", corr.error)
    return 1 if r["fails"] or corr.disagreements else 0
