"""C07 — IntegratorLearner survives any evaluation order and always covers the interval.

proof:  lean/AdaptiveProofs/Props/C07.lean over AdaptiveModel/Integ.lean (the bookkeeping; every oracle for the abscissae
        and for the numeric outcome of complete_process; every interleaving of ask / tell / tie re-ordering)
tie:    real IntegratorLearner under runner-like schedules in lock-step with the model (ask results incl. loss
        improvements, approximating intervals, npoints, done(), pending points, igral/err, error class of every call)
search: the property's clauses evaluated on the real learner after every operation of the same histories, of longer
        oracle-only histories, and of the regression corpus (minimised past failures)
"""
from __future__ import annotations

import json
import math
import warnings

from harness import core
from harness import integ_drive as D
from harness import integ_tables

MODULES = ["AdaptiveProofs.Props.C07"]

# minimised past failures; always run first.  `hist` = abstract history (see integ_drive.replay_history),
# `sequential` = "ask n, tell all in order" until done() or max_points
CORPUS = [
    {"name": "F3-same-interval-queued-twice (fixed in ec93fb4; masked by b8586d8)",
     "meta": {"family": "step03", "bounds": (-1.0, 1.0), "tol": 1e-8, "max_ivals": 1000, "fseed": 0},
     "hist": [["ask", 18, 1], ["ask", 33, 1]] + [["tell", k] for k in
              [46, 43, 16, 44, 36, 50, 42, 40, 48, 49, 47, 41, 39, 45, 37, 8, 38]] + [["ask", 7, 1]]},
    {"name": "dropped-interval-completes-with-force-split (assert ival in self.ivals; fixed in b8586d8), max_ivals=3",
     "meta": {"family": "step03", "bounds": (-1.0, 1.0), "tol": 1e-10, "max_ivals": 3, "fseed": 0},
     "sequential": 5, "max_points": 1200},
    {"name": "dropped-interval-completes-with-force-split (assert ival in self.ivals; fixed in b8586d8), default configuration",
     "meta": {"family": "isqrt03", "bounds": (-1.0, 1.0), "tol": 1e-10, "max_ivals": 1000, "fseed": 0},
     "sequential": 17, "max_points": 3000},
    {"name": "queued-interval-dropped-before-the-next-request (KeyError in _fill_stack), max_ivals=2",
     "meta": {'seed': 261, 'family': 'sing_in', 'bounds': [-1.0, 1.0], 'tol': 1.6922993682080916e-09, 'max_ivals': 2, 'fseed': 565305290},
     "hist": [['ask', 40, 1], ['tell', 12], ['tell', 8], ['tell', 6], ['tell', 10], ['tell', 5], ['tell', 33], ['tell', 37], ['tell', 1], ['tell', 14], ['tell', 34], ['tell', 4], ['tell', 38], ['tell', 13], ['tell', 0], ['tell', 7], ['tell', 9], ['tell', 2], ['tell', 3], ['tell', 36], ['tell', 39], ['tell', 11], ['tell', 35], ['tell', 15], ['tell', 16], ['ask', 7, 1], ['tell', 44], ['tell', 41], ['tell', 43], ['tell', 40], ['tell', 46], ['tell', 45], ['tell', 42], ['ask', 7, 1]]},
    {"name": "two-queued-forced-splits-die-before-the-next-request (both halves of a late, converged parent; the skip loop of b8586d8)",
     "meta": {"family": "three_peaks", "bounds": (0.0, 1.0), "tol": 1e-12, "max_ivals": 1000, "fseed": 0},
     "hist": [["ask", 33, 1]] + [["tell", k] for k in range(33)] + [["ask", 6, 1]] + [["tell", k] for k in range(33, 39)]
             + [["ask", 34, 1], ["ask", 4, 1]] + [["tell", k] for k in (70, 71, 72)] + [["ask", 4, 1]]
             + [["tell", k] for k in (67, 68, 69, 77, 78, 79, 80, 73, 74, 75, 76)] + [["tell", k] for k in range(39, 67)]
             + [["ask", 3, 1]] + [["tell", k] for k in (81, 82, 83)] + [["ask", 7, 1]]},
    {"name": "ask-does-not-return (min_sep test was one-sided for negative abscissae; fixed in 367d180)",
     "meta": {"family": "isqrt_left_end", "bounds": (-1.0, 1.0), "tol": 1e-10, "max_ivals": 1000, "fseed": 0},
     "sequential": 17, "max_points": 5000},
]


def run_sequential(entry):
    s = D.make_session(entry["meta"])
    n = entry["sequential"]
    while len(s.handed) < entry["max_points"] and not s.fails:
        if s.canonical_done():
            break
        r, pts = s.ask(n)
        s.hist.append(["ask", n, 1])
        if r != "ok":
            break
        for x in pts:
            if s.tell(x) != "ok":
                break
    return s


def corpus_case(k):
    warnings.simplefilter("ignore")
    e = CORPUS[k]
    s = run_sequential(e) if "sequential" in e else D.replay_history(e["meta"], e["hist"])
    return {"name": e["name"], "fails": s.fails, "k": k, "npoints": s.l.npoints}


def corr_case(arg):
    """one seeded history on the real learner: protocol lines + expected outputs + the property audit"""
    seed, max_points = arg
    warnings.simplefilter("ignore")
    s = D.run_history(seed, max_points)
    rep = None
    if s.fails:
        rep = {"meta": s.meta, "hist": s.hist}
        if not any(op[0] == "ask" and not op[2] for op in s.hist):  # address-dependent after a rolled-back ask
            sig = s.fails[0][1]
            try:
                rep["hist"] = D.shrink(s.meta, s.hist, lambda t: any(f[1] == sig for f in t.fails), budget=150)
            except Exception:  # noqa: BLE001
                pass
    return {"lines": s.lines, "impl": s.outs, "meta": {**{k: (list(v) if isinstance(v, tuple) else v) for k, v in s.meta.items()}},
            "stats": s.stats, "fails": s.fails, "replay": rep, "npoints": s.l.npoints, "nivals_total": len(s.ids)}


def collect(results, corr, failures):
    for r in results:
        m = r["meta"]
        corr.count("family:" + m["family"])
        corr.count(f"max_ivals:{m['max_ivals']}")
        corr.count(f"stop:{m.get('stop')}")
        corr.count("tol:1e%d" % math.floor(math.log10(m["tol"])))
        for k, v in r["stats"].items():
            corr.count(k, int(v))
        corr.count("intervals_created", r["nivals_total"])
        corr.count("points_evaluated", r["npoints"])
        for cl, sig, det in r["fails"][:1]:
            failures.append({"clause": cl, "signature": sig, "detail": det, "replay": r["replay"]})


TRUSTED = core.COMMON_TRUSTED + [
    "hand-written model AdaptiveModel/Integ.lean of the bookkeeping, tied to IntegratorLearner on the generated histories",
    "everything numeric (abscissae of an interval, igral/err/force_split/remove/div of complete_process) is an uninterpreted "
    "oracle in the theorems and a table recorded on the real code in the tie (recording wrappers in harness/integ_drive.py)",
    "model constants ns=(5,9,17,33), ndiv_max=20 are asserted against adaptive.learner.integrator_coeffs at run time",
    "node tables: harness/integ_tables.py dumps integrator_coeffs.xi (bit patterns + exact dyadic rationals) into "
    "AdaptiveModel/Gen/IntegTables.lean before every proof build and asserts that _Interval.points is "
    "(a+b)/2 + (b-a)*xi[depth]/2 elementwise; `Nested` is proved for that oracle (integ_no_internal_error_tables)",
    "CPython set/dict semantics, sortedcontainers.SortedSet(key=rdepth) ordering; the order of equal-rdepth members after the deep "
    "copy of a rolled-back ask is taken from the code (relational `reorder` event; theorems hold for every order)",
]
PARTIAL = []  # integ_cut_partition is proved in full; integ_cut_partition_partial (soundness of cutOK) is kept as a lemma


def run(ctx):
    failures = []
    # --- node tables of the live integrator_coeffs -> lean/AdaptiveModel/Gen/IntegTables.lean (before the proof build: the
    #     `decide` proofs of Lemmas/IntegNested.lean are then re-checked against what the code computes with NOW)
    try:
        tables_changed, _ = integ_tables.generate()
        tables_note = "regenerated (differs from the committed file)" if tables_changed else "up to date"
    except AssertionError as e:
        tables_note = f"generator assertion failed: {e}"
        failures.append({"clause": "node_tables", "signature": "C07.node_tables:generator-assertion",
                         "detail": f"harness/integ_tables.py: {e}", "replay": {"cmd": "python -m harness.integ_tables"}})
    proof = core.prove(MODULES, leanchecker=ctx.thorough)
    # --- regression corpus on the real code
    cres = core.pmap(corpus_case, list(range(len(CORPUS))))
    for r in cres:
        for cl, sig, det in r["fails"][:1]:
            failures.append({"clause": cl, "signature": sig, "detail": f"corpus `{r['name']}`: {det}",
                             "replay": {"corpus": r["k"]}})
    # --- lock-step + audit on the same histories
    corr = core.Corr("IntegratorLearner~Integ.lean")
    args = [(ctx.rng.randrange(1 << 30), ctx.rng.choice([60, 150, 300, ctx.n(400, 800)])) for _ in range(ctx.n(150, 3000))]
    results = core.pmap(corr_case, args)
    collect(results, corr, failures)
    core.lockstep(corr, results, canon_model=None, shards=16, timeout=ctx.n(150, 1500))
    # --- oracle-only histories (longer; deeper trees, more pruning) — more of them when the proof or the tie broke
    deep = (not proof.ok or not corr.ok) and not failures
    n_extra = ctx.n(60, 600) * (4 if deep else 1)
    extra = core.pmap(corr_case, [(ctx.rng.randrange(1 << 30), ctx.n(1500, 3000)) for _ in range(n_extra)])
    ecorr = core.Corr("oracle-only")
    collect(extra, ecorr, failures)
    return core.conclude(
        ctx, proof, [corr], failures,
        rule="seeded runner-like histories of the real IntegratorLearner: requests of 1-40 points (committing, and rolled back), "
             "partial shuffled delivery, foreign abscissae, 11 integrand families (smooth, polynomial, peaked, jump, kink, end-point and "
             "interior singularities, non-finite values, oscillatory, zero, divergent), 7 ranges, tol 1e-10..1e-3, max_ivals 1000/12/6/3; "
             "non-trivial = distinct op-line sequence",
        samples=[r["lines"][-3:] for r in results[:2]],
        evaluations=len(results) + len(extra) + len(cres), distinct=len(corr.distinct),
        explanation="Every operation is executed on the real learner and on the Lean bookkeeping model; the model receives the "
                    "abscissae of each interval and the numeric outcome of each complete_process call as recorded tables and must "
                    "reproduce the returned points and loss improvements, the sequence of complete_process calls, the approximating "
                    "intervals, npoints, pending points, done(), igral/err (summed in interval-number order) and the error class. "
                    "The oracle evaluates the property's clauses on the real object after every operation.",
        trusted=TRUSTED,
        assumptions=["theorem integ_no_internal_error: nested abscissae (hypothesis `Nested`; discharged for the real node tables "
                     "by integ_no_internal_error_tables / integ_node_tables)", "tells carry abscissae handed out by ask (foreign abscissae only in the separate rejected-tell stream)",
                     "histories stop at the first internal error / divergence / NaN error estimate (max() over a hash set with NaN keys "
                     "is iteration-order dependent)",
                     "`from the moment the first rule is complete` is read as `whenever the set of approximating intervals is "
                     "non-empty` (the first interval's 17-point rule deliberately yields no estimate)"],
        extra={"node_tables": tables_note, "oracle_only": {"cases": len(extra), "distribution": ecorr.distribution},
               "corpus": [{"name": r["name"], "npoints": r["npoints"], "fails": [f[1] for f in r["fails"]]} for r in cres]},
        partial=PARTIAL,
    )


def replay(ctx, path):
    d = json.load(open(path))
    rp = d.get("replay") or {}
    warnings.simplefilter("ignore")
    if "corpus" in rp:
        r = corpus_case(int(rp["corpus"]))
        for f in r["fails"]:
            print("FAIL", *f)
        return 1 if r["fails"] else 0
    if "hist" in rp:
        meta = dict(rp["meta"])
        meta["bounds"] = tuple(meta["bounds"])
        s = D.replay_history(meta, rp["hist"])
        for f in s.fails:
            print("FAIL", *f)
        corr = core.Corr("replay")
        core.lockstep(corr, [{"lines": s.lines, "impl": s.outs}])
        for dd in corr.disagreements:
            print("DISAGREE op", dd["index"], dd["line"][:200], "\n impl ", dd["impl"][:600], "\n model", dd["model"][:600])
        return 1 if s.fails or corr.disagreements else 0
    print(json.dumps(d, indent=1)[:3000])
    return 0
