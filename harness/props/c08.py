"""C08 — IntegratorLearner: converged integrals are right and match Gonnet's algorithm 4.   level: other (partial)

proof:  lean/AdaptiveProofs/Props/C08.lean —
        (1) real-analysis skeleton (Mathlib intervalIntegral): partition + per-interval validity of the estimator
            (HYPOTHESIS, unproved) => |∫f − Σ igral_I| ≤ Σ err_I, and with the done() disjunct ≤ max(err, tol·|igral|).
            Nothing about Gonnet's estimator or floating point is proved.
        (2) the exact coefficient tables of adaptive/learner/integrator_coeffs.py: harness/integ_tables.py dumps them from
            the LIVE module into lean/AdaptiveModel/Gen/QuadTables.lean on every run; kernel computations prove
            legendre(34) orthogonal with ∫P_n² = 2/(2n+1) and equal to Bonnet's recursion, xi antisymmetric / nested /
            sorted, newton(n) = (X²−1)U_{n−2}/2^{n−2} vanishing on the Clenshaw–Curtis nodes, the exact integrals behind
            b_def.  A change of the source changes the generated file and breaks these theorems.
tables: read-back of the generated file against the live module, and a python oracle of the same statements on the live
        module (exact with Fractions where the code is exact, loose tolerances for the floating-point tables).
diff:   sequential feeding of the real IntegratorLearner against adaptive/tests/algorithm_4.py for the same number
        of evaluations (protocol of adaptive/tests/test_cquad.py: n times ask(1)+tell), igral/err to 1e-7 relative;
        the reference is also stopped after a bounded number of loops, which compares intermediate states.
search: 8 parameterised families with closed-form integrals, sequential and shuffled/partial delivery; when done():
        |igral − exact| ≤ max(err, tol·|exact|) + 1e-13·max(1,|exact|).
"""
from __future__ import annotations

import json
import math
import random
import warnings
from fractions import Fraction

import numpy as np

from harness import core, integ_tables

MODULES = ["AdaptiveProofs.Props.C08"]
# lemma modules of the coefficient-table theorems (imported by Props/C08.lean; named here so that they are explicit build targets)
TABLE_MODULES = ["AdaptiveProofs.Lemmas.QuadTablesPoly", "AdaptiveProofs.Lemmas.QuadTablesLeg",
                 "AdaptiveProofs.Lemmas.QuadTablesXi", "AdaptiveProofs.Lemmas.QuadTablesBdef"]
TABLE_THEOREMS = ["legendre_table_orthogonal", "legendre_table_orthogonal_integral", "inner_is_integral", "inner_is_integ_pmul",
                  "legendre_table_recurrence", "legendre_table_eq_classical", "legendre_table_recurrence_eval",
                  "xi_antisymmetric", "xi_nested", "xi_sorted", "xi_shape", "xi_bits_exact",
                  "newton_table_is_cc_nodal_poly", "newton_table_vanishes_on_nodes", "xi_newton_residual",
                  "bdef_integrals_exact", "quad_constants"]
FAMILIES = ["poly", "exp", "osc", "lorentz", "gauss", "sqrt_sing", "two_sing", "holes", "kink", "jump"]
# (the second half: ranges whose end points and midpoints are NOT dyadic - (a+b)/2 -/+ (b-a)/2 is then one ulp off a and b, which
# made child intervals re-evaluate their parent's end points until the repair c7c4136)
RANGES = [(-1.0, 1.0), (0.0, 1.0), (0.0, 3.5), (-2.0, 5.0), (0.1, 1.3), (-0.3, 1.1), (0.07, 2.9), (-1.7, 0.3)]
SLACK = 1e-13


def _imports():
    import adaptive.learner.integrator_learner as il
    from adaptive.tests import algorithm_4 as a4
    return il, a4


# ---------------------------------------------------------------------------- integrand families
def make_family(fam, rng, reference=False):
    """-> (f vectorised over numpy arrays and scalars, a, b, exact integral, parameter dict)"""
    a, b = rng.choice(RANGES)
    if reference and fam in ("sqrt_sing", "two_sing", "holes") and (a, b) not in RANGES[:4]:
        # the REFERENCE algorithm_4 recomputes the end points of child intervals as (a+b)/2 -/+ (b-a)/2 and copies the parent's values
        # by index: on a non-dyadic range it evaluates an integrand that is non-finite exactly at a node one ulp beside the node
        # (f = 1e8 instead of inf). Families with non-finite nodes are compared with the reference on dyadic ranges only.
        a, b = rng.choice(RANGES[:4])
    p = {"a": a, "b": b}
    if fam == "poly":
        deg = rng.randrange(0, 13)
        cs = [rng.uniform(-1, 1) for _ in range(deg + 1)]  # c_0 + c_1 x + …
        p.update(deg=deg, coeffs=cs)
        hi = np.array(cs[::-1])
        fa, fb = Fraction(a), Fraction(b)
        exact = float(sum(Fraction(c) * (fb ** (k + 1) - fa ** (k + 1)) / (k + 1) for k, c in enumerate(cs)))
        return (lambda x: np.polyval(hi, x)), a, b, exact, p
    if fam == "exp":
        k = rng.choice([-1, 1]) * rng.uniform(0.1, 3.0)
        A = rng.uniform(0.2, 3.0)
        p.update(k=k, A=A)
        exact = A * math.exp(k * a) * math.expm1(k * (b - a)) / k
        return (lambda x: A * np.exp(k * x)), a, b, exact, p
    if fam == "osc":
        w = rng.uniform(0.5, 40.0 / (b - a))
        ph = rng.uniform(0, 2 * math.pi)
        A = rng.uniform(0.2, 2.0)
        c0 = rng.choice([0.0, rng.uniform(0.5, 2.0)])
        p.update(w=w, phase=ph, A=A, c0=c0)
        exact = c0 * (b - a) + A * (math.cos(w * a + ph) - math.cos(w * b + ph)) / w
        return (lambda x: c0 + A * np.sin(w * x + ph)), a, b, exact, p
    if fam == "lorentz":
        c = rng.uniform(a, b)
        g = 10 ** rng.uniform(-2, 0)
        p.update(c=c, g=g)
        exact = (math.atan((b - c) / g) - math.atan((a - c) / g)) / g
        return (lambda x: 1.0 / ((x - c) ** 2 + g * g)), a, b, exact, p
    if fam == "gauss":
        c = rng.uniform(a, b)
        s = 10 ** rng.uniform(-1.7, 0)
        p.update(c=c, s=s)
        r2 = s * math.sqrt(2)
        exact = s * math.sqrt(math.pi / 2) * (math.erf((b - c) / r2) - math.erf((a - c) / r2))
        return (lambda x: np.exp(-((x - c) ** 2) / (2 * s * s))), a, b, exact, p
    if fam == "sqrt_sing":
        A = rng.uniform(0.2, 2.0)
        c0 = rng.choice([0.0, rng.uniform(-1.0, 1.0)])
        p.update(A=A, c0=c0)
        exact = 2 * A * math.sqrt(b - a) + c0 * (b - a)

        def f(x):
            with np.errstate(divide="ignore", invalid="ignore"):
                return c0 + A / np.sqrt(x - a)  # +inf at the left end point

        return f, a, b, exact, p
    if fam == "two_sing":
        # integrable singularities at BOTH end points: two non-finite nodes in one interval (each is down-dated in turn)
        A = rng.uniform(0.2, 2.0)
        c0 = rng.choice([0.0, rng.uniform(-1.0, 1.0)])
        p.update(A=A, c0=c0)
        exact = A * math.pi + c0 * (b - a)

        def f2(x):
            with np.errstate(divide="ignore", invalid="ignore"):
                return c0 + A / np.sqrt((x - a) * (b - x))  # +inf at both end points

        return f2, a, b, exact, p
    if fam == "holes":
        # a smooth integrand that is not defined (NaN) at isolated nodes: both end points and the mid point
        k = rng.choice([-1, 1]) * rng.uniform(0.1, 2.0)
        A = rng.uniform(0.2, 3.0)
        p.update(k=k, A=A)
        exact = A * math.exp(k * a) * math.expm1(k * (b - a)) / k
        mid = (a + b) / 2
        holes = [a, b] + ([mid] if rng.random() < 0.5 else [])

        def f3(x):
            y = A * np.exp(k * np.asarray(x, dtype=float))
            y = np.where(np.isin(np.asarray(x, dtype=float), holes), np.nan, y)
            return y if np.ndim(x) else float(y)

        return f3, a, b, exact, p
    if fam == "kink":
        c = rng.uniform(a, b)
        A = rng.uniform(0.2, 2.0)
        c0 = rng.choice([0.0, rng.uniform(0.0, 1.0)])
        p.update(c=c, A=A, c0=c0)
        exact = A * ((c - a) ** 2 + (b - c) ** 2) / 2 + c0 * (b - a)
        return (lambda x: c0 + A * np.abs(x - c)), a, b, exact, p
    if fam == "jump":
        c = rng.uniform(a, b)
        h1, h2 = rng.uniform(-2, 2), rng.uniform(-2, 2)
        if abs(h1 * (c - a) + h2 * (b - c)) < 0.05:
            h2 += 1.0
        p.update(c=c, h1=h1, h2=h2)
        exact = h1 * (c - a) + h2 * (b - c)
        return (lambda x: np.where(x < c, h1, h2) + 0.0), a, b, exact, p
    raise ValueError(fam)


# ---------------------------------------------------------------------------- (b) closed-form oracle
def closed_case(arg):
    fam, seed, cap = arg
    warnings.simplefilter("ignore")
    il, _ = _imports()
    rng = random.Random(f"{fam}-{seed}")
    f, a, b, exact, p = make_family(fam, rng)
    # the property is about a RELATIVE tolerance: the same integrand in very small or very large units
    amp = rng.choice([1.0] * 8 + [1e-170, 1e-120, 1e120])
    if amp != 1.0:
        f0, exact = f, exact * amp
        f = lambda x, f0=f0: amp * f0(x)  # noqa: E731
        p["amplitude"] = amp
    tol = 10 ** rng.uniform(-10, -3)
    mode = rng.choice(["sequential", "shuffled", "shuffled", "children_first", "late_by_generation"])
    res = {"family": fam, "seed": seed, "cap": cap, "mode": mode, "tol": tol, "params": p, "exact": exact,
           "end": "cap", "fail": None, "ratio": None, "npoints": 0}
    learner = il.IntegratorLearner(f, bounds=(a, b), tol=tol)
    outstanding = []
    try:
        while learner.npoints < cap:
            n = rng.randrange(1, 41)
            pts, _ = learner.ask(n)
            if mode == "sequential":
                for x in pts:
                    learner.tell(x, float(f(x)))
            elif mode == "late_by_generation":
                # one large request served breadth first over several generations of intervals; everything comes back except a
                # few values per interval - those only the interval's own rules need - which arrive last, oldest generation first
                # (many workers, a few slow evaluations)
                more, _ = learner.ask(rng.choice([90, 150, 243, 300]))
                pts = list(pts) + list(more)
                asked = set(pts)
                ivs = sorted({iv for x in pts for iv in learner.x_mapping.get(x, ())}, key=lambda iv: (iv.rdepth, iv.a))
                held = []
                for iv in ivs:
                    gen = iv.rdepth - ivs[0].rdepth                       # 0 for the first interval, 1 for its halves, ...
                    d = 3 if (gen == 0 and rng.random() < 0.7) else rng.choice([max(0, gen - 1), max(0, gen - 1), 0, 1, 2])
                    try:
                        nodes = [x for x in iv.points(d) if x in asked and (d == 0 or x not in set(iv.points(d - 1)))]
                    except Exception:  # noqa: BLE001
                        nodes = []
                    nodes = [x for x in nodes if x not in held]
                    if not nodes or rng.random() < 0.15:
                        continue
                    held += nodes if (gen == 0 and d == 3) else [nodes[min(1, len(nodes) - 1)] if rng.random() < 0.6 else rng.choice(nodes)]
                hs = set(held)
                for x in pts:
                    if x not in hs:
                        learner.tell(x, float(f(x)))
                for x in held:
                    learner.tell(x, float(f(x)))
            elif mode == "children_first":
                # large requests; the values of the deepest intervals arrive first, those that only an ancestor's rule needs
                # arrive last (a few stay outstanding): children complete before their parents do
                if rng.random() < 0.5:
                    more, _ = learner.ask(rng.choice([60, 120, 200]))
                    pts = list(pts) + list(more)
                outstanding += list(pts)

                def depth_of(x):
                    return min((iv.rdepth for iv in learner.x_mapping.get(x, ())), default=0)

                outstanding.sort(key=lambda x: (-depth_of(x), rng.random()))
                k = max(1, len(outstanding) - rng.choice([0, 0, 1, 3]))
                for x in outstanding[:k]:
                    learner.tell(x, float(f(x)))
                outstanding = outstanding[k:]
            else:
                outstanding += list(pts)
                rng.shuffle(outstanding)
                k = rng.randrange(max(1, len(outstanding) // 2), len(outstanding) + 1)
                for x in outstanding[:k]:
                    learner.tell(x, float(f(x)))
                outstanding = outstanding[k:]
            if learner.done():
                res["end"] = "done"
                break
    except il.DivergentIntegralError:
        res["end"] = "divergent"
    except RuntimeError as e:
        if "No way to improve" not in str(e):
            raise
        res["end"] = "no_way_to_improve"
        if learner.done():
            res["end"] = "done"
    res["npoints"] = learner.npoints
    res["outstanding"] = len(outstanding)
    if res["end"] == "done":
        igral, err = float(learner.igral), float(learner.err)
        bound = max(err, tol * abs(exact)) + SLACK * max(res["params"].get("amplitude", 1.0), abs(exact))
        dev = abs(igral - exact)
        res.update(igral=igral, err=err, dev=dev, bound=bound,
                   ratio=(dev / bound if math.isfinite(dev) else math.inf),
                   removed=sum(1 for i in learner.approximating_intervals if i.removed))
        if not dev <= bound:
            res["fail"] = (f"{fam} {p} tol={tol:.3e} delivery={mode}: done() after {learner.npoints} evaluations with igral={igral!r} "
                           f"err={err!r} but exact={exact!r}: |igral-exact|={dev:.3e} > max(err, tol*|exact|)+slack={bound:.3e}")
    return res


# ---------------------------------------------------------------------------- (a) differential vs algorithm_4
def close_val(x, y, scale_abs):
    if x == y or (math.isnan(x) and math.isnan(y)):
        return True, 0.0
    d = abs(x - y)
    rel = d / max(abs(x), abs(y), 1e-300)
    return d <= scale_abs, rel


def diff_case(arg):
    """arg = (name, seed, n_loops); name is a fixed test-suite integrand or a family with seeded parameters"""
    name, seed, n_loops = arg
    warnings.simplefilter("ignore")
    il, a4 = _imports()
    rng = random.Random(f"diff-{name}-{seed}")
    fixed = {
        "f0": (a4.f0, 0, 3, 1e-5), "f7": (a4.f7, 0, 1, 1e-6), "f21": (a4.f21, 0, 1, 1e-3), "f24": (a4.f24, 0, 3, 1e-3),
        "f63": ((lambda x: a4.f63(x, 0.987654321, 0.45)), 0, 1, 1e-10), "fdiv": (a4.fdiv, 0, 1, 1e-6),
        "f63b": ((lambda x: a4.f63(x, -0.5, 0.3)), 0, 1, 1e-8),
        # inverse square root with the singular (non-finite) node at the abscissa 0 and a tight tolerance: the intervals next to
        # 0 shrink by 40 binades; the "too narrow" test is RELATIVE to the abscissa, so [0, w] is never too narrow (as in Gonnet)
        "isqrt0": ((lambda x: 1.0 / np.sqrt(x)), 0, 1, 1e-9),
        "isqrt0b": ((lambda x: 0.5 + 3.0 / np.sqrt(x)), 0, 3.5, 1e-8),
    }
    if name in fixed:
        f, a, b, tol = fixed[name]
        p = {}
    else:
        f, a, b, _, p = make_family(name, rng, reference=True)
        tol = 10 ** rng.uniform(-10, -3)
    res = {"name": name, "seed": seed, "n_loops": n_loops, "tol": tol, "params": p, "a": a, "b": b, "fail": None,
           "ref": None, "rel_igral": 0.0, "rel_err": 0.0}
    ref_div = False
    with np.errstate(all="ignore"):
        try:
            # "to convergence" is capped: for a singular end point at a negative abscissa the reference never drops the too-narrow
            # interval (its test lacks abs()) and would loop for ever; the comparison stays at equal evaluation counts
            igral, err, n, rivals = a4.algorithm_4(f, a, b, tol, n_loops if n_loops else 1000)
            # the reference dropped an interval (too narrow / error at rounding level / more than max_ivals) iff it carries excess
            res["ref_dropped"] = bool(not rivals or err - sum(iv.err for iv in rivals) > 1e-9 * err)
        except a4.DivergentIntegralError as e:
            ref_div, n = True, e.nr_points
            igral = err = math.nan
    res["ref"] = "divergent" if ref_div else "value"
    res["n"] = int(n)
    learner = il.IntegratorLearner(f, bounds=(a, b), tol=tol)
    l_div = False
    try:
        with np.errstate(all="ignore"):
            for _ in range(n):  # protocol of test_cquad.run_integrator_learner
                pts, _ = learner.ask(1)
                learner.tell_many(pts, [f(x) for x in pts])
    except il.DivergentIntegralError:
        l_div = True
    except RuntimeError as e:
        if "No way to improve" not in str(e):
            raise
        res["stopped"] = "no_way_to_improve"
    res["npoints"] = learner.npoints
    res["learner"] = "divergent" if l_div else "value"
    if ref_div or l_div:
        if ref_div != l_div:
            res["fail"] = (f"{name} {p} [{a},{b}] tol={tol:.3e}: reference {'raises' if ref_div else 'does not raise'} "
                           f"DivergentIntegralError within {n} evaluations, learner {'raises' if l_div else 'does not'}")
        return res
    li, le = float(learner.igral), float(learner.err)
    igral, err = float(igral), float(err)
    ok_i, rel_i = close_val(li, igral, 1e-7 * max(1.0, abs(igral)))
    if abs(le) < 1e-13 and abs(err) < 1e-13:
        ok_e, rel_e = True, 0.0
    else:
        # rounding floor: intervals whose error estimate is at eps*|igral_I| are dropped/kept on a knife edge, which moves
        # err by a few eps*|igral| (test-suite integrand f63, tol 1e-10: |Δerr| = 5.6e-18 = 2e-7 relative to err = 2.5e-11)
        ok_e, rel_e = close_val(le, err, 1e-7 * max(abs(err), abs(le)) + 64 * 2.3e-16 * max(1.0, abs(igral)))
    res.update(rel_igral=rel_i, rel_err=rel_e, igral=li, err=le, ref_igral=igral, ref_err=err)
    res["learner_dropped"] = any(i.removed or (not i.children and i not in learner.ivals) for i in learner.approximating_intervals)
    res["dropped"] = bool(res.get("ref_dropped") or res["learner_dropped"])
    if learner.npoints != n:
        res["fail"] = f"{name} {p}: learner holds {learner.npoints} evaluations after {n} single-point asks"
    elif not (ok_i and ok_e):
        res["fail"] = (f"{name} {p} [{a},{b}] tol={tol:.3e} after {n} evaluations (reference loops={n_loops or 'to convergence'}): "
                       f"learner igral={li!r} err={le!r}, algorithm_4 igral={igral!r} err={err!r} "
                       f"(relative deviation {rel_i:.2e} / {rel_e:.2e})")
    return res


# ---------------------------------------------------------------------------- coefficient tables
_LEAN_DEF = r"def {name} : List \(List (?:Int|Nat)\) := \[\n(.*?)\]\n\n"


def _read_generated():
    """parse the integer tables back out of Gen/QuadTables.lean (independent of the renderer's data structures)"""
    import re
    text = integ_tables.QUAD_TARGET.read_text()
    out = {}
    for name in ("legNum", "newtonNum", "xiBits", "xiNum", "bdefNum"):
        m = re.search(_LEAN_DEF.format(name=name), text, re.S)
        out[name] = [[int(t) for t in row.strip().rstrip(",").strip("[]").split(",") if t.strip()]
                     for row in m.group(1).split("\n")] if m else None
    for name in ("legDen", "newtonDen", "bdefDen", "ns"):
        m = re.search(rf"def {name} : List Nat := \[(.*?)\]", text)
        out[name] = [int(t) for t in m.group(1).split(",")] if m else None
    for name in ("xiDen", "ndivMax", "epsBits", "hintBits", "minSepBits"):
        m = re.search(rf"def {name} : Nat := (\d+)", text)
        out[name] = int(m.group(1)) if m else None
    return out


def tables_readback(corr):
    """generated file  ~  live module: every number of the file, read back and compared with the value the live module
    computes now (Fractions exactly, doubles by bit pattern)."""
    g = _read_generated()
    m = integ_tables.load_live()
    rows = []  # (label, from file, from live module)
    leg = m.legendre(integ_tables.N_LEGENDRE)
    rows.append(("legendre: number of rows", len(g["legNum"] or []), len(leg)))
    for n, p in enumerate(leg):
        got = [Fraction(a, g["legDen"][n]) for a in g["legNum"][n]] if g["legNum"] and n < len(g["legNum"]) else None
        rows.append((f"legendre[{n}]", got, [Fraction(c) for c in p]))
    rows.append(("ns", g["ns"], [int(n) for n in m.ns]))
    for r, n in enumerate(m.ns):
        got = [Fraction(a, g["newtonDen"][r]) for a in g["newtonNum"][r]] if g["newtonNum"] and r < len(g["newtonNum"]) else None
        rows.append((f"newton({n})", got, [Fraction(float(c)) for c in m.newton(n)]))
        gx = g["xiNum"][r] if g["xiNum"] and r < len(g["xiNum"]) else None
        rows.append((f"xi[{r}] exact", [Fraction(a, g["xiDen"]) for a in gx] if gx is not None else None,
                     [Fraction(float(v)) for v in m.xi[r]]))
        rows.append((f"xi[{r}] bits", g["xiBits"][r] if g["xiBits"] and r < len(g["xiBits"]) else None,
                     [core.f2b(v) for v in m.xi[r]]))
    legs = m.legendre(max(int(n) for n in m.ns) + 1)
    for r, n in enumerate(m.ns):
        gb = g["bdefNum"][r] if g["bdefNum"] and r < len(g["bdefNum"]) else None
        a_ = list(map(Fraction, m.newton(n)))
        rows.append((f"scalar_product(newton({n}), P_k)", [Fraction(v, g["bdefDen"][r]) for v in gb] if gb is not None else None,
                     [Fraction(m.scalar_product(a_, b_)) for b_ in legs[: n + 1]]))
    rows.append(("ndiv_max", g["ndivMax"], int(m.ndiv_max)))
    rows.append(("eps bits", g["epsBits"], core.f2b(m.eps)))
    rows.append(("hint bits", g["hintBits"], core.f2b(m.hint)))
    rows.append(("min_sep bits", g["minSepBits"], core.f2b(m.min_sep)))
    for label, a, b in rows:
        corr.cases += 1
        corr.ops += len(a) if isinstance(a, list) else 1
        corr.distinct.add(label)
        corr.count("table:" + label.split("[")[0].split("(")[0].split(":")[0].strip())
        if a != b and len(corr.disagreements) < 50:
            corr.disagreements.append({"case": corr.cases - 1, "index": 0, "line": label, "impl": repr(b)[:400],
                                       "model": repr(a)[:400], "lines": None, "meta": {"table": label}})
    return corr


def _frs(l):
    return ",".join(str(Fraction(c)) for c in l) or "-"


def quad_cases(seeds):
    """lock-step cases  QuadPoly (Lean, through the driver)  ~  live integrator_coeffs: the table rows as the theorems read
    them, `legRec` ~ legendre, `ccNodal` ~ newton, `inner` ~ scalar_product on seeded rational polynomials.  Exact: rationals
    cross the protocol as `num/den` in lowest terms."""
    m = integ_tables.load_live()
    cases = []
    ns = [int(n) for n in m.ns]
    lines, impl = [], []
    for n, p in enumerate(m.legendre(integ_tables.N_LEGENDRE)):
        lines.append(f"quad leg {n}")
        impl.append(_frs(p))
    for r, n in enumerate(ns):
        lines += [f"quad newton {r}", f"quad xi {r}", f"quad xibits {r}"]
        x = _frs([float(v) for v in m.xi[r]])
        impl += [_frs([float(c) for c in m.newton(n)]), x, x]
    legs = m.legendre(max(ns) + 1)
    for r, n in enumerate(ns):
        a = list(map(Fraction, m.newton(n)))
        lines.append(f"quad bdef {r}")
        impl.append(_frs([m.scalar_product(a, b) for b in legs[: n + 1]]))
    cases.append({"lines": lines, "impl": impl, "meta": {"kind": "tables"}})
    lines, impl = [], []
    big = m.legendre(48)
    for n, p in enumerate(big):
        lines.append(f"quad legrec {n}")
        impl.append(_frs(p))
    for n in (2, 3, 5, 9, 17, 33, 65):
        try:
            cf = m.newton(n)
        except (ValueError, AssertionError):
            continue
        lines.append(f"quad ccnodal {n}")
        impl.append(_frs([float(c) for c in cf]))
    cases.append({"lines": lines, "impl": impl, "meta": {"kind": "recursions"}})
    for seed in seeds:
        rng = random.Random(f"quad-{seed}")
        lines, impl = [], []
        for _ in range(8):
            def poly():
                kind = rng.randrange(4)
                if kind == 0:
                    return list(rng.choice(big))
                deg = rng.randrange(0, 14)
                if kind == 1:
                    return [Fraction(rng.randrange(-9, 10)) for _ in range(deg + 1)]
                return [Fraction(rng.randrange(-50, 51), rng.choice([1, 2, 3, 4, 5, 7, 8, 16, 35])) * rng.choice([0, 1, 1, 1])
                        for _ in range(deg + 1)]
            a, b = poly(), poly()
            lines.append(f"quad sp {_frs(a)} {_frs(b)}")
            impl.append(str(Fraction(m.scalar_product(a, b))))
        cases.append({"lines": lines, "impl": impl, "meta": {"kind": "scalar_product", "seed": seed}})
    return cases


def tables_oracle():
    """The statements of the table theorems evaluated on the LIVE module (python; exact where the code is exact).
    -> (failures, stats)"""
    warnings.simplefilter("ignore")
    m = integ_tables.load_live()
    fails, stats = [], {}

    def fail(clause, detail, **replay):
        fails.append({"clause": clause, "signature": f"C08.tables.{clause}", "detail": detail,
                      "replay": {"part": "tables", "clause": clause, **replay}})

    # (a) orthogonality of legendre(34), with the module's own exact scalar_product
    leg = m.legendre(integ_tables.N_LEGENDRE)
    npairs = 0
    for i, pi in enumerate(leg):
        for j in range(i, len(leg)):
            v = m.scalar_product(pi, leg[j])
            want = Fraction(2, 2 * i + 1) if i == j else 0
            npairs += 1
            if v != want:
                fail("legendre_orthogonal", f"scalar_product(legendre(34)[{i}], legendre(34)[{j}]) = {v} , expected {want}", i=i, j=j)
                break
        else:
            continue
        break
    stats["legendre_pairs"] = npairs
    # (b) Bonnet
    for n in range(1, len(leg) - 1):
        lhs = [(n + 1) * c for c in leg[n + 1]]
        rhs = [Fraction(0)] * (n + 2)
        for k, c in enumerate(leg[n]):
            rhs[k + 1] += (2 * n + 1) * c
        for k, c in enumerate(leg[n - 1]):
            rhs[k] -= n * c
        if lhs != rhs:
            fail("legendre_recurrence", f"(n+1)P_(n+1) != (2n+1) x P_n - n P_(n-1) at n={n}", n=n)
            break
    # (c) xi
    ns = tuple(int(n) for n in m.ns)
    xi = [np.asarray(x, float) for x in m.xi]
    for r, x in enumerate(xi):
        n = ns[r]
        if len(x) != n or x[0] != -1.0 or x[-1] != 1.0:
            fail("xi_shape", f"xi[{r}] has {len(x)} nodes from {x[0]!r} to {x[-1]!r}, expected {n} nodes from -1 to 1", r=r)
        elif not all(x[k] == -x[n - 1 - k] for k in range(n)):
            fail("xi_antisymmetric", f"xi[{r}] is not antisymmetric: {[(k, float(x[k]), float(x[n-1-k])) for k in range(n) if x[k] != -x[n-1-k]][:3]}", r=r)
        elif not all(x[k] < x[k + 1] for k in range(n - 1)):
            fail("xi_sorted", f"xi[{r}] is not strictly increasing", r=r)
        elif max(abs(x[k] + math.cos(k * math.pi / (n - 1))) for k in range(n)) > 4e-16:
            fail("xi_nodes", f"xi[{r}] deviates from -cos(k pi/(n-1)) by {max(abs(x[k] + math.cos(k * math.pi / (n - 1))) for k in range(n)):.3e}", r=r)
        if r + 1 < len(xi) and not (len(xi[r + 1]) == 2 * len(x) - 1 and all(x[k] == xi[r + 1][2 * k] for k in range(len(x)))):
            fail("xi_nested", f"the nodes of rule {r} are not the even-index nodes of rule {r + 1}", r=r)
    # (d) newton(n) = (x^2-1) U_(n-2) / 2^(n-2), exact integers / powers of two
    for r, n in enumerate(ns):
        u0, u1 = [Fraction(1)], [Fraction(0), Fraction(2)]
        for _ in range(n - 2):
            nxt = [Fraction(0)] + [2 * c for c in u1]
            for k, c in enumerate(u0):
                nxt[k] -= c
            u0, u1 = u1, nxt
        want = [Fraction(0)] * (len(u0) + 2)
        for k, c in enumerate(u0):
            want[k + 2] += c
            want[k] -= c
        want = [c / 2 ** (n - 2) for c in want]
        got = [Fraction(float(c)) for c in m.newton(n)]
        if got != want:
            fail("newton_nodal", f"newton({n}) is not (x^2-1) U_{n-2}(x)/2^{n-2}: first differing coefficient "
                                 f"{next(((k, str(a), str(b)) for k, (a, b) in enumerate(zip(got, want)) if a != b), ('length', len(got), len(want)))}", n=n)
    # b_def = sqrt((2k+1)/2) * exact integral (bit-exact recomputation from the dumped exact integrals), and it reproduces newton(n)
    legs = m.legendre(max(ns) + 1)
    nb = 0
    for r, n in enumerate(ns):
        a = list(map(Fraction, m.newton(n)))
        b_live = np.asarray(m.b_def[r], float)
        rec = [float(np.sqrt((2 * k + 1) / 2) * m.scalar_product(a, legs[k])) for k in range(n + 1)]
        nb += len(rec)
        if len(b_live) != n + 1 or [core.f2b(v) for v in b_live] != [core.f2b(v) for v in rec]:
            fail("b_def", f"b_def[{r}] is not sqrt((2k+1)/2) * scalar_product(newton({n}), P_k) bit for bit", r=r)
            continue
        xs = np.linspace(-1, 1, 41)
        val = m.calc_V(xs, n + 1) @ b_live
        ref = np.polyval(np.asarray(m.newton(n), float)[::-1], xs)
        if not np.all(np.abs(val - ref) <= 1e-9 * (1 + np.abs(ref))):
            fail("b_def", f"sum_k b_def[{r}][k] * orthonormal P_k(x) deviates from newton({n})(x) by {float(np.max(np.abs(val - ref))):.3e}", r=r)
    stats["b_def_entries"] = nb
    # floating-point linear algebra, loose: V V_inv = 1, shift matrices
    for r, n in enumerate(ns):
        e = float(np.max(np.abs(np.asarray(m.V[r]) @ np.asarray(m.V_inv[r]) - np.eye(n))))
        stats[f"max|V V_inv - 1|[{r}]"] = e
        if not e <= 1e-9:
            fail("V_inv", f"max |V[{r}] V_inv[{r}] - 1| = {e:.3e}", r=r)
    rs = np.random.RandomState(12345)
    c = rs.uniform(-1, 1, ns[3])
    x3 = xi[3]
    for name, sh in (("T_left", -1), ("T_right", 1)):
        T = np.asarray(getattr(m, name))
        e = float(np.max(np.abs(m.calc_V(x3, ns[3]) @ (T @ c) - m.calc_V((x3 + sh) / 2, ns[3]) @ c)))
        stats[f"shift residual {name}"] = e
        if not e <= 1e-8:
            fail("shift_matrix", f"{name} does not map the coefficients of p(x) to those of p((x{sh:+d})/2): residual {e:.3e}", name=name)
    # the tables of the reference implementation adaptive/tests/algorithm_4.py (which builds its own): "match algorithm 4"
    _, a4 = _imports()
    for name, ref, live in (("ns", tuple(a4.n), ns), ("hint", a4.hint, m.hint), ("min_sep", a4.min_sep, m.min_sep),
                            ("ndiv_max", a4.ndiv_max, m.ndiv_max), ("eps", a4.eps, m.eps)):
        if not ref == live:
            fail("tables_vs_algorithm_4", f"{name} = {live!r}, algorithm_4.py has {ref!r}", name=name)
    worst = 0.0
    for name, ref, live in (("xi", a4.xi, m.xi), ("b_def", a4.b_def, m.b_def), ("V", a4.V, m.V), ("V_inv", a4.V_inv, m.V_inv),
                            ("T_left", [a4.T_lr[0]], [m.T_left]), ("T_right", [a4.T_lr[1]], [m.T_right]),
                            ("alpha", [a4.alpha], [m.alpha]), ("gamma", [a4.gamma], [m.gamma])):
        for r, (x, y) in enumerate(zip(ref, live)):
            x, y = np.asarray(x, float), np.asarray(y, float)
            if x.shape != y.shape:
                fail("tables_vs_algorithm_4", f"{name}[{r}] has shape {y.shape}, algorithm_4.py has {x.shape}", name=name)
                break
            d = float(np.max(np.abs(x - y) / (1e-3 + np.abs(x)))) if x.size else 0.0
            worst = max(worst, d)
            if not d <= 1e-9:
                fail("tables_vs_algorithm_4", f"{name}[{r}] deviates from the table of algorithm_4.py by {d:.3e} (relative, floor 1e-3)", name=name)
                break
    stats["max relative deviation from algorithm_4 tables"] = worst
    stats["failures"] = len(fails)
    return fails, stats


# ---------------------------------------------------------------------------- driver
# Families whose deviations on the unchanged /repo are counted in the evidence instead of failing (see `downgraded` there).
CLOSED_COUNTED = set()
DIFF_COUNTED = set()
DIFF_DROP_NOTE = ("algorithm_4 tests `points[1]-points[0] < points[0]*min_sep` without abs() (never true for negative abscissae) and, "
                  "for an interval of depth 3, on the stale `points` of the previous loop; IntegratorLearner._fill_stack tests the "
                  "selected interval's own points with abs(). After either side has dropped an interval the two process different "
                  "intervals; such disagreements are counted (diverged_after_interval_drop), not failed - unless the learner ALONE dropped an interval "
                  "on a domain of non-negative abscissae, where the two rules coincide (both relative to the abscissa).")


def run(ctx):
    # 0. dump the exact coefficient tables of the live module (the tie of the table theorems to the source)
    dump = {"ok": True, "changed": None, "error": None, "hashes": None}
    try:
        data = integ_tables.collect_quad()
        dump["changed"] = integ_tables.generate_quad(data=data)
        dump["hashes"] = integ_tables.quad_hashes(data)
    except integ_tables.DumpError as e:
        dump.update(ok=False, error=str(e))
    proof = core.prove(MODULES, extra_targets=TABLE_MODULES, leanchecker=ctx.thorough)
    if not dump["ok"]:
        proof.build_ok = False
        proof.broken.insert(0, f"integ_tables: the coefficient tables could not be dumped: {dump['error']}")
    failures = []
    # 0b. read-back of the generated file and the python oracle of the table statements on the live module
    tcorr = core.Corr("Gen/QuadTables.lean read back ~ live integrator_coeffs (exact Fractions / bit patterns)")
    tstats = {}
    if dump["ok"]:
        try:
            tables_readback(tcorr)
        except Exception as e:  # noqa: BLE001
            tcorr.error = f"read-back failed: {type(e).__name__}: {e}"
        try:
            tfails, tstats = tables_oracle()
            failures += tfails
        except Exception as e:  # noqa: BLE001  (a table of the wrong shape/type: never seen on the unchanged tree)
            failures.append({"clause": "tables_oracle_exception", "signature": "C08.tables.oracle_exception",
                             "detail": f"{type(e).__name__}: {e}", "replay": {"part": "tables", "clause": "exception"}})
    else:
        tcorr.error = dump["error"]
    if ctx.thorough and proof.ok:
        rc, out, err, dt = core.sh(["lake", "env", "leanchecker", *TABLE_MODULES[1:]], cwd=core.LEAN, timeout=3000)
        dump["leanchecker_table_modules"] = {"rc": rc, "wall_s": round(dt, 1), "tail": (out + err)[-300:]}
        if rc != 0:
            proof.broken.append("leanchecker rejected the table computations: " + (out + err)[-300:])
            proof.build_ok = False
    draws = ctx.n(40, 400)
    cap = ctx.n(8000, 20000)
    items = [(fam, ctx.rng.randrange(1 << 30), cap) for fam in FAMILIES for _ in range(draws)]
    closed = core.pmap(closed_case, items)
    fam_stats = {}
    counted = []
    for r in closed:
        s = fam_stats.setdefault(r["family"], {"cases": 0, "done": 0, "cap": 0, "divergent": 0, "no_way_to_improve": 0,
                                               "sequential": 0, "shuffled": 0, "max_ratio": 0.0, "violations": 0,
                                               "done_with_removed_intervals": 0, "evaluations": 0})
        s["cases"] += 1
        s[r["end"]] = s.get(r["end"], 0) + 1
        s[r["mode"]] = s.get(r["mode"], 0) + 1
        s["evaluations"] += r["npoints"]
        if r["ratio"] is not None:
            s["max_ratio"] = max(s["max_ratio"], r["ratio"])
            s["done_with_removed_intervals"] += 1 if r.get("removed") else 0
        if r["fail"]:
            s["violations"] += 1
            sig = f"C08.closed.{r['family']}"
            if r["family"] == "holes" and r["mode"] == "shuffled":
                sig = "C08.closed.holes:nan_nodes_with_out_of_order_delivery"
            rec = {"clause": "closed_form_bound", "signature": sig, "detail": r["fail"],
                   "replay": {"part": "closed", "family": r["family"], "seed": r["seed"], "cap": r["cap"]}}
            (counted if r["family"] in CLOSED_COUNTED else failures).append(rec)
    # differential
    ditems = [(n, 0, 0) for n in ["f0", "f7", "f21", "f24", "f63", "f63b", "fdiv", "isqrt0", "isqrt0b"]]
    ditems += [(n, 0, k) for n in ["f0", "f7", "f21", "f24", "f63"] for k in (3, 10, 40)]
    for fam in FAMILIES:
        for _ in range(ctx.n(6, 60)):
            ditems.append((fam, ctx.rng.randrange(1 << 30), ctx.rng.choice([0, 0, 5, 20, 80, 300])))
    diff = core.pmap(diff_case, ditems)
    dstats = {}
    for r in diff:
        s = dstats.setdefault(r["name"], {"cases": 0, "both_value": 0, "both_divergent": 0, "max_rel_igral": 0.0,
                                          "max_rel_err": 0.0, "mismatch": 0, "evaluations": 0,
                                          "with_dropped_interval": 0, "diverged_after_interval_drop": 0})
        s["cases"] += 1
        s["evaluations"] += r.get("npoints", 0)
        if r["ref"] == "divergent" and r.get("learner") == "divergent":
            s["both_divergent"] += 1
        elif r["ref"] == "value" and r.get("learner") == "value":
            s["both_value"] += 1
            s["with_dropped_interval"] += 1 if r.get("dropped") else 0
            if not (r["fail"] and r.get("dropped")):  # maxima over the like-for-like comparisons
                s["max_rel_igral"] = max(s["max_rel_igral"], r["rel_igral"])
                s["max_rel_err"] = max(s["max_rel_err"], r["rel_err"])
        if r["fail"]:
            s["mismatch"] += 1
            rec = {"clause": "differential_algorithm_4", "signature": f"C08.diff.{r['name']}", "detail": r["fail"],
                   "replay": {"part": "diff", "name": r["name"], "seed": r["seed"], "n_loops": r["n_loops"]}}
            if r.get("dropped") and "single-point asks" not in r["fail"] and (r.get("ref_dropped") or r["a"] < 0):
                # (a drop by the learner ALONE on a domain of non-negative abscissae is not excused: there the two "too narrow"
                # rules coincide - both are relative to the abscissa, so an interval [0, w] is never too narrow)
                # The two implementations drop intervals by different rules (see DIFF_DROP_NOTE); after a drop they no longer
                # process the same intervals, so "same number of evaluations" stops being a like-for-like comparison.
                s["mismatch"] -= 1
                s["diverged_after_interval_drop"] += 1
                counted.append(rec)
            else:
                (counted if r["name"] in DIFF_COUNTED else failures).append(rec)
    # lock-step (drawn last from ctx.rng: the seeds of the closed-form / differential cases above are unaffected)
    # 0c. lock-step of the list-polynomial functions / table rows (Lean, through the driver) with the live functions
    qcorr = core.Corr("QuadPoly (legP/newtonP/xiRow/bdefRow, legRec, ccNodal, inner) ~ live legendre/newton/xi/scalar_product (exact rationals)")
    try:
        qcases = quad_cases([ctx.rng.randrange(1 << 30) for _ in range(ctx.n(40, 600))])
        for c in qcases:
            qcorr.count("kind:" + c["meta"]["kind"], len(c["lines"]))
        core.lockstep(qcorr, qcases, shards=ctx.n(2, 8))
    except integ_tables.DumpError as e:
        qcorr.error = str(e)
    except Exception as e:  # noqa: BLE001  (the live functions raised / returned something that is not a number)
        qcorr.error = f"building the cases from the live module failed: {type(e).__name__}: {e}"
    ndone = sum(s["done"] for s in fam_stats.values())
    return core.conclude(
        ctx, proof, [tcorr, qcorr], failures, level="other",
        rule="closed form: 8 families (poly deg<=12, exp, sin, Lorentzian, Gaussian, inverse-sqrt end-point singularity with "
             "f(a)=inf, kink, jump) x seeded parameters, ranges (-1,1),(0,1),(0,3.5),(-2,5) and the non-dyadic (0.1,1.3),(-0.3,1.1),(0.07,2.9),(-1.7,0.3), tol log-uniform 1e-10..1e-3, "
             "delivery sequential (ask 1..40, tell all) or shuffled+partial (tell a random half..all of the outstanding points "
             f"in random order); run to done() or {cap} evaluations; non-trivial = reached done(). differential: test-suite "
             "integrands f0,f7,f21,f24,f63,fdiv and the same families, reference run to convergence or stopped after "
             "3..300 loops, learner fed one point at a time for the same number of evaluations",
        samples=[{k: r[k] for k in ("family", "mode", "tol", "end", "npoints", "ratio")} for r in closed[:: max(1, len(closed) // 5)]],
        evaluations=len(closed) + len(diff), distinct=ndone + sum(s["both_value"] + s["both_divergent"] for s in dstats.values()),
        explanation="The Lean part is (1) the real-analysis skeleton (integ_global_bound_partial and corollaries): adjacent "
                    "pieces + per-piece validity of the local estimate imply the global bound; (2) the exact coefficient tables "
                    "(legendre(34), newton(n), xi, the exact integrals behind b_def, scalar constants), dumped from the live "
                    "module on every run and proved by kernel computation. Validity of Gonnet's estimator, the floating-point "
                    "tables (V, V_inv, T_left/right, alpha, gamma, the sqrt factor of b_def) and floating point are NOT proved "
                    "and are covered by the test oracles here.",
        trusted=core.COMMON_TRUSTED + [
            "closed-form integrals evaluated with math.erf/atan/expm1/cos and exact rationals for polynomials",
            "adaptive/tests/algorithm_4.py as the reference implementation of Gonnet's algorithm 4",
            "slack 1e-13*max(1,|exact|) for rounding"],
        assumptions=["hypothesis of the theorems: every local estimate is within its local error estimate (unproved, heuristic)",
                     "real arithmetic in the theorems; the code runs in binary64",
                     "not reaching done() within the cap, DivergentIntegralError and 'No way to improve' end a case (counted)"],
        extra={"closed_form": fam_stats, "differential": dstats, "differential_drop_note": DIFF_DROP_NOTE,
               "downgraded_to_counted": {"closed": sorted(CLOSED_COUNTED), "diff": sorted(DIFF_COUNTED),
                                         "records": [c["detail"][:300] for c in counted[:10]], "n": len(counted)},
               "coefficient_tables": {"dump": dump, "oracle": tstats, "theorems": TABLE_THEOREMS,
                                      "generated_file": "lean/AdaptiveModel/Gen/QuadTables.lean",
                                      "lemma_modules": TABLE_MODULES},
               "unproved": ["validity of the local error estimator (hypothesis hloc)", "floating point",
                            "floating-point coefficient tables V, V_inv, T_left, T_right, alpha, gamma, sqrt factor of b_def "
                            "(the exact tables legendre/newton/xi/scalar products ARE proved)",
                            "that the doubles xi are the correctly rounded cosines (only a residual bound is proved)",
                            "agreement with algorithm_4 (differential testing only)"]},
        partial=["integ_global_bound_partial", "integ_done_bound_partial", "integ_done_rel_bound_partial",
                 "integ_done_bound_exact_partial", "integ_converged_right_of_valid_estimator"],
    )


def replay(ctx, path):
    d = json.load(open(path))
    rp = d.get("replay") or {}
    if rp.get("part") == "tables":
        fails, stats = tables_oracle()
        print(json.dumps(stats, default=str)[:1500])
        hit = [f for f in fails if f["clause"] == rp.get("clause")] or fails
        for f in hit[:5]:
            print("FAIL", f["detail"])
        if not hit:
            print("no deviation")
        return 1 if hit else 0
    if rp.get("part") == "closed":
        r = closed_case((rp["family"], rp["seed"], rp.get("cap", 20000)))
    elif rp.get("part") == "diff":
        r = diff_case((rp["name"], rp["seed"], rp.get("n_loops", 0)))
    else:
        print(json.dumps(d, indent=1)[:3000])
        return 0
    print(json.dumps({k: v for k, v in r.items() if k != "fail"}, default=str)[:1500])
    if r["fail"]:
        print("FAIL", r["fail"])
        return 1
    print("no deviation")
    return 0
