"""C08 — IntegratorLearner: converged integrals are right and match Gonnet's algorithm 4.   level: other (partial)

proof:  lean/AdaptiveProofs/Props/C08.lean — real-analysis skeleton only (Mathlib intervalIntegral): partition +
        per-interval validity of the estimator (HYPOTHESIS, unproved) => |∫f − Σ igral_I| ≤ Σ err_I, and with the
        done() disjunct  ≤ max(err, tol·|igral|).  Nothing about Gonnet's estimator or floating point is proved.
diff:   sequential feeding of the real IntegratorLearner against adaptive/tests/algorithm_4.py for the same number
        of evaluations (protocol of adaptive/tests/test_cquad.py: n times ask(1)+tell), igral/err to 1e-7 relative;
        the reference is also stopped after a bounded number of loops, which compares intermediate states.
search: 8 parameterised families with closed-form integrals, sequential and shuffled/partial delivery; when done():
        |igral − exact| ≤ max(err, tol·|exact|) + 1e-13·max(1,|exact|).
"""
from __future__ import annotations

import json
import math
import random
import warnings
from fractions import Fraction

import numpy as np

from harness import core

MODULES = ["AdaptiveProofs.Props.C08"]
FAMILIES = ["poly", "exp", "osc", "lorentz", "gauss", "sqrt_sing", "kink", "jump"]
RANGES = [(-1.0, 1.0), (0.0, 1.0), (0.0, 3.5), (-2.0, 5.0)]
SLACK = 1e-13


def _imports():
    import adaptive.learner.integrator_learner as il
    from adaptive.tests import algorithm_4 as a4
    return il, a4


# ---------------------------------------------------------------------------- integrand families
def make_family(fam, rng):
    """-> (f vectorised over numpy arrays and scalars, a, b, exact integral, parameter dict)"""
    a, b = rng.choice(RANGES)
    p = {"a": a, "b": b}
    if fam == "poly":
        deg = rng.randrange(0, 13)
        cs = [rng.uniform(-1, 1) for _ in range(deg + 1)]  # c_0 + c_1 x + …
        p.update(deg=deg, coeffs=cs)
        hi = np.array(cs[::-1])
        fa, fb = Fraction(a), Fraction(b)
        exact = float(sum(Fraction(c) * (fb ** (k + 1) - fa ** (k + 1)) / (k + 1) for k, c in enumerate(cs)))
        return (lambda x: np.polyval(hi, x)), a, b, exact, p
    if fam == "exp":
        k = rng.choice([-1, 1]) * rng.uniform(0.1, 3.0)
        A = rng.uniform(0.2, 3.0)
        p.update(k=k, A=A)
        exact = A * math.exp(k * a) * math.expm1(k * (b - a)) / k
        return (lambda x: A * np.exp(k * x)), a, b, exact, p
    if fam == "osc":
        w = rng.uniform(0.5, 40.0 / (b - a))
        ph = rng.uniform(0, 2 * math.pi)
        A = rng.uniform(0.2, 2.0)
        c0 = rng.choice([0.0, rng.uniform(0.5, 2.0)])
        p.update(w=w, phase=ph, A=A, c0=c0)
        exact = c0 * (b - a) + A * (math.cos(w * a + ph) - math.cos(w * b + ph)) / w
        return (lambda x: c0 + A * np.sin(w * x + ph)), a, b, exact, p
    if fam == "lorentz":
        c = rng.uniform(a, b)
        g = 10 ** rng.uniform(-2, 0)
        p.update(c=c, g=g)
        exact = (math.atan((b - c) / g) - math.atan((a - c) / g)) / g
        return (lambda x: 1.0 / ((x - c) ** 2 + g * g)), a, b, exact, p
    if fam == "gauss":
        c = rng.uniform(a, b)
        s = 10 ** rng.uniform(-1.7, 0)
        p.update(c=c, s=s)
        r2 = s * math.sqrt(2)
        exact = s * math.sqrt(math.pi / 2) * (math.erf((b - c) / r2) - math.erf((a - c) / r2))
        return (lambda x: np.exp(-((x - c) ** 2) / (2 * s * s))), a, b, exact, p
    if fam == "sqrt_sing":
        A = rng.uniform(0.2, 2.0)
        c0 = rng.choice([0.0, rng.uniform(-1.0, 1.0)])
        p.update(A=A, c0=c0)
        exact = 2 * A * math.sqrt(b - a) + c0 * (b - a)

        def f(x):
            with np.errstate(divide="ignore", invalid="ignore"):
                return c0 + A / np.sqrt(x - a)  # +inf at the left end point

        return f, a, b, exact, p
    if fam == "kink":
        c = rng.uniform(a, b)
        A = rng.uniform(0.2, 2.0)
        c0 = rng.choice([0.0, rng.uniform(0.0, 1.0)])
        p.update(c=c, A=A, c0=c0)
        exact = A * ((c - a) ** 2 + (b - c) ** 2) / 2 + c0 * (b - a)
        return (lambda x: c0 + A * np.abs(x - c)), a, b, exact, p
    if fam == "jump":
        c = rng.uniform(a, b)
        h1, h2 = rng.uniform(-2, 2), rng.uniform(-2, 2)
        if abs(h1 * (c - a) + h2 * (b - c)) < 0.05:
            h2 += 1.0
        p.update(c=c, h1=h1, h2=h2)
        exact = h1 * (c - a) + h2 * (b - c)
        return (lambda x: np.where(x < c, h1, h2) + 0.0), a, b, exact, p
    raise ValueError(fam)


# ---------------------------------------------------------------------------- (b) closed-form oracle
def closed_case(arg):
    fam, seed, cap = arg
    warnings.simplefilter("ignore")
    il, _ = _imports()
    rng = random.Random(f"{fam}-{seed}")
    f, a, b, exact, p = make_family(fam, rng)
    tol = 10 ** rng.uniform(-10, -3)
    mode = rng.choice(["sequential", "shuffled"])
    res = {"family": fam, "seed": seed, "cap": cap, "mode": mode, "tol": tol, "params": p, "exact": exact,
           "end": "cap", "fail": None, "ratio": None, "npoints": 0}
    learner = il.IntegratorLearner(f, bounds=(a, b), tol=tol)
    outstanding = []
    try:
        while learner.npoints < cap:
            n = rng.randrange(1, 41)
            pts, _ = learner.ask(n)
            if mode == "sequential":
                for x in pts:
                    learner.tell(x, float(f(x)))
            else:
                outstanding += list(pts)
                rng.shuffle(outstanding)
                k = rng.randrange(max(1, len(outstanding) // 2), len(outstanding) + 1)
                for x in outstanding[:k]:
                    learner.tell(x, float(f(x)))
                outstanding = outstanding[k:]
            if learner.done():
                res["end"] = "done"
                break
    except il.DivergentIntegralError:
        res["end"] = "divergent"
    except RuntimeError as e:
        if "No way to improve" not in str(e):
            raise
        res["end"] = "no_way_to_improve"
        if learner.done():
            res["end"] = "done"
    res["npoints"] = learner.npoints
    res["outstanding"] = len(outstanding)
    if res["end"] == "done":
        igral, err = float(learner.igral), float(learner.err)
        bound = max(err, tol * abs(exact)) + SLACK * max(1.0, abs(exact))
        dev = abs(igral - exact)
        res.update(igral=igral, err=err, dev=dev, bound=bound,
                   ratio=(dev / bound if math.isfinite(dev) else math.inf),
                   removed=sum(1 for i in learner.approximating_intervals if i.removed))
        if not dev <= bound:
            res["fail"] = (f"{fam} {p} tol={tol:.3e} delivery={mode}: done() after {learner.npoints} evaluations with igral={igral!r} "
                           f"err={err!r} but exact={exact!r}: |igral-exact|={dev:.3e} > max(err, tol*|exact|)+slack={bound:.3e}")
    return res


# ---------------------------------------------------------------------------- (a) differential vs algorithm_4
def close_val(x, y, scale_abs):
    if x == y or (math.isnan(x) and math.isnan(y)):
        return True, 0.0
    d = abs(x - y)
    rel = d / max(abs(x), abs(y), 1e-300)
    return d <= scale_abs, rel


def diff_case(arg):
    """arg = (name, seed, n_loops); name is a fixed test-suite integrand or a family with seeded parameters"""
    name, seed, n_loops = arg
    warnings.simplefilter("ignore")
    il, a4 = _imports()
    rng = random.Random(f"diff-{name}-{seed}")
    fixed = {
        "f0": (a4.f0, 0, 3, 1e-5), "f7": (a4.f7, 0, 1, 1e-6), "f21": (a4.f21, 0, 1, 1e-3), "f24": (a4.f24, 0, 3, 1e-3),
        "f63": ((lambda x: a4.f63(x, 0.987654321, 0.45)), 0, 1, 1e-10), "fdiv": (a4.fdiv, 0, 1, 1e-6),
        "f63b": ((lambda x: a4.f63(x, -0.5, 0.3)), 0, 1, 1e-8),
    }
    if name in fixed:
        f, a, b, tol = fixed[name]
        p = {}
    else:
        f, a, b, _, p = make_family(name, rng)
        tol = 10 ** rng.uniform(-10, -3)
    res = {"name": name, "seed": seed, "n_loops": n_loops, "tol": tol, "params": p, "a": a, "b": b, "fail": None,
           "ref": None, "rel_igral": 0.0, "rel_err": 0.0}
    ref_div = False
    with np.errstate(all="ignore"):
        try:
            # "to convergence" is capped: for a singular end point at a negative abscissa the reference never drops the too-narrow
            # interval (its test lacks abs()) and would loop for ever; the comparison stays at equal evaluation counts
            igral, err, n, rivals = a4.algorithm_4(f, a, b, tol, n_loops if n_loops else 1000)
            # the reference dropped an interval (too narrow / error at rounding level / more than max_ivals) iff it carries excess
            res["ref_dropped"] = bool(not rivals or err - sum(iv.err for iv in rivals) > 1e-9 * err)
        except a4.DivergentIntegralError as e:
            ref_div, n = True, e.nr_points
            igral = err = math.nan
    res["ref"] = "divergent" if ref_div else "value"
    res["n"] = int(n)
    learner = il.IntegratorLearner(f, bounds=(a, b), tol=tol)
    l_div = False
    try:
        with np.errstate(all="ignore"):
            for _ in range(n):  # protocol of test_cquad.run_integrator_learner
                pts, _ = learner.ask(1)
                learner.tell_many(pts, [f(x) for x in pts])
    except il.DivergentIntegralError:
        l_div = True
    except RuntimeError as e:
        if "No way to improve" not in str(e):
            raise
        res["stopped"] = "no_way_to_improve"
    res["npoints"] = learner.npoints
    res["learner"] = "divergent" if l_div else "value"
    if ref_div or l_div:
        if ref_div != l_div:
            res["fail"] = (f"{name} {p} [{a},{b}] tol={tol:.3e}: reference {'raises' if ref_div else 'does not raise'} "
                           f"DivergentIntegralError within {n} evaluations, learner {'raises' if l_div else 'does not'}")
        return res
    li, le = float(learner.igral), float(learner.err)
    igral, err = float(igral), float(err)
    ok_i, rel_i = close_val(li, igral, 1e-7 * max(1.0, abs(igral)))
    if abs(le) < 1e-13 and abs(err) < 1e-13:
        ok_e, rel_e = True, 0.0
    else:
        # rounding floor: intervals whose error estimate is at eps*|igral_I| are dropped/kept on a knife edge, which moves
        # err by a few eps*|igral| (test-suite integrand f63, tol 1e-10: |Δerr| = 5.6e-18 = 2e-7 relative to err = 2.5e-11)
        ok_e, rel_e = close_val(le, err, 1e-7 * max(abs(err), abs(le)) + 64 * 2.3e-16 * max(1.0, abs(igral)))
    res.update(rel_igral=rel_i, rel_err=rel_e, igral=li, err=le, ref_igral=igral, ref_err=err)
    res["learner_dropped"] = any(i.removed or (not i.children and i not in learner.ivals) for i in learner.approximating_intervals)
    res["dropped"] = bool(res.get("ref_dropped") or res["learner_dropped"])
    if learner.npoints != n:
        res["fail"] = f"{name} {p}: learner holds {learner.npoints} evaluations after {n} single-point asks"
    elif not (ok_i and ok_e):
        res["fail"] = (f"{name} {p} [{a},{b}] tol={tol:.3e} after {n} evaluations (reference loops={n_loops or 'to convergence'}): "
                       f"learner igral={li!r} err={le!r}, algorithm_4 igral={igral!r} err={err!r} "
                       f"(relative deviation {rel_i:.2e} / {rel_e:.2e})")
    return res


# ---------------------------------------------------------------------------- driver
# Families whose deviations on the unchanged /repo are counted in the evidence instead of failing (see `downgraded` there).
CLOSED_COUNTED = set()
DIFF_COUNTED = set()
DIFF_DROP_NOTE = ("algorithm_4 tests `points[1]-points[0] < points[0]*min_sep` without abs() (never true for negative abscissae) and, "
                  "for an interval of depth 3, on the stale `points` of the previous loop; IntegratorLearner._fill_stack tests the "
                  "selected interval's own points with abs(). After either side has dropped an interval the two process different "
                  "intervals; such disagreements are counted (diverged_after_interval_drop), not failed.")


def run(ctx):
    proof = core.prove(MODULES, leanchecker=ctx.thorough)
    failures = []
    draws = ctx.n(40, 400)
    cap = ctx.n(8000, 20000)
    items = [(fam, ctx.rng.randrange(1 << 30), cap) for fam in FAMILIES for _ in range(draws)]
    closed = core.pmap(closed_case, items)
    fam_stats = {}
    counted = []
    for r in closed:
        s = fam_stats.setdefault(r["family"], {"cases": 0, "done": 0, "cap": 0, "divergent": 0, "no_way_to_improve": 0,
                                               "sequential": 0, "shuffled": 0, "max_ratio": 0.0, "violations": 0,
                                               "done_with_removed_intervals": 0, "evaluations": 0})
        s["cases"] += 1
        s[r["end"]] += 1
        s[r["mode"]] += 1
        s["evaluations"] += r["npoints"]
        if r["ratio"] is not None:
            s["max_ratio"] = max(s["max_ratio"], r["ratio"])
            s["done_with_removed_intervals"] += 1 if r.get("removed") else 0
        if r["fail"]:
            s["violations"] += 1
            rec = {"clause": "closed_form_bound", "signature": f"C08.closed.{r['family']}", "detail": r["fail"],
                   "replay": {"part": "closed", "family": r["family"], "seed": r["seed"], "cap": r["cap"]}}
            (counted if r["family"] in CLOSED_COUNTED else failures).append(rec)
    # differential
    ditems = [(n, 0, 0) for n in ["f0", "f7", "f21", "f24", "f63", "f63b", "fdiv"]]
    ditems += [(n, 0, k) for n in ["f0", "f7", "f21", "f24", "f63"] for k in (3, 10, 40)]
    for fam in FAMILIES:
        for _ in range(ctx.n(6, 60)):
            ditems.append((fam, ctx.rng.randrange(1 << 30), ctx.rng.choice([0, 0, 5, 20, 80, 300])))
    diff = core.pmap(diff_case, ditems)
    dstats = {}
    for r in diff:
        s = dstats.setdefault(r["name"], {"cases": 0, "both_value": 0, "both_divergent": 0, "max_rel_igral": 0.0,
                                          "max_rel_err": 0.0, "mismatch": 0, "evaluations": 0,
                                          "with_dropped_interval": 0, "diverged_after_interval_drop": 0})
        s["cases"] += 1
        s["evaluations"] += r.get("npoints", 0)
        if r["ref"] == "divergent" and r.get("learner") == "divergent":
            s["both_divergent"] += 1
        elif r["ref"] == "value" and r.get("learner") == "value":
            s["both_value"] += 1
            s["with_dropped_interval"] += 1 if r.get("dropped") else 0
            if not (r["fail"] and r.get("dropped")):  # maxima over the like-for-like comparisons
                s["max_rel_igral"] = max(s["max_rel_igral"], r["rel_igral"])
                s["max_rel_err"] = max(s["max_rel_err"], r["rel_err"])
        if r["fail"]:
            s["mismatch"] += 1
            rec = {"clause": "differential_algorithm_4", "signature": f"C08.diff.{r['name']}", "detail": r["fail"],
                   "replay": {"part": "diff", "name": r["name"], "seed": r["seed"], "n_loops": r["n_loops"]}}
            if r.get("dropped") and "single-point asks" not in r["fail"]:
                # The two implementations drop intervals by different rules (see DIFF_DROP_NOTE); after a drop they no longer
                # process the same intervals, so "same number of evaluations" stops being a like-for-like comparison.
                s["mismatch"] -= 1
                s["diverged_after_interval_drop"] += 1
                counted.append(rec)
            else:
                (counted if r["name"] in DIFF_COUNTED else failures).append(rec)
    ndone = sum(s["done"] for s in fam_stats.values())
    return core.conclude(
        ctx, proof, [], failures, level="other",
        rule="closed form: 8 families (poly deg<=12, exp, sin, Lorentzian, Gaussian, inverse-sqrt end-point singularity with "
             "f(a)=inf, kink, jump) x seeded parameters, ranges (-1,1),(0,1),(0,3.5),(-2,5), tol log-uniform 1e-10..1e-3, "
             "delivery sequential (ask 1..40, tell all) or shuffled+partial (tell a random half..all of the outstanding points "
             f"in random order); run to done() or {cap} evaluations; non-trivial = reached done(). differential: test-suite "
             "integrands f0,f7,f21,f24,f63,fdiv and the same families, reference run to convergence or stopped after "
             "3..300 loops, learner fed one point at a time for the same number of evaluations",
        samples=[{k: r[k] for k in ("family", "mode", "tol", "end", "npoints", "ratio")} for r in closed[:: max(1, len(closed) // 5)]],
        evaluations=len(closed) + len(diff), distinct=ndone + sum(s["both_value"] + s["both_divergent"] for s in dstats.values()),
        explanation="The Lean part is the real-analysis skeleton only (integ_global_bound_partial and corollaries): adjacent "
                    "pieces + per-piece validity of the local estimate imply the global bound; validity of Gonnet's estimator, "
                    "the coefficient tables and floating point are NOT proved and are covered by the two test oracles here.",
        trusted=core.COMMON_TRUSTED + [
            "closed-form integrals evaluated with math.erf/atan/expm1/cos and exact rationals for polynomials",
            "adaptive/tests/algorithm_4.py as the reference implementation of Gonnet's algorithm 4",
            "slack 1e-13*max(1,|exact|) for rounding"],
        assumptions=["hypothesis of the theorems: every local estimate is within its local error estimate (unproved, heuristic)",
                     "real arithmetic in the theorems; the code runs in binary64",
                     "not reaching done() within the cap, DivergentIntegralError and 'No way to improve' end a case (counted)"],
        extra={"closed_form": fam_stats, "differential": dstats, "differential_drop_note": DIFF_DROP_NOTE,
               "downgraded_to_counted": {"closed": sorted(CLOSED_COUNTED), "diff": sorted(DIFF_COUNTED),
                                         "records": [c["detail"][:300] for c in counted[:10]], "n": len(counted)},
               "unproved": ["validity of the local error estimator (hypothesis hloc)", "floating point", "coefficient tables",
                            "agreement with algorithm_4 (differential testing only)"]},
        partial=["integ_global_bound_partial", "integ_done_bound_partial", "integ_done_rel_bound_partial",
                 "integ_done_bound_exact_partial", "integ_converged_right_of_valid_estimator"],
    )


def replay(ctx, path):
    d = json.load(open(path))
    rp = d.get("replay") or {}
    if rp.get("part") == "closed":
        r = closed_case((rp["family"], rp["seed"], rp.get("cap", 20000)))
    elif rp.get("part") == "diff":
        r = diff_case((rp["name"], rp["seed"], rp.get("n_loops", 0)))
    else:
        print(json.dumps(d, indent=1)[:3000])
        return 0
    print(json.dumps({k: v for k, v in r.items() if k != "fail"}, default=str)[:1500])
    if r["fail"]:
        print("FAIL", r["fail"])
        return 1
    print("no deviation")
    return 0
