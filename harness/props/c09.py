"""C09 — asking without committing leaves a learner unchanged; committing is the same ask.

proof:  lean/AdaptiveProofs/Props/C09.lean — per model (L1D, Seq, Avg, Balancing over lawful children, DataSaver over
        any learner): ask(n, false) returns the state it was given and the points of ask(n, true); ask(n, true) is the
        fold of tell_pending over those points
tie:    the models are tied to the code by the lock-step runs of C01/C02 (L1D), C17 (Seq), C16 (Avg), C15 (Balancing),
        C18 (DataSaver); this check adds the twin runs below on the REAL learners of every type
search: twin learners A, B driven through the same history; A additionally receives ask(n, tell_pending=False) twice at
        random moments; data, pending points, both losses and every later answer must coincide, the two extra answers
        must coincide, and a following ask(n, True) must return the same points and equal marking them pending
"""
from __future__ import annotations

import json
import copy
import random

from harness import core, learners as L, xlearner as X

MODULES = ["AdaptiveProofs.Props.C09", "AdaptiveProofs.Lemmas.L2D"]
KINDS = ["l1d", "l1d_curv", "l1d_vec", "l1d_tri", "lnd2", "lnd3", "lnd4", "lnd2_curv", "l2d", "avg", "avg1d", "seq", "integ",
         "bal:l1d", "bal:seq", "bal:avg", "bal:lnd2", "bal:cycle:l1d", "bal:cycle:seq", "bal:npoints:avg", "bal:loss:l1d", "bal:ds:l1d", "bal:cycle:ds:seq", "ds:l1d", "ds:seq", "ds:lnd2"]


def obs(kn, l):
    o = L.observe(l)
    if kn == "integ":  # the integrator's pending set is its own bookkeeping; still observable
        o["igral"] = L.canon(getattr(l, "igral", None))
    return o


def _close(x, y):
    """the integrator sums over a set of interval objects hashed by identity: igral / err are reproducible up to rounding only"""
    if x == y:
        return True
    try:
        a, b = float.fromhex(x), float.fromhex(y)
    except (TypeError, ValueError):
        return False
    return abs(a - b) <= 1e-9 * max(abs(a), abs(b))


def diff_obs(kn, o1, o2):
    tol = kn.split(":")[-1] == "integ"
    return [k for k in o1 if o1[k] != o2.get(k) and not (tol and k in ("lossT", "lossF", "igral") and _close(o1[k], o2.get(k)))]


def case(arg):
    kn, seed, nops = arg
    rng = random.Random(seed)
    a, b = X.make(kn), X.make(kn)
    r = X.Runner(kn, [a, b], seed)
    ops = L.gen_ops(random.Random(seed), X.base_kind(kn), nops)
    if kn.split(":")[-1] == "integ":
        # an IntegratorLearner only starts to do something after its first rule (33 abscissae) is complete: warm both twins up
        # with a few large requests delivered out of order, leaving some abscissae outstanding
        for _ in range(rng.choice([1, 2, 3, 5])):
            r.ask(rng.choice([17, 33, 40]), True)
            out = list(r.outstanding)
            rng.shuffle(out)
            for p in out[: max(1, len(out) - rng.choice([0, 0, 2, 7]))]:
                r.tell(p)
    extra = 0
    failed_asks = [0]
    l2d_stack = [0]
    l2d_order = [0]
    nosync = [False]
    commit_equiv = [0]
    hidden = {"lnd_rng": 0, "cycle": 0}

    def fail(cl, det, i, op):
        return {"kind": kn, "seed": seed, "nops": nops, "fail": (cl, f"[{kn}] op {i} {op}: {det}"), "extra": extra}

    for i, op in enumerate(ops):
        act = r.resolve(op)
        if act is None:
            continue
        try:
            if rng.random() < 0.35:
                n = rng.choice([1, 1, 2, 3, 5])
                if kn.split(":")[-1] == "l2d" and rng.random() < 0.15:
                    n = rng.choice([10, 11, 13, 24])  # more than Learner2D's suggestion stack holds (stack_size = 10)
                if kn.split(":")[-1] == "seq" and rng.random() < 0.15:
                    n = rng.choice([8, 12, 30])  # more than a finite learner may have left: the request may fail
                if True:
                    before = obs(kn, a)
                    stack0 = _stacks(kn, a) if kn.split(":")[-1] == "l2d" else None
                    ref = None
                    if kn == "l2d" and not nosync[0]:
                        # reference for the recorded stack mechanism: a deep copy.  The iteration order of the pending hash set
                        # decides SciPy's triangulation of co-circular points (recorded finding l2d_pending_set_order), so all
                        # three learners get a pending set built by the same insertion sequence first
                        ref = copy.deepcopy(a)
                        order = sorted(a.pending_points)
                        for x in (a, b, ref):
                            x.pending_points = set(order)
                            x._ip_combined = None
                    try:
                        r1 = a.ask(n, tell_pending=False)
                        if ref is not None and not _l2d_stack_as_committed(a, ref, n, r1):
                            # NOT the recorded mechanism: the stack the call left behind is not what a committing ask of the
                            # same size would have produced.  From here on the twin's stack is left alone, so every later
                            # answer that differs is reported
                            nosync[0] = True
                    except Exception as e1:  # noqa: BLE001
                        # a request that cannot be served (finite sequence exhausted, converged integrator): it must fail
                        # cleanly - "no observable effect" holds for every request size
                        after = obs(kn, a)
                        d = diff_obs(kn, before, after)
                        if d:
                            return fail("failed_ask_changed_state",
                                        f"ask({n}, False) raised {type(e1).__name__} and left {d} changed", i, op)
                        try:
                            a.ask(n, tell_pending=False)
                            return fail("repeat_differs", f"ask({n}, False) raised {type(e1).__name__}, the repetition did not", i, op)
                        except Exception as e2:  # noqa: BLE001
                            if type(e2) is not type(e1):
                                return fail("repeat_differs", f"ask({n}, False) raised {type(e1).__name__} then {type(e2).__name__}", i, op)
                        if diff_obs(kn, obs(kn, a), before):
                            return fail("failed_ask_changed_state", f"repeated failing ask({n}, False) changed the state", i, op)
                        extra += 1
                        failed_asks[0] += 1
                        r1 = None
                    if r1 is None:
                        pass
                    else:
                      stack1 = _stacks(kn, a) if stack0 is not None else None
                      if kn.split(":")[-1] == "l2d" and X.sync_l2d_pending_order(kn, a, b):
                          # (the marks set and removed by the first call changed the iteration order of the pending hash set:
                          # recorded finding l2d_pending_set_order; the repetition starts from the canonical order again)
                          l2d_order[0] += 1
                      r2 = a.ask(n, tell_pending=False)
                      extra += 1
                      if L.canon(r1) != L.canon(r2):
                          if kn.split(":")[-1] == "l2d" and stack0 is not None and (stack0 != stack1 or n > 10) and not nosync[0]:
                              # the first call rewrote the suggestion stack, the second one served from it (known mechanism)
                              l2d_stack[0] += 1
                              r1 = r2
                          else:
                              return fail("repeat_differs", f"ask({n}, False) twice gave {r1[0]} then {r2[0]}", i, op)
                      after = obs(kn, a)
                      d = diff_obs(kn, before, after)
                      if d:
                          if (kn.split(":")[-1] == "l2d" and set(d) <= {"pending", "lossF"} and "pending" in d
                                  and set(before["pending"]) - set(after["pending"]) <= set(L.canon(list(r1[0])))
                                  and set(after["pending"]) <= set(before["pending"])):
                              # Learner2D proposed a point that was pending already (two triangles / the clipping to the
                              # bounds lead to the same point); the clean-up of the non-committing ask then unmarks it
                              return fail("l2d_ask_returns_pending_point", f"ask({n}, False) returned {r1[0]} of which "
                                          f"{sorted(set(before['pending']) - set(after['pending']))} was already pending and is not any more", i, op)
                          if not (stack0 is not None and stack0 != _stacks(kn, a) and set(d) <= {"lossT", "lossF"}):
                              return fail("state_changed", f"ask({n}, False) changed {d}", i, op)
                          # Learner2D: the rewritten stack is cut to stack_size entries; never evaluated corner points
                          # re-queued behind it are dropped and bounds_are_done / loss() change (same known mechanism)
                      if kn.split(":")[-1] == "l2d" and not nosync[0] and X.sync_l2d_stacks(kn, a, b):
                          # known mechanism (finding l2d_stack_cache): the non-committing ask rewrote Learner2D's private
                          # suggestion stack.  Counted; the twin gets the same stack so that any OTHER effect stays visible.
                          l2d_stack[0] += 1
                      if kn.split(":")[-1] == "l2d" and X.sync_l2d_pending_order(kn, a, b):
                          # known mechanism (finding l2d_pending_set_order): marking and unmarking points changed the
                          # iteration order of the pending hash set
                          l2d_order[0] += 1
                      if len(r1[0]) != n and kn.split(":")[-1] != "seq":
                          return fail("count", f"ask({n}, False) returned {len(r1[0])} points", i, op)
                      if rng.random() < 0.25 and kn.split(":")[-1] not in ("integ", "l2d"):
                          # second clause: committing = the same answer, then marking each returned point pending.  Twin A commits,
                          # twin B asks without committing and marks the points itself; the twins must stay indistinguishable
                          ra = a.ask(n, tell_pending=True)
                          rb = b.ask(n, tell_pending=False)
                          if L.canon(ra) != L.canon(rb):
                              return fail("commit_differs", f"ask({n}, True) returned {ra[0]}, ask({n}, False) on the twin {rb[0]}", i, op)
                          for p in rb[0]:
                              b.tell_pending(p)
                          # two pieces of hidden iteration state advance only in a committing ask (recorded findings): the
                          # private random generator of a LearnerND that has no triangulation yet, and the position of the
                          # 'cycle' strategy of a BalancingLearner.  Counted, then the twin is brought in line so that every
                          # other difference stays visible
                          for xa, xb in zip(_all_learners(a), _all_learners(b)):
                              ra_, rb_ = getattr(xa, "_random", None), getattr(xb, "_random", None)
                              if ra_ is not None and ra_.getstate() != rb_.getstate():
                                  rb_.setstate(ra_.getstate())
                                  hidden["lnd_rng"] += 1
                          if kn.startswith("bal:") and getattr(b, "strategy", None) == "cycle":
                              for _ in range(n % len(b.learners)):
                                  next(b._cycle)
                              if n % len(b.learners):
                                  hidden["cycle"] += 1
                          for p in ra[0]:
                              if X.pend_key(kn, p) not in {X.pend_key(kn, q) for q in r.outstanding}:
                                  r.outstanding.append(p)
                          od = diff_obs(kn, obs(kn, a), obs(kn, b))
                          if od:
                              return fail("commit_equiv", f"ask({n}) vs ask({n}, False) + tell_pending of each point: twins differ in {od}", i, op)
                          commit_equiv[0] += 1
                      elif rng.random() < 0.4:
                          # committing the same request: same points and improvements on both twins
                          ra, rb = r.ask(n, True)
                          if L.canon(ra) != L.canon(r1):
                              if kn.split(":")[-1] == "l2d" and n > 10 and stack0 != stack1 and not nosync[0]:
                                  # a request larger than Learner2D's stack: the rewritten stack serves the first stack_size
                                  # points, the rest is recomputed in one go with those pending (recorded stack mechanism)
                                  l2d_stack[0] += 1
                              else:
                                  return fail("commit_differs", f"ask({n}, True) returned {ra[0]} but ask({n}, False) had returned {r1[0]}", i, op)
                          if L.canon(ra) != L.canon(rb):
                              return fail("twin_answers", f"ask({n}, True): {ra[0]} vs twin {rb[0]}", i, op)
            if act[0] == "ask":
                ra, rb = r.ask(act[1], act[2])
                if L.canon(ra) != L.canon(rb):
                    return fail("twin_answers", f"later ask({act[1]}, {act[2]}) answers differ: {ra} vs twin {rb}", i, op)
            elif act[0] == "tell":
                r.tell(act[1])
            elif act[0] == "retell":
                keys = list(r.told)
                k = keys[act[1] % len(keys)]
                p = next((q for q in _points(kn, a) if X.data_key(kn, q) == k), None)
                if p is not None:
                    r.tell(p)
            elif act[0] == "tell_pending":
                r.tell_pending(act[1])
            elif act[0] == "remove":
                r.remove()
            elif act[0] == "tell_many":
                ps = act[1]
                vs = [X.value_of(kn, p) for p in ps]
                for l in (a, b):
                    l.tell_many(ps, vs)
                for p, v in zip(ps, vs):
                    r.told.setdefault(X.data_key(kn, p), v)
                pk = {X.pend_key(kn, p) for p in ps}
                r.outstanding = [q for q in r.outstanding if X.pend_key(kn, q) not in pk]
        except Exception as e:
            # the same op is applied to both twins; an exception is C09's business only if the twin does not raise it
            tb = type(e).__name__
            return {"kind": kn, "seed": seed, "nops": nops, "fail": None, "extra": extra, "aborted": tb}
        oa, ob = obs(kn, a), obs(kn, b)
        d = diff_obs(kn, oa, ob)
        if d:
            return fail("twin_state", f"twins differ in {d} (A received {extra} non-committing asks)", i, op)
    return {"kind": kn, "seed": seed, "nops": nops, "extra": extra, "failed_asks": failed_asks[0], "fail": None,
            "l2d_stack": l2d_stack[0], "l2d_order": l2d_order[0], "commit_equiv": commit_equiv[0], "hidden": hidden}


def l2d_failed_ask_case(seed):
    """A non-committing ask that FAILS must leave no trace either (all request sizes, all reachable states): a Learner2D whose
    loss function raises on demand - the request fails after ask has already taken points from the suggestion stack.  Twin B
    never receives the failing call; pending points and every later answer must agree (repaired by 844d031)."""
    import adaptive
    from adaptive.learner import learner2D as L2
    rng = random.Random(seed)
    box = {"fail": False}

    def loss(ip):
        if box["fail"]:
            raise RuntimeError("loss_per_triangle failed")
        return L2.default_loss(ip)

    f = lambda xy: xy[0] * xy[0] - 0.5 * xy[1]  # noqa: E731
    a, b = (adaptive.Learner2D(f, bounds=[(0.2, 1.3), (-0.7, 0.4)], loss_per_triangle=loss) for _ in range(2))
    res = {"kind": "l2d:failing-loss", "seed": seed, "nops": 0, "extra": 0, "fail": None}
    try:
        for _ in range(rng.choice([1, 2, 4])):
            n = rng.choice([2, 4, 5, 7])
            pa, pb = a.ask(n)[0], b.ask(n)[0]
            k = rng.randrange(1, len(pa) + 1)
            for p in pa[:k]:
                a.tell(p, f(p))
                b.tell(p, f(p))
        if rng.random() < 0.5:
            a.remove_unfinished()
            b.remove_unfinished()
        before = (dict(a.data), sorted(a.pending_points))
        nreq = len(a._stack) + rng.choice([1, 2, 5])   # more than the stack holds: the refill (and so the loss function) is needed
        box["fail"] = True
        try:
            a.ask(nreq, tell_pending=False)
            res["fail"] = ("harness", "the failing loss function was not called")
            return res
        except RuntimeError:
            res["extra"] = 1
        finally:
            box["fail"] = False
        after = (dict(a.data), sorted(a.pending_points))
        if after != before:
            res["fail"] = ("failed_ask_changed_state",
                           f"[Learner2D] ask({nreq}, False) raised (its loss function failed) and left pending_points changed: "
                           f"{len(before[1])} -> {len(after[1])} pending points")
            return res
        X.sync_l2d_pending_order("l2d", a, b)   # (iteration order of the pending hash set: recorded finding, neutralised)
        for m in (1, 3):
            ra, rb = a.ask(m), b.ask(m)
            if L.canon(ra) != L.canon(rb):
                res["fail"] = ("failed_ask_changed_state",
                               f"[Learner2D] after a failed ask({nreq}, False) the next ask({m}) answers {ra[0]} but the twin that never "
                               f"received the failing call {rb[0]}")
                return res
    except Exception as e:  # noqa: BLE001
        res["aborted"] = type(e).__name__
    return res


def _all_learners(l):
    """the learner and every learner inside it (DataSaver.learner, BalancingLearner.learners), depth first"""
    out = [l]
    inner = l.__dict__.get("learner")
    if inner is not None and hasattr(inner, "ask"):
        out += _all_learners(inner)
    for c in l.__dict__.get("learners") or ():
        out += _all_learners(c)
    return out


def _l2d_stack_as_committed(a, ref, n, r1):
    """the recorded mechanism, exactly: after ask(n, tell_pending=False) Learner2D's private suggestion stack holds the first
    stack_size entries of (the points a committing ask(n) returns, then the suggestions that ask leaves on the stack) - i.e.
    the candidates are the same as after committing, only not consumed.  `ref` is a deep copy taken before the call."""
    try:
        rc = ref.ask(n, tell_pending=True)
    except Exception:  # noqa: BLE001
        return True
    want = (list(zip([tuple(p) for p in rc[0]], rc[1])) + list(ref._stack.items()))
    # (OrderedDict(zip(points[:stack_size], improvements)): cut FIRST, then a repeated point keeps its first place and takes the
    # last value)
    od = {}
    for p, v in want[: a.stack_size]:
        od[p] = float(v)
    uniq = list(od.items())
    got = [(tuple(p), float(v)) for p, v in a._stack.items()]
    if any(v != v for _, v in got + uniq) or any(float(v) != float(v) for v in list(r1[1])):
        return True  # nan losses (degenerate triangles): argmax over nan is not a function of the state worth modelling
    if L.canon(rc) != L.canon(r1):
        # the deep copy did not reproduce the call (copy.deepcopy goes through __getstate__/__setstate__ and re-initialises
        # the learner: caches differ): no verdict from this reference
        return True
    return got == uniq[: a.stack_size]


def _stacks(kn, l):
    return [list(x._stack.items()) for x in X.inner_learners(kn, l) if hasattr(x, "_stack")]


def _points(kn, l):
    """points of the learner in the form tell() accepts"""
    b = kn.split(":")[-1]
    if kn.startswith("bal:"):
        return [(i, p) for i, c in enumerate(l.learners) for p in _points(b, c)]
    if kn.startswith("ds:"):
        return _points(b, l.learner)
    if b == "seq":
        return [(i, l.sequence[i]) for i in l.data]
    if b == "avg1d":
        return [(s, x) for x, ss in l._data_samples.items() for s in ss]
    return list(l.data)


def run(ctx):
    proof = core.prove(MODULES, extra_targets=["AdaptiveProofs.Examples.Misc"], leanchecker=ctx.thorough)
    args = [(kn, ctx.rng.randrange(1 << 30), ctx.n(30, 60)) for kn in KINDS for _ in range(ctx.n(14, 300))]
    results = core.pmap(case, args)
    results += core.pmap(l2d_failed_ask_case, [ctx.rng.randrange(1 << 30) for _ in range(ctx.n(12, 120))])
    failures, dist, aborted = [], {}, {}
    nextra = nfailed = 0
    for r in results:
        dist[r["kind"]] = dist.get(r["kind"], 0) + 1
        nextra += r["extra"]
        nfailed += r.get("failed_asks", 0)
        if r.get("aborted"):
            aborted[r["kind"] + ":" + r["aborted"]] = aborted.get(r["kind"] + ":" + r["aborted"], 0) + 1
        for key, sig, what in (("l2d_stack", "C09.later_answers:l2d_stack_cache",
                                "non-committing ask(s) rewrote Learner2D's private suggestion stack (later answers then come from the rewritten stack)"),
                               ("l2d_order", "C09.lossF:l2d_pending_set_order",
                                "non-committing ask(s) changed the iteration order of Learner2D's pending set (loss(real=False) and the "
                                "improvements are computed from list(pending_points))")):
            if r.get(key):
                failures.append({"clause": key, "signature": sig, "detail": f"[{r['kind']}] {r[key]} {what}",
                                 "replay": {"kind": r["kind"], "seed": r["seed"], "nops": r["nops"]}})
        for key, sig, what in (("lnd_rng", "C09.commit_equiv:lnd_random_phase_rng",
                                "time(s) ask(n) and ask(n, False) + tell_pending left the private random generator of a LearnerND "
                                "without triangulation in different states"),
                               ("cycle", "C09.commit_equiv:balancing_cycle_position",
                                "time(s) ask(n) advanced the rotation of the 'cycle' strategy while ask(n, False) + tell_pending did not")):
            if (r.get("hidden") or {}).get(key):
                failures.append({"clause": "commit_equiv", "signature": sig, "detail": f"[{r['kind']}] {r['hidden'][key]} {what}",
                                 "replay": {"kind": r["kind"], "seed": r["seed"], "nops": r["nops"]}})
        if r["fail"]:
            cl, det = r["fail"]
            sig = f"C09.{cl}.{r['kind']}"
            if cl == "l2d_ask_returns_pending_point":
                sig = "C09.state_changed:l2d_ask_returns_already_pending_point"
            if r["kind"].split(":")[-1] == "l2d" and cl == "failed_ask_changed_state" and "QhullError" in det and "['pending']" in det:
                sig = "C09.failed_ask_changed_state:l2d_qhull_error"
            if r["kind"].split(":")[-1] == "l2d" and cl in ("twin_state", "state_changed") and "['lossF']" in det:
                sig = "C09.lossF:l2d_pending_set_order"
            failures.append({"clause": cl, "signature": sig, "detail": det,
                             "replay": {"kind": r["kind"], "seed": r["seed"], "nops": r["nops"]}})
    # Learner2D.ask against its Lean bookkeeping model (AdaptiveModel/L2D.lean): the stack rewrite of a non-committing ask, the
    # marks set and removed, the answers of committing and non-committing asks - bit for bit, geometry of _fill_stack as oracle
    from harness import l2d_drive
    corr = core.Corr("Learner2D~L2D.lean")
    lrng = random.Random(ctx.rng.randrange(1 << 30))
    lcases = [dict(c) for c in l2d_drive.CORPUS] + [l2d_drive.gen_case(lrng, ctx.n(40, 60)) for _ in range(ctx.n(100, 1500))]
    lres = core.pmap(l2d_drive._one, lcases)
    for r in lres:
        for k, v in r["stats"].items():
            corr.count(k, int(v))
        if r["err"] and str(r["err"]).startswith("harness"):
            raise RuntimeError(r["err"])
        if r["err"]:
            corr.count("history_cut_by_exception_of_the_geometry")
    core.lockstep(corr, lres, shards=ctx.n(4, 12))
    return core.conclude(
        ctx, proof, [corr], failures,
        rule="twin histories (asks, out-of-order tells, unsuggested points, re-tells, explicit pending marks, discards, batched tells) "
             "for 21 learner kinds incl. Balancing and DataSaver wrappers; twin A receives ask(n, False) twice before ~35% of the ops; "
             "non-trivial = (kind, seed) history in which A received at least one extra non-committing ask",
        samples=[list(a) for a in args[:3]],
        evaluations=nextra, distinct=sum(1 for r in results if r["extra"] > 0),
        explanation="Per-model theorems make ask(n, False) a no-op and ask(n, True) the fold of tell_pending; the models are tied "
                    "to the code by the lock-step checks C01/C02/C04/C07/C15/C16/C17/C18. LearnerND and IntegratorLearner implement the "
                    "roll-back with utils.restore (snapshot of the attribute dictionary): their models return the state they were given "
                    "(lnd_ask_nocommit_noop, integ_ask_nocommit_noop); a request that raises must leave no trace either (twin oracle).",
        trusted=core.COMMON_TRUSTED + ["copy.deepcopy of a learner's __dict__ is an exact snapshot (utils.restore)"],
        assumptions=["Learner2D is exercised since its NumPy 2 / SciPy 1.15 breakage was repaired (fix: commits)"],
        extra={"kinds": dist, "non_committing_asks_that_raised_and_left_the_state_unchanged": nfailed, "histories_aborted_by_exception_on_both_twins": aborted},
        partial=["LearnerND / IntegratorLearner: the roll-back half is proved on the models LND.lean / Integ.lean (state returned as given, also when "
                 "the request fails; same points and error class as the committing ask); the committing half (ask(n, True) = marking each "
                 "returned point pending) is not proved for them: twin oracle only",
                 "Learner2D: only the bookkeeping is modelled (L2D.lean, geometry of _fill_stack as oracle): data, pending and the answer of a "
                 "non-committing ask are proved unchanged / equal to the committing answer for every oracle, a failed request is a proved no-op; "
                 "'every later answer is what it would have been' is FALSE for Learner2D (the suggestion stack is rewritten: recorded finding, "
                 "characterised exactly by l2d_ask_nocommit_stack_char) - that clause is decided by the twin oracle with the mechanism neutralised"],
    )


def replay(ctx, path):
    d = json.load(open(path)).get("replay")
    r = l2d_failed_ask_case(d["seed"]) if d["kind"] == "l2d:failing-loss" else case((d["kind"], d["seed"], d["nops"]))
    print(r)
    return 1 if r["fail"] else 0
