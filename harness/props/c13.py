"""C13 — saving, pickling or copying a learner and restoring it loses nothing.

proof:  lean/AdaptiveProofs/Props/C13.lean — per model (L1D, Seq, Avg, DataSaver): _set_data(_get_data()) on a fresh learner
        reproduces the data
tie:    models tied to the code by the lock-step checks; this check runs the REAL save/load (gzip on/off), pickle, cloudpickle
        and copy_from of every learner kind
search: after histories that end with no pending points: restored.data == original.data (incl. DataSaver.extra_data and the
        per-child data of a BalancingLearner); a pickled copy reports the same loss and (except AverageLearner1D) makes the
        same next suggestions; a copy restored from a file or by copy_from does so up to rounding for the learners whose
        state is a function of their data
"""
from __future__ import annotations

import json
import os
import pickle
import random
import shutil
import tempfile

import cloudpickle

from harness import core, learners as L, xlearner as X

MODULES = ["AdaptiveProofs.Props.C13"]
KINDS = ["l1d", "l1d_curv", "l1d_vec", "l1d_tri", "l1d_uni", "lnd2", "lnd3", "lnd2_curv", "l2d", "avg", "avg1d", "seq", "integ",
         "bal:l1d", "bal:seq", "bal:avg", "bal:lnd2", "bal:npoints:l1d", "bal:cycle:seq", "bal:loss:l1d_vec", "ds:l1d_vec", "ds:l1d", "ds:seq", "ds:avg", "ds:lnd2"]
CHANNELS = ["save_gz", "save_plain", "pickle", "cloudpickle", "copy_from"]


def _clone(l):
    import copy
    n = object.__new__(type(l))
    n.__dict__ = copy.deepcopy(l.__dict__)
    return n


def full_data(kn, l):
    d = {"data": L.data_of(l)}
    if kn.startswith("ds:"):
        d["extra"] = L.canon(dict(l.extra_data))
    if kn.startswith("bal:"):
        d["children"] = [L.data_of(c) for c in l.learners]
    return d


def restore(kn, l, chan, scratch, variant=0):
    if chan in ("save_gz", "save_plain"):
        gz = chan == "save_gz"
        r = X.make(kn, factor=1)
        if kn.startswith("bal:"):
            names = [os.path.join(scratch, f"c{i}.pickle") for i in range(len(l.learners))]
            if variant % 2:
                # fname given as a function of the child learner (the documented way)
                l.save(lambda c: names[l.learners.index(c)], compress=gz)
                r.load(lambda c: names[r.learners.index(c)], compress=gz)
            else:
                l.save(names, compress=gz)
                r.load(names, compress=gz)
        else:
            f = os.path.join(scratch, "l.pickle")
            l.save(f, compress=gz)
            r.load(f, compress=gz)
        return r
    if chan == "pickle":
        return pickle.loads(pickle.dumps(l))
    if chan == "cloudpickle":
        return cloudpickle.loads(cloudpickle.dumps(l))
    r = X.make(kn, factor=1)
    r.copy_from(l)
    return r


def case(arg):
    kn, seed, nops, scratch_root = arg
    rng = random.Random(seed)
    l = X.make(kn, factor=1)
    r = X.Runner(kn, [l], seed)
    ops = L.gen_ops(random.Random(seed), X.base_kind(kn), nops)
    b = kn.split(":")[-1]
    res = {"kind": kn, "seed": seed, "nops": nops, "fail": None, "channels": 0}
    early = b in ("lnd2", "lnd3", "lnd2_curv", "l2d") and rng.random() < 0.3
    res["early"] = early
    try:
        if early:
            # a learner saved very early: more points were requested than the domain has corners (LearnerND draws the extra
            # ones from its private random generator), only a few results arrived - too few for a triangulation - and the
            # rest was discarded
            ops = []
            ncorner = 4 if b != "lnd3" else 8
            r.ask(ncorner + rng.choice([1, 2, 3]), True)
            out = list(r.outstanding)
            keep = rng.sample(out[ncorner:], rng.randrange(1, len(out) - ncorner + 1)) if rng.random() < 0.6 else \
                rng.sample(out, rng.choice([1, 2]))
            for p in keep:
                r.tell(p)
            r.remove()
            for p in list(r.outstanding):
                r.tell(p)
        for op in ops:
            act = r.resolve(op)
            if act is None:
                continue
            if act[0] == "ask":
                r.ask(act[1], act[2])
            elif act[0] == "tell":
                r.tell(act[1])
            elif act[0] == "tell_pending":
                if b != "integ":
                    r.tell_pending(act[1])
            elif act[0] == "remove":
                r.remove()
            elif act[0] == "tell_many":
                for p in act[1]:
                    r.tell(p)
        # the histories C13 quantifies over end with no pending points
        for p in list(r.outstanding):
            r.tell(p)
        if X.pending_keys(kn, l) or rng.random() < 0.3:
            r.remove()   # (not always: a discard rebuilds derived state, e.g. LearnerND's simplex queue)
        if X.pending_keys(kn, l):
            for p in list(l.pending_points):
                r.tell(p)
    except Exception as e:
        res["aborted"] = type(e).__name__
        return res
    if X.pending_keys(kn, l):
        res["aborted"] = "pending_left"
        return res
    want = full_data(kn, l)
    scratch = tempfile.mkdtemp(prefix="c13_", dir=scratch_root)
    try:
        for chan in CHANNELS:
            try:
                c = restore(kn, l, chan, scratch, variant=seed)
            except (pickle.PicklingError, AttributeError, TypeError) as e:
                if chan == "pickle":
                    continue  # lambdas / closures (curvature loss, lambda functions) need cloudpickle: not a learner matter
                res["fail"] = ("restore_exception", f"[{kn}] {chan}: {e!r}")
                return res
            except Exception as e:
                res["fail"] = ("restore_exception", f"[{kn}] {chan}: {e!r}")
                return res
            res["channels"] += 1
            got = full_data(kn, c)
            if b == "avg1d":
                # data holds per-abscissa means, recomputed on restore: compare keys exactly, values to rounding
                ok = set(k for k, _ in got["data"]) == set(k for k, _ in want["data"])
                if kn.startswith("bal:"):
                    ok = ok and [set(k for k, _ in d) for d in got["children"]] == [set(k for k, _ in d) for d in want["children"]]
            else:
                ok = got == want
            if not ok:
                which = [k for k in want if want[k] != got.get(k)]
                res["fail"] = ("data_lost", f"[{kn}] {chan}: restored learner differs from the original in {which} "
                                            f"({l.npoints} points told, restored holds {c.npoints})")
                return res
            exact = chan in ("pickle", "cloudpickle")
            # loss
            la, lb = l.loss(), c.loss()
            if not (X.feq(la, lb, 0.0 if exact else 1e-9)):
                res["fail"] = ("loss_differs", f"[{kn}] {chan}: loss {la!r} vs restored {lb!r}")
                if b == "integ" and X.feq(la, lb, 1e-12):
                    res["integ_ulp"] = True  # the integrator sums over a set of interval objects hashed by identity
                return res
            # next suggestions
            if b == "avg1d":
                continue
            if b == "l2d" and not exact and X.sync_l2d_stacks(kn, l, c):
                # known mechanism (finding l2d_stack_cache): only the pickle channels carry Learner2D's suggestion stack, a
                # file / copy_from restore starts with an empty one.  Counted; the stack is copied over so that every other
                # difference between the original and the restored learner stays visible.
                res.setdefault("l2d_stack", f"[{kn}] {chan}: the restored Learner2D has an empty suggestion stack, the original holds "
                                            f"{sum(len(x._stack) for x in X.inner_learners(kn, l))} cached suggestion(s)")
            for n in ((1, 3) if not early else (1, 3, 7, 11)):
                if b == "seq" and n + len(r.told) > 10:
                    continue
                try:
                    # asked on exact clones: copy_from shares containers between an IntegratorLearner and its copy, so an
                    # ask on one of them (even a non-committing one) would move the other's stack
                    pa, pb = _clone(l).ask(n, tell_pending=False), _clone(c).ask(n, tell_pending=False)
                except Exception:
                    break
                if not X.same_points(pa, pb, 0.0 if exact else 1e-9):
                    res["fail"] = ("suggestions_differ", f"[{kn}] {chan}: ask({n}) {pa[0]} vs restored {pb[0]}")
                    if b.startswith("l1d"):
                        inners = l.learners if kn.startswith("bal:") else [l.learner if kn.startswith("ds:") else l]
                        if any(bd not in c1.data for c1 in inners for bd in c1.bounds):
                            res["unevaluated_bound"] = True
                    return res
    finally:
        shutil.rmtree(scratch, ignore_errors=True)
    if res["fail"] is None and res.get("l2d_stack"):
        res["fail"] = ("suggestions_differ", res["l2d_stack"])
        res["l2d_stack_only"] = True
    return res


def integ_case(arg):
    """IntegratorLearner: restore at EVERY moment without pending points of a long run (the queue of forced splits and
    the stack are part of what a restore must carry over)"""
    seed, npts = arg
    import math
    import adaptive
    rng = random.Random(seed)
    fk = rng.choice(["sqrt", "step", "peak", "smooth"])
    f = {"sqrt": lambda x: math.sqrt(abs(x - 0.3)), "step": lambda x: 1.0 if x > 0.3 else 0.0,
         "peak": lambda x: 1 / (1e-3 + (x - 0.1) ** 2), "smooth": lambda x: math.exp(-3 * x * x)}[fk]
    l = adaptive.IntegratorLearner(f, bounds=(-1.0, 1.0), tol=1e-9)
    res = {"kind": "integ-run:" + fk, "seed": seed, "nops": npts, "fail": None, "channels": 0}
    try:
        while l.npoints < npts and not l.done():
            pts, _ = l.ask(rng.choice([1, 2, 3, 5, 8, 17]))
            rng.shuffle(pts)
            for x in pts:
                l.tell(x, f(x))
            if l.pending_points:
                continue
            for chan in ("pickle", "copy_from"):
                if chan == "pickle":
                    c = pickle.loads(pickle.dumps(l)) if fk == "never" else cloudpickle.loads(cloudpickle.dumps(l))
                else:
                    c = l.new()
                    c.copy_from(_clone(l))
                res["channels"] += 1
                if L.canon(dict(c.data)) != L.canon(dict(l.data)):
                    res["fail"] = ("data_lost", f"[integ] {chan} after {l.npoints} points: data differs")
                    return res
                for n in (1, 4, 12):
                    pa, pb = _clone(l).ask(n, tell_pending=False), _clone(c).ask(n, tell_pending=False)
                    if L.canon(pa) != L.canon(pb):
                        res["fail"] = ("suggestions_differ", f"[integ, {fk}] {chan} after {l.npoints} points: ask({n}) {pa[0][:4]} vs restored {pb[0][:4]}")
                        return res
    except Exception as e:
        res["aborted"] = type(e).__name__
    return res


def run(ctx):
    proof = core.prove(MODULES, extra_targets=["AdaptiveProofs.Examples.Misc"], leanchecker=ctx.thorough)
    core.OUT.mkdir(exist_ok=True)
    root = tempfile.mkdtemp(prefix="c13_", dir=core.OUT)
    try:
        args = [(kn, ctx.rng.randrange(1 << 30), ctx.n(30, 70), root) for kn in KINDS for _ in range(ctx.n(10, 200))]
        results = core.pmap(case, args)
        results += core.pmap(integ_case, [(ctx.rng.randrange(1 << 30), ctx.n(180, 400)) for _ in range(ctx.n(16, 200))])
    finally:
        shutil.rmtree(root, ignore_errors=True)
    failures, dist, aborted = [], {}, {}
    for r in results:
        dist[r["kind"]] = dist.get(r["kind"], 0) + 1
        if r.get("aborted"):
            aborted[r["kind"] + ":" + r["aborted"]] = aborted.get(r["kind"] + ":" + r["aborted"], 0) + 1
        if r["fail"]:
            cl, det = r["fail"]
            sig = f"C13.{cl}.{r['kind']}"
            if r.get("unevaluated_bound"):
                sig = "C13.suggestions_differ:l1d_restore_with_unevaluated_bound"
            if cl == "loss_differs" and r.get("integ_ulp"):
                sig = "C13.loss_differs:integ_sum_order_ulp"
            if r["kind"].split(":")[-1] == "l2d" and cl == "suggestions_differ" and r.get("l2d_stack_only"):
                sig = "C13.suggestions_differ:l2d_stack_cache"
            failures.append({"clause": cl, "signature": sig, "detail": det,
                             "replay": {"kind": r["kind"], "seed": r["seed"], "nops": r["nops"]}})
    # Learner2D's bookkeeping model restored the same three ways (copy_from, save/load, pickle) in the middle of histories:
    # AdaptiveModel/L2D.lean (setData / restoreFile / setState) against the real class, bit for bit
    from harness import l2d_drive
    corr = core.Corr("Learner2D~L2D.lean (with copy_from, save/load and pickle restores)")
    lrng = random.Random(ctx.rng.randrange(1 << 30))
    lcases = [dict(c) for c in l2d_drive.CORPUS] + [l2d_drive.gen_case(lrng, ctx.n(40, 60)) for _ in range(ctx.n(100, 1500))]
    lres = core.pmap(l2d_drive._one, lcases)
    for r in lres:
        for k, v in r["stats"].items():
            corr.count(k, int(v))
        if r["err"] and str(r["err"]).startswith("harness"):
            raise RuntimeError(r["err"])
        if r["err"]:
            corr.count("history_cut_by_exception_of_the_geometry")
    core.lockstep(corr, lres, shards=ctx.n(4, 12))
    return core.conclude(
        ctx, proof, [corr], failures,
        rule="histories (out-of-order delivery, unsuggested points, pending marks, discards, scalar and vector outputs) ending with no "
             "pending points, for 24 learner kinds incl. wrappers, restored through save/load with and without gzip, pickle, "
             "cloudpickle and copy_from; Learner1D with _recompute_losses_factor = 1 as the property says; "
             "non-trivial = (kind, seed) history restored through at least one channel",
        samples=[list(a[:3]) for a in args[:3]],
        evaluations=sum(r["channels"] for r in results), distinct=sum(1 for r in results if r["channels"]),
        explanation="restored.data must equal original.data exactly (keys only for AverageLearner1D, whose values are recomputed "
                    "means), incl. extra_data and per-child data; loss and the next ask(1)/ask(3) are compared exactly for pickles "
                    "and to 1e-9 for file/copy restores.",
        trusted=core.COMMON_TRUSTED + ["cloudpickle / gzip byte formats"],
        assumptions=["Learner2D is exercised since its NumPy 2 / SciPy 1.15 breakage was repaired (fix: commits)"],
        extra={"kinds": dist, "histories_aborted": aborted},
        partial=["Learner1D (exact recomputation) and AverageLearner: restore-bisimilarity is proved - the restored learner and the original "
                 "agree on losses and on the answer to every later ask after EVERY common continuation (l1d_restore_bisimilar, "
                 "avg_restore_bisimilar; the hypothesis 'no pending points' is necessary: kernel-checked counterexamples); "
                 "Learner2D (L2D.lean): file / copy_from restore = same data with the stack replaced by the unevaluated corners, pickle without "
                 "pending points = the same state (proved; the later suggestions after a FILE restore differ by the recorded stack finding); "
                 "LearnerND / IntegratorLearner / AverageLearner1D have no Lean model of _get_data/_set_data: twin oracle only"],
    )


def replay(ctx, path):
    d = json.load(open(path)).get("replay")
    core.OUT.mkdir(exist_ok=True)
    if d["kind"].startswith("integ-run"):
        r = integ_case((d["seed"], d["nops"]))
    else:
        r = case((d["kind"], d["seed"], d["nops"], str(core.OUT)))
    print(r)
    return 1 if r["fail"] else 0
