"""C16 — averaging learners report the sample statistics of exactly the data they hold.

proof:  lean/AdaptiveProofs/Props/C16.lean over Avg.lean / Avg1D.lean (ordered fields) and
        lean/AdaptiveProofs/Props/C16Full.lean over Avg1DFull.lean (the complete AverageLearner1D:
        Learner1D loss machinery, distances, rescaled errors, all three branches of ask)
tie:    AverageLearner and AverageLearner1D in lock-step with the same definitions at Float
        (set-iteration choices and scipy.stats.t.ppf values are recorded oracles); third correspondence:
        real AverageLearner1D histories against the full model, bit for bit (harness/a1f_drive.py)
search: statistics recomputed exactly with fractions.Fraction on the real objects; the ask rule and
        rescaled_error = error / min neighbouring distance re-derived from the public state
"""
from __future__ import annotations

import math
import random
from fractions import Fraction

import numpy as np
import scipy.stats

import adaptive
from harness import core
from harness.core import f2b

MODULES = ["AdaptiveProofs.Props.C16", "AdaptiveProofs.Props.C16Full", "AdaptiveProofs.Props.C16Loss", "AdaptiveProofs.Props.C16LossValues"]


def fb(x):
    return str(f2b(float(x)))


# ------------------------------------------------------------------ AverageLearner
def avg_obs(l):
    d = ",".join(f"{k}:{float(v)!r}" for k, v in l.data.items())
    pend = ",".join(map(str, sorted(l.pending_points)))
    if l.npoints == 0:
        mean, std, lt, lf = "undef", "inf", "inf", "inf"
    else:
        mean, std = repr(float(l.mean)), repr(float(l.std))
        lt, lf = repr(float(l.loss(real=True))), repr(float(l.loss(real=False)))
    return (f"data={d} pending={pend} npoints={l.npoints} sumf={float(l.sum_f)!r} sumfsq={float(l.sum_f_sq)!r} "
            f"mean={mean} std={std} lossT={lt} lossF={lf}")


def rand_value(rng, dist):
    if dist == "dyadic":
        return rng.randrange(-64, 65) / 16.0
    if dist == "normal":
        return rng.gauss(0.3, 2.0)
    if dist == "const":
        return 1.25
    if dist == "wide":
        return rng.choice([1e-6, 1.0, 1e6]) * rng.uniform(-1, 1)
    if dist == "zero_mean":
        return rng.choice([-1.0, 1.0])
    raise ValueError(dist)


def avg_case(rng, nops):
    atol = rng.choice([None, 0.1, 1.0, 0.003])
    rtol = rng.choice([None, 0.1, 0.5]) if atol is not None else rng.choice([0.1, 0.5])
    minn = rng.choice([0, 2, 3, 5])
    dist = rng.choice(["dyadic", "normal", "const", "wide", "zero_mean"])
    l = adaptive.AverageLearner(lambda s: s, atol=atol, rtol=rtol, min_npoints=minn)
    lines = [f"avg new {fb(atol) if atol is not None else 'inf'} {fb(rtol) if rtol is not None else 'inf'} {minn}"]
    outs = ["ok " + avg_obs(l)]
    fails = []
    told = {}
    for _ in range(nops):
        r = rng.random()
        if r < 0.5:
            k = rng.choice([rng.randrange(0, 12), rng.randrange(0, 40)])  # repeated, missing, out-of-order seeds
            v = rand_value(rng, dist)
            l.tell(k, v)
            told.setdefault(k, v)
            lines.append(f"avg tell {k} {fb(v)}")
            outs.append("ok " + avg_obs(l))
        elif r < 0.56:
            # a batch with repeated seeds and seeds that already have a value (merged runs with overlapping seed ranges)
            ks = [rng.choice([rng.randrange(0, 12), rng.randrange(0, 40)]) for _ in range(rng.choice([2, 3, 6]))]
            if rng.random() < 0.5:
                ks.append(ks[0])
            vs = [rand_value(rng, dist) for _ in ks]
            l.tell_many(list(ks), list(vs))
            for k, v in zip(ks, vs):
                told.setdefault(k, v)
            lines.append(f"avg tell_many {','.join(map(str, ks))} {','.join(fb(v) for v in vs)}")
            outs.append("ok " + avg_obs(l))
        elif r < 0.62:
            k = rng.randrange(0, 30)
            l.tell_pending(k)
            lines.append(f"avg tell_pending {k}")
            outs.append("ok " + avg_obs(l))
        elif r < 0.68:
            l.remove_unfinished()
            lines.append("avg remove_unfinished")
            outs.append("ok " + avg_obs(l))
        else:
            n, c = rng.choice([1, 1, 2, 3, 5]), rng.random() < 0.7  # ask(0) raises ZeroDivisionError (inf/0); outside C16
            known = set(l.data) | set(l.pending_points)
            pts, imps = l.ask(n, tell_pending=c)
            pts = [int(p) for p in pts]
            if len(pts) != n or len(set(pts)) != n or any(p in known for p in pts):
                fails.append(("avg_ask_fresh", f"ask({n}) returned {pts} with known seeds {sorted(known)[:20]}"))
            lines.append(f"avg ask {n} {int(c)} {','.join(map(str, pts)) or '-'}")
            outs.append("pts=" + ",".join(map(str, pts)) + " " + avg_obs(l))
        f = avg_oracle(l, told, atol, rtol, max(minn, 2))
        if f:
            fails.append(f)
    return {"lines": lines, "impl": outs, "meta": {"dist": dist}}, fails


def avg_oracle(l, told, atol, rtol, minn):
    """exact recomputation of the statistics from the told values (first value per seed)"""
    if {k: float(v) for k, v in l.data.items()} != {k: float(v) for k, v in told.items()}:
        return ("avg_data", "data is not the map of first-told values")
    n = len(told)
    if l.npoints != n:
        return ("avg_count", f"npoints {l.npoints} != {n}")
    if n == 0:
        return None
    vs = [Fraction(float(v)) for v in told.values()]
    mean = sum(vs) / n
    tol = lambda a, b: abs(a - b) <= 1e-9 * max(abs(a), abs(b)) + 1e-12 * max(1.0, max(abs(float(v)) for v in vs))
    if not tol(float(l.mean), float(mean)):
        return ("avg_mean", f"mean {l.mean} vs exact {float(mean)}")
    if n < minn:
        if l.std != np.inf or l.loss() != np.inf:
            return ("avg_min_npoints", f"std/loss finite with {n} < min_npoints={minn} points")
        return None
    var = sum((v - mean) ** 2 for v in vs) / (n - 1)
    std = math.sqrt(float(var))
    scale = max(abs(float(v)) for v in vs)
    # sum_f_sq - n*mean^2 cancels catastrophically: absolute error ~ eps * n * scale^2
    if abs(float(l.std) ** 2 - float(var)) > 1e-9 * float(var) + 64 * 2.3e-16 * n * scale * scale:
        return ("avg_std", f"std {l.std} vs corrected sample std {std}")
    se = float(l.std) / math.sqrt(n)
    al = se / atol if atol is not None else 0.0
    rl = se / rtol if rtol is not None else 0.0
    if mean != 0:
        rl /= abs(float(mean))
    want = max(al, rl)
    if not (abs(float(l.loss()) - want) <= 1e-9 * max(abs(want), 1e-300)):
        return ("avg_loss", f"loss {l.loss()} vs {want}")
    return None


# ------------------------------------------------------------------ AverageLearner1D
class TRecorder:
    def __init__(self):
        self.last = 0.0
        self.real = scipy.stats.t.ppf

    def __call__(self, q, df, *a, **k):
        v = self.real(q, df, *a, **k)
        self.last = float(v)
        self.calls.append((float(q), int(df), float(v)))
        return v


def a1_obs(l):
    pts = []
    for x in sorted(l._data_samples):
        ns = l._number_samples.get(x)
        err = l.error.get(x, float("inf"))
        samples = ";".join(f"{s}~{float(y)!r}" for s, y in l._data_samples[x].items())
        e = "inf" if err == float("inf") else repr(float(err))
        pts.append(f"{float(x)!r}|{float(l.data[x])!r}|{ns}|{e}|{samples}")
    under = ",".join(repr(float(x)) for x in sorted(l._undersampled_points))
    return f"pts={','.join(pts)} under={under}"


def a1_case(rng, nops, trec):
    mins = rng.choice([2, 3, 4, 6])
    maxs = rng.choice([8, 20, 1000])
    ns = rng.choice([0.3, 0.5, 1.0])
    dist = rng.choice(["dyadic", "normal", "wide"])
    alpha = rng.choice([0.005, 0.005, 0.05, 0.2])  # several confidence levels within one process
    l = adaptive.AverageLearner1D(lambda sx: 0.0, bounds=(-1.0, 1.0), min_samples=mins, max_samples=maxs,
                                  neighbor_sampling=ns, alpha=alpha)
    lines = [f"a1 new {mins} {maxs} {fb(ns)}"]
    outs = ["ok " + a1_obs(l)]
    fails = []
    grid = [round(-1 + 0.25 * i, 2) for i in range(9)]
    store = {}  # x -> {seed: y}
    literal_fail = None
    for _ in range(nops):
        r = rng.random()
        x = rng.choice(grid[: rng.choice([2, 4, 9])])
        if r < 0.55:
            seed = rng.randrange(0, 10)
            y = rand_value(rng, dist)
            trec.last = 0.0
            l.tell((seed, x), y)
            store.setdefault(x, {}).setdefault(seed, y)
            lines.append(f"a1 tell {seed} {fb(x)} {fb(y)} {fb(trec.last)}")
            outs.append("ok " + a1_obs(l))
        elif r < 0.75:
            have = set(store.get(x, {}))
            fresh = [s for s in range(300) if s not in have]
            k = rng.choice([2, 3, 5])
            seeds = rng.sample(fresh, k)
            ys = [rand_value(rng, dist) for _ in seeds]
            trec.last = 0.0
            l.tell_many_at_point(x, dict(zip(seeds, ys)))
            for s_, y_ in zip(seeds, ys):
                store.setdefault(x, {})[s_] = y_
            lines.append(f"a1 tell_many {fb(x)} {','.join(map(str, seeds))} {','.join(fb(y) for y in ys)} {fb(trec.last)}")
            outs.append("ok " + a1_obs(l))
        else:
            n = rng.choice([1, 2, 4])
            under_before = set(l._undersampled_points)
            low = {xx for xx, ss in store.items() if len(ss) < mins}
            try:
                pts, _ = l.ask(n, tell_pending=False)
            except Exception as e:
                fails.append(("a1_ask_exception", repr(e)))
                break
            if under_before:
                c = pts[0][1]
                lines.append(f"a1 ask {n} {fb(c)}")
                outs.append("pts=" + ",".join(f"{s}@{float(xx)!r}" for s, xx in pts) + " " + a1_obs(l))
                if c not in under_before:
                    fails.append(("a1_request_not_undersampled", f"request went to x={c}, not an under-sampled abscissa, while {sorted(under_before)} are"))
                if low and c not in low and literal_fail is None:
                    literal_fail = ("a1_request_goes_to_low_count_abscissa",
                                    f"abscissae {sorted(low)} have fewer than min_samples={mins} samples but the request "
                                    f"went to x={c} which has {len(store.get(c, {}))}")
            else:
                lines.append(f"a1 ask {n} -")
                outs.append("other-branch " + a1_obs(l))
        f = a1_oracle(l, store, mins, trec)
        if f:
            fails.append(f)
    if literal_fail:
        fails.append(literal_fail)
    return {"lines": lines, "impl": outs, "meta": {"dist": dist}}, fails


def a1_oracle(l, store, mins, trec):
    for x, ss in store.items():
        ys = [Fraction(float(y)) for y in ss.values()]
        n = len(ys)
        mean = sum(ys) / n
        scale = max(1e-300, max(abs(float(y)) for y in ys))
        if abs(float(l.data[x]) - float(mean)) > 1e-9 * scale:
            return ("a1_mean", f"value at x={x} is {l.data[x]}, mean of samples {float(mean)}")
        if l._number_samples[x] != n or len(l._data_samples[x]) != n:
            return ("a1_count", f"count at x={x}: {l._number_samples[x]} / {len(l._data_samples[x])} vs {n} samples told")
        if n >= 2:
            var = sum((y - mean) ** 2 for y in ys) / (n - 1)
            t = float(trec.real(1 - l.alpha, df=n - 1))
            want = t * math.sqrt(float(var) / n)
            if abs(float(l.error[x]) - want) > 1e-7 * max(want, 1e-9 * scale) + 1e-7 * scale:
                return ("a1_error", f"error at x={x} is {l.error[x]}, Student-t half-width {want}")
        if n < mins and x not in l._undersampled_points:
            return ("a1_undersampled_tracked", f"x={x} has {n} < {mins} samples but is not marked under-sampled")
    return None


PARTIAL = [
    "AverageLearner1D: no theorem about the VALUES of the inherited loss tables (losses / losses_combined) of the full "
    "model; they are tied to the code by the bit-exact lock-step only (the three re-computation loops iterate the live "
    "container, so Learner1D's C01 invariant does not transfer verbatim)",
    "AverageLearner1D: the requested NEW abscissa is characterised as the point Learner1D's rule proposes on the inherited "
    "state (C02's theorems about that rule are proved for Learner1D's own histories, not re-proved for these)",
]


# ------------------------------------------------------------------ AverageLearner1D, full model
class _Real:
    def __init__(self, fn):
        self.real = fn


def full_oracle(l, store, info, mins, real_ppf):
    """the property's statement (and the documented ask rule) evaluated on the real object"""
    f = a1_oracle(l, store, mins, _Real(real_ppf))
    if f:
        return f
    inf = float("inf")
    xs = sorted(l.data)
    for x, v in l.rescaled_error.items():
        i = xs.index(x)
        ds = []
        if i > 0:
            ds.append(math.hypot(x - xs[i - 1], float(l.data[x]) - float(l.data[xs[i - 1]])))
        if i + 1 < len(xs):
            ds.append(math.hypot(xs[i + 1] - x, float(l.data[xs[i + 1]]) - float(l.data[x])))
        want = inf if (not ds or l.error[x] == inf) else float(l.error[x]) / min(ds)
        if not (v == want or abs(float(v) - want) <= 1e-9 * max(abs(want), abs(float(v)))):
            return ("a1f_rescaled_error", f"rescaled_error[{x}] = {v}, error/min neighbouring distance = {want}")
    if info.get("op") == "ask":
        b, pts, n = info["before"], info["pts"], info["n"]
        xs_req = {x for _, x in pts}
        if len(pts) != n or len(xs_req) != 1:
            return ("a1f_ask_shape", f"ask({n}) returned {pts}")
        x = pts[0][1]
        if b["under"]:
            if x not in b["under"]:
                return ("a1_request_not_undersampled", f"request went to x={x}, not an under-sampled abscissa, while {sorted(b['under'])} are")
            low = {xx for xx, k in b["ns"].items() if k < mins}
            if low and x not in low:
                return ("a1_request_goes_to_low_count_abscissa",
                        f"abscissae {sorted(low)} have fewer than min_samples={mins} samples but the request went to x={x} "
                        f"which has {b['ns'].get(x)}")
        else:
            top = max((v for _, v in b["resc"]), default=None)
            resample = b["ndata"] >= 2 and top is not None and top > l.delta
            if resample:
                if not (dict(b["resc"]).get(x) == top):
                    return ("a1f_request_not_largest_rescaled_error", f"request went to x={x}; largest rescaled error {top}")
                if b["ns"][x] >= l.max_samples and b["ns"][x] > 1:
                    return ("a1f_request_beyond_max_samples", f"x={x} already has {b['ns'][x]} >= max_samples samples")
            elif x in b["data"]:
                return ("a1f_request_not_new", f"no abscissa is under-sampled, none exceeds delta, but the request went to the known x={x}")
            if (x in b["data"]) and [s for s, _ in pts] != [b["ns"][x] + i for i in range(n)]:
                return ("a1f_request_seeds", f"re-sampling request {pts} with {b['ns'][x]} samples held")
    return None


def full_case(case):
    from harness import a1f_drive
    store, fails = {}, []
    real_ppf = scipy.stats.t.ppf

    def hook(l, info):
        for (seed, x), y in info.get("told", []):
            store.setdefault(x, {}).setdefault(seed, y)
        if len(fails) < 3:
            f = full_oracle(l, store, info, case["min_samples"], real_ppf)
            if f:
                fails.append(f)

    try:
        r = a1f_drive.execute(case, hook)
    except Exception as e:          # the real learner (or a recorded kernel) raised: a failing input, not infrastructure
        import traceback
        tb = traceback.extract_tb(e.__traceback__)
        fr = [f for f in tb if "/adaptive/" in f.filename]
        if not fr:
            raise   # raised by the harness itself: an infrastructure failure (exit 2), not a finding about the learner
        where = f"{fr[-1].filename.split('/adaptive/')[-1]}:{fr[-1].name}: {fr[-1].line}" if fr else "harness"
        return {"lines": [], "impl": [], "stats": {"exception": 1}, "skipped": "exception", "tolerance_fail": None,
                "fails": [("a1f_exception", f"{type(e).__name__}: {e} at {where}")], "meta": dict(case)}
    r.pop("learner", None)
    if r["tolerance_fail"]:
        fails.append(("a1f_sqrt_hypot_tolerance", r["tolerance_fail"]))
    # the literal-reading finding is reported once per case, after everything else
    fails.sort(key=lambda f: f[0] == "a1_request_goes_to_low_count_abscissa")
    r["fails"] = fails
    r["meta"] = {k: v for k, v in case.items()}
    return r


def run(ctx):
    proof = core.prove(MODULES, leanchecker=ctx.thorough)
    trec = TRecorder()
    trec.calls = []
    failures = []
    corr_a = core.Corr("AverageLearner~Avg.lean")
    corr_b = core.Corr("AverageLearner1D~Avg1D.lean")
    cases_a, cases_b = [], []
    for _ in range(ctx.n(200, 4000)):
        c, fs = avg_case(ctx.rng, ctx.n(40, 80))
        cases_a.append(c)
        corr_a.count("dist:" + c["meta"]["dist"])
        for f in fs[:1]:
            failures.append({"clause": f[0], "signature": f"C16.{f[0]}", "detail": f[1], "replay": {"lines": c["lines"]}})
    saved = scipy.stats.t.ppf
    scipy.stats.t.ppf = trec
    try:
        for _ in range(ctx.n(150, 3000)):
            c, fs = a1_case(ctx.rng, ctx.n(40, 80), trec)
            cases_b.append(c)
            corr_b.count("dist:" + c["meta"]["dist"])
            for l in c["lines"]:
                corr_b.count("op:" + l.split()[1])
            for f in fs[:1]:
                failures.append({"clause": f[0], "signature": f"C16.{f[0]}", "detail": f[1], "replay": {"lines": c["lines"]}})
    finally:
        scipy.stats.t.ppf = saved
    for c in cases_a:
        for l in c["lines"]:
            corr_a.count("op:" + l.split()[1])
    cmp = lambda a, b: core.float_cmp(a, b, rtol=1e-7, atol=1e-9)
    core.lockstep(corr_a, cases_a, canon_model=core.canon_bits, cmp=cmp)
    core.lockstep(corr_b, cases_b, canon_model=core.canon_bits, cmp=cmp)
    # third correspondence: the complete AverageLearner1D against Avg1DFull.lean, bit for bit
    from harness import a1f_drive
    corr_c = core.Corr("AverageLearner1D~Avg1DFull.lean")
    params = [a1f_drive.gen_case(ctx.rng, ctx.rng.choice([50, 80, 120])) for _ in range(ctx.n(160, 2400))]
    cases_c = []
    for r in core.pmap(full_case, params):
        for k, v in r["stats"].items():
            corr_c.count(k, v)
        for k in ("loss", "noise", "fn", "style"):
            corr_c.count(f"{k}:{r['meta'][k]}")
        for k in ("delta", "min_samples", "max_samples", "neighbor_sampling", "alpha", "min_error"):
            corr_c.count(f"{k}={r['meta'][k]}")
        seen = set()
        for f in r["fails"]:
            if f[0] not in seen:
                seen.add(f[0])
                failures.append({"clause": f[0], "signature": f"C16.{f[0]}", "detail": f[1],
                                 "replay": {"case": r["meta"], "lines": r["lines"] if len(r["lines"]) < 400 else None}})
        if r["skipped"]:
            corr_c.count("skipped:" + r["skipped"])      # two different sqrt corrections for one argument in ONE operation
            continue
        cases_c.append(r)
    core.lockstep(corr_c, cases_c, canon_model=core.canon_bits, shards=8)
    nt = len(corr_a.distinct) + len(corr_b.distinct) + len(corr_c.distinct)
    return core.conclude(
        ctx, proof, [corr_a, corr_b, corr_c], failures,
        rule="seeded tell sequences with repeated, missing and out-of-order seeds over 5 value distributions "
             "(dyadic, normal, constant, 12-decade range, zero-mean), tolerance and min/max-sample settings, interleaved "
             "asks, pending marks, discards (AverageLearner) and single/batched tells on a 9-point grid (AverageLearner1D); "
             "full AverageLearner1D histories (runner-like ask/out-of-order tell rounds, unsuggested samples, tell_many, "
             "tell_many_at_point, pending marks, discards, re-tells; 5 loss functions, noise-free/gaussian/heteroscedastic/"
             "dyadic/heavy noise, several delta/alpha/min_samples/max_samples/neighbor_sampling/min_error); "
             "non-trivial = distinct op-line sequence",
        samples=[c[0]["lines"][:6] for c in (cases_a, cases_b) if c] + [[l[:160] for l in c["lines"][:6]] for c in cases_c[:1]],
        evaluations=len(cases_a) + len(cases_b) + len(cases_c), distinct=nt,
        explanation="Avg.lean / Avg1D.lean are proved about over ordered fields (moments, variance identity, sample std, loss "
                    "formula, fresh seeds with pigeonhole; per-abscissa mean/count/error, batch = single, under-sampled set) and "
                    "executed at Float against the real learners; float results compared to 1e-7 relative (python sum() is "
                    "compensated, x**2 and **0.5 go through pow, np.mean is pairwise). Avg1DFull.lean = the complete "
                    "AverageLearner1D (Learner1D state + samples + distances + rescaled errors; ask with its three branches): "
                    "proved for every op list: the ask rule, rescaled_error sorted / head largest / below max_samples, "
                    "rescaled_error[x] = error[x] / min neighbouring distance, distances and data current, sampling part = "
                    "Avg1D run (so C16.g-k carry over); executed at Float against real histories and compared BIT FOR BIT "
                    "(data, error, rescaled_error in container order, counts, samples, under-sampled set, pending, both loss "
                    "tables, both losses, ask points and improvements, branch taken); the only tolerance (1e-9 relative) is on "
                    "the recorded corrections of sqrt/hypot where python's pow / compensated sum / math.hypot differ from "
                    "sqrt(naive fold) by ulps",
        trusted=core.COMMON_TRUSTED + ["hand-written models Avg.lean, Avg1D.lean, Avg1DFull.lean (on top of L1D.lean)",
                                       "scipy.stats.t.ppf (recorded oracle)", "the loss function (recorded oracle, as for C01)",
                                       "sqrt: theorems assume sqrt(x)^2 = x for x >= 0; math.hypot and (..)**0.5 enter the "
                                       "full model as arbitrary functions (theorems hold for every one)",
                                       "IEEE rounding is outside the theorems",
                                       "sortedcontainers: SortedKeyList.add = bisect_right (ties in insertion order), a list "
                                       "reverse iterator over fewer than 2000 entries (one sub-list)"],
        assumptions=["in-bounds abscissae", "batched tells carry seeds not yet present at that abscissa (the batch path "
                     "double counts otherwise; outside 'telling them one by one' equivalence)"],
        partial=PARTIAL,
    )


def replay(ctx, path):
    import json
    d = json.load(open(path)).get("replay")
    if d.get("case") is not None:          # a full AverageLearner1D history: re-run the real learner, then the model
        r = full_case(d["case"])
        for f in r["fails"]:
            print("oracle:", f)
        d = {"lines": r["lines"]}
    for l, o in zip(d["lines"], [core.canon_bits(x) for x in core.run_driver(d["lines"])]):
        print(l, "\n   model", o)
    return 0
