"""C16 — averaging learners report the sample statistics of exactly the data they hold.

proof:  lean/AdaptiveProofs/Props/C16.lean over Avg.lean / Avg1D.lean (ordered fields)
tie:    AverageLearner and AverageLearner1D in lock-step with the same definitions at Float
        (set-iteration choices and scipy.stats.t.ppf values are recorded oracles)
search: statistics recomputed exactly with fractions.Fraction on the real objects
"""
from __future__ import annotations

import math
import random
from fractions import Fraction

import numpy as np
import scipy.stats

import adaptive
from harness import core
from harness.core import f2b

MODULES = ["AdaptiveProofs.Props.C16"]


def fb(x):
    return str(f2b(float(x)))


# ------------------------------------------------------------------ AverageLearner
def avg_obs(l):
    d = ",".join(f"{k}:{float(v)!r}" for k, v in l.data.items())
    pend = ",".join(map(str, sorted(l.pending_points)))
    if l.npoints == 0:
        mean, std, lt, lf = "undef", "inf", "inf", "inf"
    else:
        mean, std = repr(float(l.mean)), repr(float(l.std))
        lt, lf = repr(float(l.loss(real=True))), repr(float(l.loss(real=False)))
    return (f"data={d} pending={pend} npoints={l.npoints} sumf={float(l.sum_f)!r} sumfsq={float(l.sum_f_sq)!r} "
            f"mean={mean} std={std} lossT={lt} lossF={lf}")


def rand_value(rng, dist):
    if dist == "dyadic":
        return rng.randrange(-64, 65) / 16.0
    if dist == "normal":
        return rng.gauss(0.3, 2.0)
    if dist == "const":
        return 1.25
    if dist == "wide":
        return rng.choice([1e-6, 1.0, 1e6]) * rng.uniform(-1, 1)
    if dist == "zero_mean":
        return rng.choice([-1.0, 1.0])
    raise ValueError(dist)


def avg_case(rng, nops):
    atol = rng.choice([None, 0.1, 1.0, 0.003])
    rtol = rng.choice([None, 0.1, 0.5]) if atol is not None else rng.choice([0.1, 0.5])
    minn = rng.choice([0, 2, 3, 5])
    dist = rng.choice(["dyadic", "normal", "const", "wide", "zero_mean"])
    l = adaptive.AverageLearner(lambda s: s, atol=atol, rtol=rtol, min_npoints=minn)
    lines = [f"avg new {fb(atol) if atol is not None else 'inf'} {fb(rtol) if rtol is not None else 'inf'} {minn}"]
    outs = ["ok " + avg_obs(l)]
    fails = []
    told = {}
    for _ in range(nops):
        r = rng.random()
        if r < 0.5:
            k = rng.choice([rng.randrange(0, 12), rng.randrange(0, 40)])  # repeated, missing, out-of-order seeds
            v = rand_value(rng, dist)
            l.tell(k, v)
            told.setdefault(k, v)
            lines.append(f"avg tell {k} {fb(v)}")
            outs.append("ok " + avg_obs(l))
        elif r < 0.6:
            k = rng.randrange(0, 30)
            l.tell_pending(k)
            lines.append(f"avg tell_pending {k}")
            outs.append("ok " + avg_obs(l))
        elif r < 0.67:
            l.remove_unfinished()
            lines.append("avg remove_unfinished")
            outs.append("ok " + avg_obs(l))
        else:
            n, c = rng.choice([1, 1, 2, 3, 5]), rng.random() < 0.7  # ask(0) raises ZeroDivisionError (inf/0); outside C16
            known = set(l.data) | set(l.pending_points)
            pts, imps = l.ask(n, tell_pending=c)
            pts = [int(p) for p in pts]
            if len(pts) != n or len(set(pts)) != n or any(p in known for p in pts):
                fails.append(("avg_ask_fresh", f"ask({n}) returned {pts} with known seeds {sorted(known)[:20]}"))
            lines.append(f"avg ask {n} {int(c)} {','.join(map(str, pts)) or '-'}")
            outs.append("pts=" + ",".join(map(str, pts)) + " " + avg_obs(l))
        f = avg_oracle(l, told, atol, rtol, max(minn, 2))
        if f:
            fails.append(f)
    return {"lines": lines, "impl": outs, "meta": {"dist": dist}}, fails


def avg_oracle(l, told, atol, rtol, minn):
    """exact recomputation of the statistics from the told values (first value per seed)"""
    if {k: float(v) for k, v in l.data.items()} != {k: float(v) for k, v in told.items()}:
        return ("avg_data", "data is not the map of first-told values")
    n = len(told)
    if l.npoints != n:
        return ("avg_count", f"npoints {l.npoints} != {n}")
    if n == 0:
        return None
    vs = [Fraction(float(v)) for v in told.values()]
    mean = sum(vs) / n
    tol = lambda a, b: abs(a - b) <= 1e-9 * max(abs(a), abs(b)) + 1e-12 * max(1.0, max(abs(float(v)) for v in vs))
    if not tol(float(l.mean), float(mean)):
        return ("avg_mean", f"mean {l.mean} vs exact {float(mean)}")
    if n < minn:
        if l.std != np.inf or l.loss() != np.inf:
            return ("avg_min_npoints", f"std/loss finite with {n} < min_npoints={minn} points")
        return None
    var = sum((v - mean) ** 2 for v in vs) / (n - 1)
    std = math.sqrt(float(var))
    scale = max(abs(float(v)) for v in vs)
    # sum_f_sq - n*mean^2 cancels catastrophically: absolute error ~ eps * n * scale^2
    if abs(float(l.std) ** 2 - float(var)) > 1e-9 * float(var) + 64 * 2.3e-16 * n * scale * scale:
        return ("avg_std", f"std {l.std} vs corrected sample std {std}")
    se = float(l.std) / math.sqrt(n)
    al = se / atol if atol is not None else 0.0
    rl = se / rtol if rtol is not None else 0.0
    if mean != 0:
        rl /= abs(float(mean))
    want = max(al, rl)
    if not (abs(float(l.loss()) - want) <= 1e-9 * max(abs(want), 1e-300)):
        return ("avg_loss", f"loss {l.loss()} vs {want}")
    return None


# ------------------------------------------------------------------ AverageLearner1D
class TRecorder:
    def __init__(self):
        self.last = 0.0
        self.real = scipy.stats.t.ppf

    def __call__(self, q, df, *a, **k):
        v = self.real(q, df, *a, **k)
        self.last = float(v)
        self.calls.append((float(q), int(df), float(v)))
        return v


def a1_obs(l):
    pts = []
    for x in sorted(l._data_samples):
        ns = l._number_samples.get(x)
        err = l.error.get(x, float("inf"))
        samples = ";".join(f"{s}~{float(y)!r}" for s, y in l._data_samples[x].items())
        e = "inf" if err == float("inf") else repr(float(err))
        pts.append(f"{float(x)!r}|{float(l.data[x])!r}|{ns}|{e}|{samples}")
    under = ",".join(repr(float(x)) for x in sorted(l._undersampled_points))
    return f"pts={','.join(pts)} under={under}"


def a1_case(rng, nops, trec):
    mins = rng.choice([2, 3, 4, 6])
    maxs = rng.choice([8, 20, 1000])
    ns = rng.choice([0.3, 0.5, 1.0])
    dist = rng.choice(["dyadic", "normal", "wide"])
    alpha = rng.choice([0.005, 0.005, 0.05, 0.2])  # several confidence levels within one process
    l = adaptive.AverageLearner1D(lambda sx: 0.0, bounds=(-1.0, 1.0), min_samples=mins, max_samples=maxs,
                                  neighbor_sampling=ns, alpha=alpha)
    lines = [f"a1 new {mins} {maxs} {fb(ns)}"]
    outs = ["ok " + a1_obs(l)]
    fails = []
    grid = [round(-1 + 0.25 * i, 2) for i in range(9)]
    store = {}  # x -> {seed: y}
    literal_fail = None
    for _ in range(nops):
        r = rng.random()
        x = rng.choice(grid[: rng.choice([2, 4, 9])])
        if r < 0.55:
            seed = rng.randrange(0, 10)
            y = rand_value(rng, dist)
            trec.last = 0.0
            l.tell((seed, x), y)
            store.setdefault(x, {}).setdefault(seed, y)
            lines.append(f"a1 tell {seed} {fb(x)} {fb(y)} {fb(trec.last)}")
            outs.append("ok " + a1_obs(l))
        elif r < 0.75:
            have = set(store.get(x, {}))
            fresh = [s for s in range(300) if s not in have]
            k = rng.choice([2, 3, 5])
            seeds = rng.sample(fresh, k)
            ys = [rand_value(rng, dist) for _ in seeds]
            trec.last = 0.0
            l.tell_many_at_point(x, dict(zip(seeds, ys)))
            for s_, y_ in zip(seeds, ys):
                store.setdefault(x, {})[s_] = y_
            lines.append(f"a1 tell_many {fb(x)} {','.join(map(str, seeds))} {','.join(fb(y) for y in ys)} {fb(trec.last)}")
            outs.append("ok " + a1_obs(l))
        else:
            n = rng.choice([1, 2, 4])
            under_before = set(l._undersampled_points)
            low = {xx for xx, ss in store.items() if len(ss) < mins}
            try:
                pts, _ = l.ask(n, tell_pending=False)
            except Exception as e:
                fails.append(("a1_ask_exception", repr(e)))
                break
            if under_before:
                c = pts[0][1]
                lines.append(f"a1 ask {n} {fb(c)}")
                outs.append("pts=" + ",".join(f"{s}@{float(xx)!r}" for s, xx in pts) + " " + a1_obs(l))
                if c not in under_before:
                    fails.append(("a1_request_not_undersampled", f"request went to x={c}, not an under-sampled abscissa, while {sorted(under_before)} are"))
                if low and c not in low and literal_fail is None:
                    literal_fail = ("a1_request_goes_to_low_count_abscissa",
                                    f"abscissae {sorted(low)} have fewer than min_samples={mins} samples but the request "
                                    f"went to x={c} which has {len(store.get(c, {}))}")
            else:
                lines.append(f"a1 ask {n} -")
                outs.append("other-branch " + a1_obs(l))
        f = a1_oracle(l, store, mins, trec)
        if f:
            fails.append(f)
    if literal_fail:
        fails.append(literal_fail)
    return {"lines": lines, "impl": outs, "meta": {"dist": dist}}, fails


def a1_oracle(l, store, mins, trec):
    for x, ss in store.items():
        ys = [Fraction(float(y)) for y in ss.values()]
        n = len(ys)
        mean = sum(ys) / n
        scale = max(1e-300, max(abs(float(y)) for y in ys))
        if abs(float(l.data[x]) - float(mean)) > 1e-9 * scale:
            return ("a1_mean", f"value at x={x} is {l.data[x]}, mean of samples {float(mean)}")
        if l._number_samples[x] != n or len(l._data_samples[x]) != n:
            return ("a1_count", f"count at x={x}: {l._number_samples[x]} / {len(l._data_samples[x])} vs {n} samples told")
        if n >= 2:
            var = sum((y - mean) ** 2 for y in ys) / (n - 1)
            t = float(trec.real(1 - l.alpha, df=n - 1))
            want = t * math.sqrt(float(var) / n)
            if abs(float(l.error[x]) - want) > 1e-7 * max(want, 1e-9 * scale) + 1e-7 * scale:
                return ("a1_error", f"error at x={x} is {l.error[x]}, Student-t half-width {want}")
        if n < mins and x not in l._undersampled_points:
            return ("a1_undersampled_tracked", f"x={x} has {n} < {mins} samples but is not marked under-sampled")
    return None


def run(ctx):
    proof = core.prove(MODULES, leanchecker=ctx.thorough)
    trec = TRecorder()
    trec.calls = []
    failures = []
    corr_a = core.Corr("AverageLearner~Avg.lean")
    corr_b = core.Corr("AverageLearner1D~Avg1D.lean")
    cases_a, cases_b = [], []
    for _ in range(ctx.n(200, 4000)):
        c, fs = avg_case(ctx.rng, ctx.n(40, 80))
        cases_a.append(c)
        corr_a.count("dist:" + c["meta"]["dist"])
        for f in fs[:1]:
            failures.append({"clause": f[0], "signature": f"C16.{f[0]}", "detail": f[1], "replay": {"lines": c["lines"]}})
    saved = scipy.stats.t.ppf
    scipy.stats.t.ppf = trec
    try:
        for _ in range(ctx.n(150, 3000)):
            c, fs = a1_case(ctx.rng, ctx.n(40, 80), trec)
            cases_b.append(c)
            corr_b.count("dist:" + c["meta"]["dist"])
            for l in c["lines"]:
                corr_b.count("op:" + l.split()[1])
            for f in fs[:1]:
                failures.append({"clause": f[0], "signature": f"C16.{f[0]}", "detail": f[1], "replay": {"lines": c["lines"]}})
    finally:
        scipy.stats.t.ppf = saved
    for c in cases_a:
        for l in c["lines"]:
            corr_a.count("op:" + l.split()[1])
    cmp = lambda a, b: core.float_cmp(a, b, rtol=1e-7, atol=1e-9)
    core.lockstep(corr_a, cases_a, canon_model=core.canon_bits, cmp=cmp)
    core.lockstep(corr_b, cases_b, canon_model=core.canon_bits, cmp=cmp)
    nt = len(corr_a.distinct) + len(corr_b.distinct)
    return core.conclude(
        ctx, proof, [corr_a, corr_b], failures,
        rule="seeded tell sequences with repeated, missing and out-of-order seeds over 5 value distributions "
             "(dyadic, normal, constant, 12-decade range, zero-mean), tolerance and min/max-sample settings, interleaved "
             "asks, pending marks, discards (AverageLearner) and single/batched tells on a 9-point grid (AverageLearner1D); "
             "non-trivial = distinct op-line sequence",
        samples=[cases_a[0]["lines"][:6], cases_b[0]["lines"][:6]],
        evaluations=len(cases_a) + len(cases_b), distinct=nt,
        explanation="Avg.lean / Avg1D.lean are proved about over ordered fields (moments, variance identity, sample std, loss "
                    "formula, fresh seeds with pigeonhole; per-abscissa mean/count/error, batch = single, under-sampled set) and "
                    "executed at Float against the real learners; float results compared to 1e-7 relative (python sum() is "
                    "compensated, x**2 and **0.5 go through pow, np.mean is pairwise)",
        trusted=core.COMMON_TRUSTED + ["hand-written models Avg.lean, Avg1D.lean", "scipy.stats.t.ppf (recorded oracle)",
                                       "sqrt: theorems assume sqrt(x)^2 = x for x >= 0", "IEEE rounding is outside the theorems"],
        assumptions=["in-bounds abscissae", "batched tells carry seeds not yet present at that abscissa (the batch path "
                     "double counts otherwise; outside 'telling them one by one' equivalence)"],
        partial=["the Learner1D-inherited loss machinery and the rescaled-error ordering of AverageLearner1D.ask are not modelled"],
    )


def replay(ctx, path):
    import json
    d = json.load(open(path)).get("replay")
    for l, o in zip(d["lines"], [core.canon_bits(x) for x in core.run_driver(d["lines"])]):
        print(l, "\n   model", o)
    return 0
