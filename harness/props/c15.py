"""C15 — BalancingLearner routes, aggregates and balances correctly.

proof:  lean/AdaptiveProofs/Props/C15.lean over AdaptiveModel/Balancing.lean (any lawful children)
tie:    real BalancingLearner over SequenceLearner children in lock-step with the model (all four strategies,
        strategy switches, out-of-order tells, explicit tell_pending, remove_unfinished, both loss flags)
search: the property's clauses evaluated on the real object over Sequence/Average/Learner1D children, with
        deep-copied children as the reference for "a point that child itself proposed"
"""
from __future__ import annotations

import copy
import json
import math
import random
import warnings

import numpy as np

import adaptive
from harness import core
from harness.core import f2b

MODULES = ["AdaptiveProofs.Props.C15"]
STRATS = ["loss_improvements", "loss", "npoints", "cycle"]


# ---------------------------------------------------------------------------- lock-step (Sequence children)
def seq_obs(b):
    return " | ".join(
        f"pending={','.join(map(str, sorted(l.pending_points)))} data={','.join(f'{k}:{v}' for k, v in l.data.items())}"
        for l in b.learners)


def seq_case(arg):
    seed, nops = arg
    rng = random.Random(seed)
    nk = rng.choice([1, 2, 3, 3, 4, 5])
    lens = [rng.choice([40, 40, 50, 64, 90]) for _ in range(nk)]
    strat = rng.choice(STRATS)
    b = adaptive.BalancingLearner([adaptive.SequenceLearner(lambda x: x, list(range(n))) for n in lens], strategy=strat)
    lines = [f"bal new {strat} {','.join(map(str, lens))}"]
    outs = ["ok " + seq_obs(b)]
    outstanding = []
    budget = 30  # keeps every child far from exhaustion

    def room(i):
        # entries of child i that are neither evaluated nor handed out (a finite SequenceLearner that has nothing left returns
        # no point, and BalancingLearner.ask then fails with IndexError: children that can always serve are the quantifier here)
        return lens[i] - len(b.learners[i].data) - len(b.learners[i].pending_points)

    for _ in range(nops):
        r = rng.random()
        if r < 0.3 and budget > 0:
            n, c = rng.choice([0, 1, 1, 2, 3, 5]), rng.random() < 0.7
            n = min(n, budget, max(0, min(room(i) for i in range(nk)) - 1))
            pts, imps = b.ask(n, tell_pending=c)
            if c:
                budget -= n
                outstanding += [(int(i), int(p[0])) for i, p in pts if (int(i), int(p[0])) not in outstanding]
            lines.append(f"bal ask {n} {int(c)}")
            outs.append("sel=" + ",".join(f"{int(i)}:{int(p[0])}:#{f2b(float(im))}" for (i, p), im in zip(pts, imps)) + " " + seq_obs(b))
        elif r < 0.6:
            if outstanding and rng.random() < 0.8:
                i, p = outstanding.pop(rng.randrange(len(outstanding)))
            else:
                i = rng.randrange(nk)
                p = rng.randrange(lens[i])
                if room(i) <= 6 and p not in b.learners[i].data and p not in b.learners[i].pending_points:
                    continue
            v = rng.randrange(-50, 50)
            b.tell((i, (p, p)), v)
            lines.append(f"bal tell {i} {p} {v}")
            outs.append("ok " + seq_obs(b))
        elif r < 0.7 and budget > 0:
            i = rng.randrange(nk)
            p = rng.randrange(lens[i])
            if p in b.learners[i].data or room(i) <= 6:
                continue
            b.tell_pending((i, (p, p)))
            budget -= 1
            if (i, p) not in outstanding:
                outstanding.append((i, p))
            lines.append(f"bal tell_pending {i} {p}")
            outs.append("ok " + seq_obs(b))
        elif r < 0.76:
            b.remove_unfinished()
            outstanding.clear()
            lines.append("bal remove_unfinished")
            outs.append("ok " + seq_obs(b))
        elif r < 0.92:
            real = rng.random() < 0.5
            v = b.loss(real=real)
            lines.append(f"bal loss {int(real)}")
            outs.append(f"loss=#{f2b(float(v))} " + seq_obs(b))
        else:
            strat = rng.choice(STRATS)
            b.strategy = strat
            lines.append(f"bal strategy {strat}")
            outs.append("ok " + seq_obs(b))
    return {"lines": lines, "impl": outs, "meta": {"seed": seed, "kids": nk, "strategy0": lines[0].split()[2]}}


# ---------------------------------------------------------------------------- search oracle (all child kinds)
def make_children(kind, nk, rng):
    if kind == "seq":
        return [adaptive.SequenceLearner(lambda x: x, list(range(rng.choice([30, 30, 45])))) for _ in range(nk)]
    if kind == "avg":
        ls = [adaptive.AverageLearner(lambda s: s, atol=rng.choice([0.1, 0.5]), rtol=rng.choice([None, 0.3])) for _ in range(nk)]
        for l in ls:  # AverageLearner.loss(real=False) divides by zero while it holds no value but has pending seeds
            l.tell(0, rng.gauss(0, 1))
        return ls
    if kind == "avg_tiny":
        # children whose losses are not scale-normalised, fed tiny-scale data: losses of order 1e-13 that differ by factors
        ls = [adaptive.AverageLearner(lambda s: s, atol=1.0, rtol=None) for _ in range(nk)]
        for i, l in enumerate(ls):
            l.tell(0, rng.gauss(0, 1) * 1e-13 * (1 + i))
        return ls
    if kind == "l1d":
        ls = []
        for _ in range(nk):
            l = adaptive.Learner1D(lambda x: x, bounds=rng.choice([(-1.0, 1.0), (0.0, 2.0)]))
            l._recompute_losses_factor = 1
            ls.append(l)
        return ls
    raise ValueError(kind)


def value_for(kind, i, p, rng):
    if kind == "seq":
        return rng.randrange(-9, 9)
    if kind == "avg":
        return rng.gauss(i, 1.0 + i)
    if kind == "avg_tiny":
        return rng.gauss(0, 1.0 + 2 * i) * 1e-13
    return math.sin(3 * p + i) * (1 + i)


def feq(a, b):
    a, b = float(a), float(b)
    return a == b or (math.isnan(a) and math.isnan(b)) or abs(a - b) <= 1e-12 * max(abs(a), abs(b))


def key_of(p):
    """hashable form of a child's point"""
    if isinstance(p, (tuple, list)):
        return tuple(key_of(q) for q in p)
    if isinstance(p, np.generic):
        return p.item()
    return p


def clone(l):
    """exact copy of a learner (copy.deepcopy would go through __getstate__, which drops pending points)"""
    n = object.__new__(type(l))
    n.__dict__ = copy.deepcopy(l.__dict__)
    return n


def pkey(kind, p):
    """the key under which a child files point `p` in data / pending_points"""
    return key_of(p[0]) if kind == "seq" else key_of(p)


def oracle_case(arg):
    seed, nops = arg
    warnings.simplefilter("ignore")
    rng = random.Random(seed)
    kind = rng.choice(["seq", "avg", "avg_tiny", "l1d", "l1d", "l1d"])
    nk = rng.choice([1, 2, 3, 4, 5])
    strat = rng.choice(STRATS)
    kids = make_children(kind, nk, rng)
    b = adaptive.BalancingLearner(kids, strategy=strat)
    cyc = 0  # expected position of the rotation
    fails = []
    hist = [("new", kind, nk, strat)]
    outstanding = []
    stats = {"asks": 0, "switch": 0}

    def fail(cl, det):
        if not fails:
            fails.append((cl, det + f" [kind={kind} children={nk} strategy={b.strategy} step={len(hist)}]"))

    def aggregates():
        want_data = {(i, key_of(x)): 1 for i, l in enumerate(kids) for x in l.data}
        have = {(int(i), key_of(x)) for (i, x) in b.data}
        if set(want_data) != have:
            fail("data_union", "BalancingLearner.data is not the union of the children's data")
        wp = {(i, key_of(x)) for i, l in enumerate(kids) for x in l.pending_points}
        hp = {(i, key_of(x)) for (i, x) in b.pending_points}
        if wp != hp:
            fail("pending_union", f"pending_points {sorted(hp)[:4]} is not the union of the children's {sorted(wp)[:4]}")
        if b.npoints != sum(l.npoints for l in kids):
            fail("npoints_sum", f"npoints {b.npoints} != sum over children")
        for real in (True, False):
            want = max(l.loss(real=real) for l in kids)
            got = b.loss(real=real)
            if not feq(want, got):
                fail("loss_is_max", f"loss(real={real}) = {got!r} but the largest child loss is {want!r}")

    for _ in range(nops):
        if fails:
            break
        r = rng.random()
        if r < 0.34:
            n = rng.choice([1, 1, 2, 3, 4])
            commit = rng.random() < 0.75
            if kind == "seq" and sum(len(l.pending_points) + l.npoints for l in kids) + n > 20:
                continue
            ref = [clone(l) for l in kids]  # reference children: what each child proposes, step by step
            tot = [l.npoints + len(l.pending_points) for l in ref]
            st = b.strategy
            before_pending = [set(map(key_of, l.pending_points)) for l in kids]
            try:
                pts, imps = b.ask(n, tell_pending=commit)
            except Exception as e:
                fail("ask_exception", f"ask({n}, tell_pending={commit}) raised {e!r}")
                break
            hist.append(("ask", n, commit))
            stats["asks"] += 1
            if len(pts) != n:
                fail("ask_count", f"ask({n}) returned {len(pts)} points")
                break
            for (i, p), imp in zip(pts, imps):
                i = int(i)
                offers = [l.ask(1, tell_pending=False) for l in ref]
                if key_of(offers[i][0][0]) != key_of(p):
                    fail("ask_child_point", f"point {p!r} labelled child {i} is not what child {i} proposes ({offers[i][0][0]!r})")
                    break
                if st == "npoints" and tot[i] != min(tot):
                    fail("strategy_npoints", f"served child {i} with {tot[i]} known+pending points while another has {min(tot)}")
                if st == "cycle":
                    if i != cyc % nk:
                        fail("strategy_cycle", f"served child {i}, rotation expects {cyc % nk}")
                    cyc += 1
                if st == "loss_improvements":
                    best = max(float(o[1][0]) for o in offers)
                    if float(offers[i][1][0]) < best and not feq(offers[i][1][0], best):
                        fail("strategy_loss_improvements", f"served child {i} offering {offers[i][1][0]!r}, child offers {[float(o[1][0]) for o in offers]}")
                if st == "loss":
                    ls = [float(l.loss(real=False)) for l in ref]
                    if ls[i] < max(ls) and not feq(ls[i], max(ls)):
                        fail("strategy_loss", f"served child {i} with expected loss {ls[i]!r}, children have {ls}")
                ref[i].tell_pending(p)
                tot[i] += 1
            if st == "cycle" and not commit:
                cyc -= n  # a non-committing ask must not advance the rotation
            if fails:
                break
            if commit:
                for (i, p) in pts:
                    if (int(i), key_of(p)) not in [(a, key_of(q)) for a, q in outstanding]:
                        outstanding.append((int(i), p))
                for j, l in enumerate(kids):
                    if set(map(key_of, l.pending_points)) != set(map(key_of, ref[j].pending_points)):
                        fail("ask_commit_pending", f"child {j} pending points differ from marking each returned point pending")
            else:
                for j, l in enumerate(kids):
                    if set(map(key_of, l.pending_points)) != before_pending[j]:
                        fail("ask_nocommit_pending", f"child {j}: pending points changed by ask(tell_pending=False): "
                                                     f"{sorted(before_pending[j])[:4]} -> {sorted(map(key_of, l.pending_points))[:4]}")
        elif r < 0.64:
            if outstanding and rng.random() < 0.8:
                i, p = outstanding.pop(rng.randrange(len(outstanding)))
            else:
                i = rng.randrange(nk)
                offer = kids[i].ask(1, tell_pending=False)[0]
                if not offer:
                    continue
                p = offer[0]
            others = [dict((key_of(k), 1) for k in l.data) for l in kids]
            v = value_for(kind, i, p if not isinstance(p, tuple) else p[0], rng)
            b.tell((i, p), v)
            hist.append(("tell", i, key_of(p)))
            for j, l in enumerate(kids):
                now = dict((key_of(k), 1) for k in l.data)
                if j != i and now != others[j]:
                    fail("tell_routing", f"a result told for child {i} changed the data of child {j}")
            if pkey(kind, p) not in {key_of(k) for k in kids[i].data}:
                fail("tell_routing", f"a result told for child {i} did not reach it")
        elif r < 0.68 and len(outstanding) >= 2:
            # several results at once through tell_many, the children interleaved in the order the points were handed out
            k = rng.randrange(2, min(6, len(outstanding)) + 1)
            batch = [outstanding.pop(rng.randrange(len(outstanding))) for _ in range(k)]
            vals = [value_for(kind, i, p if not isinstance(p, tuple) else p[0], rng) for i, p in batch]
            lazy = rng.random() < 0.3
            b.tell_many(iter(batch) if lazy else list(batch), iter(vals) if lazy else list(vals))
            hist.append(("tell_many", [(i, key_of(p)) for i, p in batch]))
            for i, p in batch:
                if pkey(kind, p) not in {key_of(q) for q in kids[i].data}:
                    fail("tell_routing", f"a result told for child {i} through tell_many did not reach it (batch labels {[a for a, _ in batch]})")
                    break
        elif r < 0.72:
            i = rng.randrange(nk)
            offer = kids[i].ask(1, tell_pending=False)[0]
            if not offer:
                continue
            p = offer[0]
            if kind == "l1d" and rng.random() < 0.5:
                # a point the child did NOT propose (an external scheduler): cached suggestions of that child are stale now
                lo_, hi_ = kids[i].bounds
                q = lo_ + (hi_ - lo_) * rng.randrange(1, 64) / 64.0
                if q not in kids[i].data and q not in kids[i].pending_points:
                    p = q
            b.tell_pending((i, p))
            hist.append(("tell_pending", i, key_of(p)))
            outstanding.append((i, p))
        elif r < 0.8:
            st2 = rng.choice(STRATS)
            b.strategy = st2
            if st2 == "cycle":
                cyc = 0
            stats["switch"] += 1
            hist.append(("strategy", st2))
        if rng.random() < 0.8:
            aggregates()
    return {"fails": fails, "hist": hist[:60], "kind": kind, "stats": stats, "seed": seed}


def run(ctx):
    proof = core.prove(MODULES, extra_targets=["AdaptiveProofs.Examples.Balancing"], leanchecker=ctx.thorough)
    failures = []
    corr = core.Corr("BalancingLearner(SequenceLearner…)~Balancing.lean")
    cases = core.pmap(seq_case, [(ctx.rng.randrange(1 << 30), ctx.n(40, 90)) for _ in range(ctx.n(150, 3000))])
    for c in cases:
        corr.count("strategy:" + c["meta"]["strategy0"])
        corr.count(f"children:{c['meta']['kids']}")
        for l in c["lines"]:
            corr.count("op:" + l.split()[1])
    core.lockstep(corr, cases, canon_model=None, shards=8)
    results = core.pmap(oracle_case, [(ctx.rng.randrange(1 << 30), ctx.n(40, 80)) for _ in range(ctx.n(300, 5000))])
    kinds = {}
    for r in results:
        kinds[r["kind"]] = kinds.get(r["kind"], 0) + 1
        for cl, det in r["fails"][:1]:
            failures.append({"clause": cl, "signature": f"C15.{cl}", "detail": det, "replay": {"seed": r["seed"], "hist": r["hist"]}})
    return core.conclude(
        ctx, proof, [corr], failures,
        rule="seeded histories through the BalancingLearner (asks of 1-5 points committing or not, out-of-order tells, tells of "
             "unsuggested points, explicit tell_pending, discards, both loss flags, strategy switches) over 1-5 children; "
             "lock-step with Sequence children, clause oracles with Sequence / Average / Learner1D children; "
             "non-trivial = distinct op-line sequence",
        samples=[c["lines"][:6] for c in cases[:1]],
        evaluations=len(cases) + len(results), distinct=len(corr.distinct),
        explanation="Balancing.lean mirrors the four selection loops, the three caches, the cycle position and the roll-back of a "
                    "non-committing ask; theorems hold for all lawful children. The oracle replays every ask on deep copies of the "
                    "children: each returned point must be the one the labelled child proposes, chosen by the strategy's rule; "
                    "loss(real) must equal the largest child loss for both flags after every operation.",
        trusted=core.COMMON_TRUSTED + ["hand-written model Balancing.lean; children are abstract (lawful: exact non-committing ask "
                                       "and restore)", "python max()/np.argmin first-wins semantics"],
        assumptions=["children never run out of points (SequenceLearner children are kept far from exhaustion)"],
        extra={"oracle_child_kinds": kinds},
        partial=[],
    )


def replay(ctx, path):
    d = json.load(open(path))
    rp = d.get("replay") or {}
    if "seed" in rp:
        r = oracle_case((rp["seed"], 80))
        for cl, det in r["fails"]:
            print("FAIL", cl, det)
        return 1 if r["fails"] else 0
    print(json.dumps(d, indent=1)[:3000])
    return 0
