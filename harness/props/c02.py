"""C02 — Learner1D.ask places new points where they most reduce the worst loss.

proof:  lean/AdaptiveProofs/Props/C02.lean (count, bounds first, equal parts, greedy optimality) over L1D.lean
tie:    same lock-step correspondence as C01 (ask results and improvements compared bit for bit)
search: on every reached state, ask(n, tell_pending=False) for several n: count / distinct / in-domain / fresh / bounds first /
        equal parts / no single move improves / brute force over all allocations for small states
"""
from __future__ import annotations

import json
import random
import warnings

from harness import core, l1d_drive, l1d_oracles
from harness.props import c01

MODULES = ["AdaptiveProofs.Props.C02"]


def run_case(case):
    warnings.simplefilter("ignore")
    fails = []
    rng = random.Random(case["seed"] ^ 0x5EED)
    st = {"asks_checked": 0, "brute": 0, "with_inf": 0, "missing_bounds": 0}
    box = {"k": 0}
    lo, hi = case["bounds"]

    def hook(l, info):
        box["k"] += 1
        if fails:
            return
        for n in {rng.choice([0, 1, 2, 3]), rng.choice([4, 5, 6, 8, 13])}:
            try:
                pts, imps = l.ask(n, tell_pending=False)
            except Exception as e:
                if len(l.data) + len(l.pending_points) > 0 and lo == hi:
                    continue
                fails.append(("ask_exception", f"after op {box['k']}: ask({n}, tell_pending=False) raised {e!r}"))
                return
            st["asks_checked"] += 1
            st["missing_bounds"] += any(b not in l.data and b not in l.pending_points for b in (lo, hi))
            st["with_inf"] += any(v == float("inf") for v in l.losses_combined.values())
            for cl, det in l1d_oracles.check_ask(l, lo, hi, n, pts, imps):
                if cl == "skip_resolution":
                    st["skipped_float_resolution"] = st.get("skipped_float_resolution", 0) + 1
                    continue
                fails.append((cl, f"after op {box['k']} ({info.get('op')}): {det}"))
                return

    try:
        lines, outs, l, stats = l1d_drive.execute(case, hook=hook)
    except Exception as e:
        import traceback
        tb = traceback.extract_tb(e.__traceback__)
        where = next((f"{f.filename.split('/')[-1]}:{f.name}" for f in reversed(tb) if "/adaptive/" in f.filename), "?")
        return {"lines": [], "impl": [], "meta": case, "fails": [("exception:" + type(e).__name__ + ":" + where, repr(e))], "stats": {}}
    st.update(stats)
    return {"lines": lines, "impl": outs, "meta": case, "fails": fails, "stats": st}


def run(ctx):
    proof = core.prove(MODULES, extra_targets=["AdaptiveProofs.Examples.L1D"], leanchecker=ctx.thorough)
    failures = []
    corr = core.Corr("Learner1D.ask~L1D.lean")
    cases = c01.gen_cases(ctx.rng, ctx.n(160, 3000), ctx.n(50, 110))
    # C02 quantifies over every reachable state: half of the histories also take the batch path of tell_many while a domain
    # end point is neither known nor pending (C01 keeps its proviso)
    for i, c in enumerate(cases):
        if i % 2:
            c["allow_unfixed_batch"] = True
    results = core.pmap(run_case, cases)
    c01.collect(results, corr, failures, ctx.prop_id)
    live = [r for r in results if r["lines"]]
    core.lockstep(corr, live, canon_model=core.canon_bits, shards=16)
    if (not proof.ok or not corr.ok) and not failures:
        more = c01.gen_cases(ctx.rng, ctx.n(600, 3000), 110)
        for i, c in enumerate(more):
            if i % 2:
                c["allow_unfixed_batch"] = True
        extra = core.pmap(run_case, more)
        c01.collect(extra, core.Corr("deep"), failures, ctx.prop_id)
    return core.conclude(
        ctx, proof, [corr], failures,
        rule="same seeded Learner1D histories as C01, half of them also with batched tells before the domain end points are known "
             "or pending; after every operation ask(n, tell_pending=False) for two request sizes n in "
             "{0..3} x {4,5,6,8,13} is checked against the property on the state reached; non-trivial = distinct op-line sequence",
        samples=[r["lines"][:4] for r in live[:2]],
        evaluations=sum(r["stats"].get("asks_checked", 0) for r in results), distinct=len(corr.distinct),
        explanation="ask results (points and improvements) of the real learner are compared bit for bit with the model's askPoints; "
                    "the oracle checks count, distinctness, domain, freshness, bounds first, equal subdivision, single-move optimality "
                    "and (<= 6 intervals, <= 6 points) brute-force optimality of the allocation.",
        trusted=c01.TRUSTED,
        assumptions=["intervals wider than floating-point resolution (the generator's near-duplicate points create tiny intervals "
                     "whose loss is 0, they are never subdivided)"],
        partial=PARTIAL,
    )


PARTIAL = []


def replay(ctx, path):
    d = json.load(open(path))
    case = (d.get("replay") or {}).get("case")
    if not case:
        print(json.dumps(d, indent=1)[:3000])
        return 0
    case["bounds"] = tuple(case["bounds"])
    r = run_case(case)
    for cl, det in r["fails"]:
        print("FAIL", cl, det)
    return 1 if r["fails"] else 0
