"""Property oracles for Learner1D evaluated on the REAL object (C01, C02).

These are direct transcriptions of the property text; they are tests (they find replays), not
evidence of correctness.  Each returns a list of (clause, detail) failures.
"""
from __future__ import annotations

import itertools
import math

import numpy as np

INF = math.inf


def _eq(a, b, rtol=1e-9, atol=1e-13):
    a, b = float(a), float(b)
    if a == b or (math.isnan(a) and math.isnan(b)):
        return True
    if math.isinf(a) or math.isinf(b) or math.isnan(a) or math.isnan(b):
        return False
    return abs(a - b) <= atol + rtol * max(abs(a), abs(b))


def _isinfnan(v):
    v = float(v)
    return math.isinf(v) or math.isnan(v)


class C01Oracle:
    """keeps the history of output ranges (computed from the data, independently of the learner)"""

    def __init__(self, learner, lo, hi, factor, loss_fn, nn):
        self.l, self.lo, self.hi, self.factor = learner, lo, hi, factor
        self.fn, self.nn = loss_fn, nn
        self.hist = [0.0]  # y-ranges seen so far (0 = no data)
        self.ndata = 0
        self.seen = []  # data keys in the order they were told
        self.checked = 0
        self.stale_hits = 0
        self.inf_loss_intervals = 0

    def yrange(self, keys=None):
        keys = self.l.data.keys() if keys is None else keys
        vals = [np.atleast_1d(np.asarray(self.l.data[x], dtype=float)) for x in keys if self.lo <= x <= self.hi]
        if not vals:
            return 0.0
        arr = np.array(vals)
        return float(np.max(arr.max(axis=0) - arr.min(axis=0)))

    def recompute(self, xs_sorted, i, yscale):
        l = self.l
        xl, xr = xs_sorted[i], xs_sorted[i + 1]
        if xr - xl < 2 * max(abs(self.lo), abs(self.hi)) * np.finfo(float).eps:
            return 0.0
        nn = self.nn
        idx = range(i - nn, i + nn + 2)
        pts = [xs_sorted[k] if 0 <= k < len(xs_sorted) else None for k in idx]
        xscale = self.hi - self.lo
        ys = [None if p is None else l.data[p] / (yscale or 1) for p in pts]
        xsS = tuple(None if p is None else p / xscale for p in pts)
        with np.errstate(all="ignore"):
            return float(self.fn(xsS, tuple(ys)))

    def check(self):
        """after any operation"""
        l = self.l
        fails = []
        cur = self.yrange()
        if len(l.data) != self.ndata:
            # every output range the learner went through while the new points arrived one by one
            # (dict order = arrival order), so that a batched-by-loop tell_many is covered too
            keys = list(l.data.keys())
            for k in range(self.ndata + 1, len(keys) + 1):
                r = self.yrange(keys[:k])
                if r != self.hist[-1]:
                    self.hist.append(r)
            self.ndata = len(keys)
        xs = sorted(x for x in l.data if self.lo <= x <= self.hi)
        comb = sorted(set(xs) | {p for p in l.pending_points if self.lo <= p <= self.hi})
        # --- one loss per pair of neighbouring evaluated points
        want = set(zip(xs, xs[1:]))
        have = set(l.losses.keys())
        if want != have:
            fails.append(("losses_keys", f"losses has keys {sorted(have ^ want)[:4]} not matching the neighbouring evaluated pairs"))
            return fails
        wantc = set(zip(comb, comb[1:]))
        havec = set(l.losses_combined.keys())
        if wantc != havec:
            fails.append(("lossesC_keys", f"losses_combined keys differ from neighbouring known-or-pending pairs: {sorted(havec ^ wantc)[:4]}"))
            return fails
        # --- each stored loss is the loss function on the current data at an admissible output scale
        fac = self.factor
        cands = [h for h in reversed(self.hist) if cur <= fac * h * (1 + 1e-12) or (h == 0 and cur == 0)]
        any_inf = False
        for i, iv in enumerate(zip(xs, xs[1:])):
            stored = float(l.losses[iv])
            any_inf |= _isinfnan(stored)
            ok = False
            for k, h in enumerate(cands):
                if _eq(self.recompute(xs, i, h), stored):
                    ok = True
                    self.stale_hits += k > 0
                    break
            self.checked += 1
            if not ok:
                r = self.recompute(xs, i, cur)
                fails.append(("losses_value", f"loss of interval {iv} is {stored!r}; recomputed from the data at the current output range "
                                              f"{cur!r}: {r!r}; no admissible output range in {cands[:4]} (factor {fac}) reproduces it"))
                break
        self.inf_loss_intervals += any_inf
        # --- expected loss of pieces
        for a, b in zip(comb, comb[1:]):
            v = float(l.losses_combined[a, b])
            left = [x for x in xs if x <= a]
            right = [x for x in xs if x >= b]
            if left and right:
                xl, xr = left[-1], right[0]
                L = float(l.losses[xl, xr])
                exp = L if (xl, xr) == (a, b) else ((b - a) * L / (xr - xl))
                if not _eq(exp, v) and not (_isinfnan(L) and _isinfnan(v)):
                    fails.append(("lossesC_interpolation", f"expected loss of piece {(a, b)} of evaluated interval {(xl, xr)} (loss {L!r}) is {v!r}, "
                                                           f"proportional share is {exp!r}"))
                    break
            else:
                if not math.isinf(v):
                    fails.append(("lossesC_inf", f"piece {(a, b)} has no evaluated point on one side but expected loss {v!r} is not infinite"))
                    break
        # --- reported loss
        missing = [b for b in {self.lo, self.hi} if b not in l.data and b not in l.pending_points]
        rep = float(l.loss(real=True))
        if missing or not xs or len(xs) < 2:
            if not math.isinf(rep) and (missing or len(l.losses) == 0):
                fails.append(("loss_inf_when_missing", f"loss() = {rep!r} although bounds {missing} are unknown / no interval exists"))
        else:
            vals = [float(v) for v in l.losses.values()]
            mx = max((v for v in vals if not math.isnan(v)), default=INF)
            if any(_isinfnan(v) for v in vals):
                if not _isinfnan(rep):
                    fails.append(("loss_is_max_with_infinite_interval_loss",
                                  f"an evaluated interval has infinite loss but loss() reports {rep!r}"))
            elif not (abs(rep - mx) <= 1.5e-12 + 1e-12 * abs(mx)):
                fails.append(("loss_is_max", f"loss() = {rep!r} but the largest interval loss is {mx!r}"))
        repf = float(l.loss(real=False))
        if not missing and len(l.losses_combined):
            valsc = [float(v) for v in l.losses_combined.values()]
            if not any(_isinfnan(v) for v in valsc):
                mxc = max(valsc)
                if not (abs(repf - mxc) <= 1.5e-12 + 1e-12 * abs(mxc)):
                    fails.append(("lossF_is_max", f"loss(real=False) = {repf!r} but the largest expected loss is {mxc!r}"))
        return fails


# ------------------------------------------------------------------------------------------ C02
def _finite(v, width_rel):
    return width_rel if _isinfnan(v) else float(v)


def check_ask(l, lo, hi, n, pts, imps, brute_limit=(6, 6)):
    """C02 on the state `l` is in (ask must have been called with tell_pending=False)."""
    fails = []
    pts = [float(p) for p in pts]
    known = set(l.data) | set(l.pending_points)
    ks = sorted(known)
    eps = np.finfo(float).eps
    if any(b - a <= 32 * (n + 1) * eps * max(abs(a), abs(b)) for a, b in zip(ks, ks[1:])):
        return [("skip_resolution", "")]  # an interval at floating-point resolution: outside the property's quantifier
    if len(pts) != n or len(imps) != n:
        return [("ask_count", f"ask({n}) returned {len(pts)} points / {len(imps)} improvements")]
    if len(set(pts)) != len(pts):
        fails.append(("ask_distinct", f"ask({n}) returned duplicate points {sorted(pts)}"))
    if any(not (lo <= p <= hi) for p in pts):
        fails.append(("ask_in_domain", f"ask({n}) returned a point outside [{lo}, {hi}]: {pts}"))
    dup = [p for p in pts if p in known]
    if dup:
        fails.append(("ask_fresh", f"ask({n}) returned already evaluated/pending points {dup[:3]}"))
    if fails or n == 0:
        return fails
    missing = sorted(b for b in {lo, hi} if b not in l.data and b not in l.pending_points)
    k = min(n, len(missing))
    if not known and n > len(missing):
        # no data: uniform sampling of the domain
        want = np.linspace(lo, hi, n).tolist()
        if not all(_eq(a, b, rtol=1e-12, atol=1e-12 * (hi - lo)) for a, b in zip(sorted(pts), want)):
            fails.append(("ask_empty_uniform", f"empty learner: ask({n}) = {pts}, uniform grid is {want}"))
        return fails
    if pts[:k] != missing[:k]:
        fails.append(("ask_bounds_first", f"unknown domain end points {missing} are not the first suggestions: {pts[:3]}"))
        return fails
    rest = pts[k:]
    if not rest:
        return fails
    # intervals that can be subdivided: between consecutive known points, plus bound intervals when a bound is missing
    comb = sorted(p for p in known if lo <= p <= hi)
    xscale = float(l._scale[0])
    ivs = []  # (a, b, eff)
    if lo in missing and comb:
        ivs.append((lo, comb[0], (comb[0] - lo) / xscale))
    for a, b in zip(comb, comb[1:]):
        v = float(l.losses_combined[a, b])
        ivs.append((a, b, _finite(v, (b - a) / xscale)))
    if hi in missing and comb:
        ivs.append((comb[-1], hi, (hi - comb[-1]) / xscale))
    inside = {i: [] for i in range(len(ivs))}
    for p in rest:
        hit = [i for i, (a, b, _) in enumerate(ivs) if a < p < b]
        if len(hit) != 1:
            fails.append(("ask_inside_interval", f"suggested point {p!r} is not strictly inside exactly one interval between known points"))
            return fails
        inside[hit[0]].append(p)
    for i, ps in inside.items():
        a, b, _ = ivs[i]
        m = len(ps)
        for j, p in enumerate(sorted(ps), 1):
            w = a + (b - a) * j / (m + 1)
            if abs(p - w) > 1e-9 * (b - a):
                fails.append(("ask_equal_parts", f"points {sorted(ps)} do not divide ({a}, {b}) into {m + 1} equal parts"))
                return fails
    g = [len(inside[i]) + 1 for i in range(len(ivs))]
    eff = [e for _, _, e in ivs]
    M = max(e / gi for e, gi in zip(eff, g))
    tol = 2e-12 + 1e-9 * M
    # no single move of a point improves the worst expected loss (necessary for optimality)
    for i in range(len(ivs)):
        if g[i] < 2:
            continue
        for j in range(len(ivs)):
            if i == j:
                continue
            g2 = list(g)
            g2[i] -= 1
            g2[j] += 1
            M2 = max(e / gi for e, gi in zip(eff, g2))
            if M2 < M - tol:
                fails.append(("ask_optimal", f"moving one point from interval {ivs[i][:2]} to {ivs[j][:2]} lowers the largest expected loss "
                                             f"from {M!r} to {M2!r} (allocation {g}, losses {eff})"))
                return fails
    # brute force over all allocations for small states
    if len(ivs) <= brute_limit[0] and len(rest) <= brute_limit[1]:
        best = INF
        for alloc in itertools.product(range(len(rest) + 1), repeat=len(ivs)):
            if sum(alloc) != len(rest):
                continue
            best = min(best, max(e / (a + 1) for e, a in zip(eff, alloc)))
        if best < M - tol:
            fails.append(("ask_optimal", f"allocation {g} has largest expected loss {M!r}; the optimum over all allocations of {len(rest)} "
                                         f"points is {best!r} (losses {eff})"))
    return fails
