"""C05 on a REAL asyncio event loop: AsyncRunner with a coroutine function whose evaluations need a few loop iterations to
unwind (an `await` in `finally:`).  When the runner's task is finished - goal reached or cancelled - every evaluation it
started must have been consumed or have finished unwinding: nothing the runner started may still be running.
No wall clock is involved (only `asyncio.sleep(0)` yields), so every scenario is deterministic."""
from __future__ import annotations

import asyncio
import warnings

import adaptive
from adaptive.runner import SequentialExecutor


def scenario(cfg):
    """cfg: ntasks, work (yields before returning), cleanup (yields in finally), stop (goal npoints), cancel_after (yields
    before runner.cancel(), or None), learner ('seq' | 'l1d')"""
    warnings.simplefilter("ignore")
    loop = asyncio.new_event_loop()
    state = {"running": set(), "started": 0, "unwound": 0}

    box = {}
    events = []  # ("ask", n) / ("tell",) calls that reach the learner

    def request_cancel():
        if state.get("cancel_at") is None and "runner" in box and not box["runner"].task.done():
            state["cancel_at"] = len(events)
            box["runner"].cancel()

    async def f(x):
        state["running"].add(x)
        state["started"] += 1
        k = cfg.get("cancel_in_eval")
        if k is not None and cfg.get("cancel_mode") == "done_callback" and state["started"] == k + 1:
            # registered after the runner's own wait registered its completion callback: the cancellation arrives in the very
            # loop iteration in which this evaluation's completion wakes the runner up
            asyncio.current_task().add_done_callback(lambda _t: request_cancel())
        try:
            for _ in range(cfg["work"]):
                await asyncio.sleep(0)
            if k is not None and cfg.get("cancel_mode") == "in_function" and state.get("finished", 0) == k:
                request_cancel()  # the evaluation cancels the runner as its last action: cancel and completion coincide
            state["finished"] = state.get("finished", 0) + 1
            return float(x) * 0.5
        finally:
            try:
                for _ in range(cfg["cleanup"]):
                    await asyncio.sleep(0)
            finally:  # (a cancellation may also arrive while the evaluation is unwinding)
                state["running"].discard(x)
                state["unwound"] += 1

    # (SequenceLearner wraps its function, so a coroutine function is not recognised as one there: Learner1D only)
    learner = adaptive.Learner1D(f, bounds=(-1.0, 1.0))
    _ask, _tell = learner.ask, learner.tell

    def ask(n, tell_pending=True):
        events.append(("ask", n))
        return _ask(n, tell_pending)

    def tell(x, y):
        events.append(("tell",))
        return _tell(x, y)

    learner.ask, learner.tell = ask, tell
    out = {"cfg": cfg, "fail": None}

    async def main():
        import adaptive.runner as ar
        saved = ar._default_executor
        ar._default_executor = SequentialExecutor  # (a coroutine function allows no executor argument; the default one would
        try:                                       #  start worker processes only to be shut down again)
            runner = adaptive.AsyncRunner(learner, goal=lambda l: l.npoints >= cfg["stop"], ntasks=cfg["ntasks"], ioloop=loop)
        finally:
            ar._default_executor = saved
        box["runner"] = runner
        if cfg["cancel_after"] is not None:
            for _ in range(cfg["cancel_after"]):
                await asyncio.sleep(0)
            out["goal_at_cancel"] = learner.npoints >= cfg["stop"]
            runner.cancel()
        try:
            await runner.task
        except asyncio.CancelledError:
            pass
        # the runner has stopped: what it started must be over
        still = sorted(state["running"])
        out["status"] = runner.status()
        out["started"], out["unwound"], out["npoints"] = state["started"], state["unwound"], learner.npoints
        if state.get("cancel_at") is not None:
            # a cancellation requested by an evaluation in the loop iteration in which it completes
            out["coincident_cancel"] = True
            later = [e for e in events[state["cancel_at"]:] if e[0] == "ask"]
            if runner.status() != "cancelled" or later:
                out["fail"] = ("cancel_stops_runner",
                               f"runner.cancel() was called by evaluation no. {cfg['cancel_in_eval']} as it completed "
                               f"({cfg.get('cancel_mode')}, ntasks={cfg['ntasks']}): status() is {runner.status()!r} and the learner "
                               f"was asked {len(later)} more time(s) afterwards (npoints {learner.npoints}, goal {cfg['stop']})")
                return
        if still and out.get("goal_at_cancel"):
            # the cancellation arrived while the runner was already waiting for its cancelled evaluations to unwind (goal
            # reached): that wait is itself cancelled; the evaluations HAVE been cancelled (the clause says no more)
            out["skipped"] = "cancelled_during_shutdown"
        elif still:
            out["fail"] = ("shutdown_leaves_evaluations_running",
                           f"AsyncRunner(status {runner.status()}, ntasks={cfg['ntasks']}, coroutine function that needs "
                           f"{cfg['cleanup']} loop iteration(s) to unwind) has stopped "
                           f"({'cancelled' if cfg['cancel_after'] is not None or state.get('cancel_at') is not None else 'goal reached'}) while {len(still)} evaluation(s) "
                           f"it started are still running: {still[:4]}")
        elif cfg["cancel_after"] is None and state.get("cancel_at") is None and not (learner.npoints >= cfg["stop"]):
            out["fail"] = ("goal_holds_at_exit", f"runner finished with npoints={learner.npoints} < goal {cfg['stop']}")
        elif learner.pending_points and runner.status() != "failed":
            out["fail"] = ("pending_discarded_at_exit", f"pending points left after the runner stopped: {sorted(learner.pending_points)[:4]}")

    try:
        loop.run_until_complete(asyncio.wait_for(main(), timeout=None))
        # let anything left over finish so that the loop can be closed quietly
        for _ in range(50):
            loop.run_until_complete(asyncio.sleep(0))
    except Exception as e:  # noqa: BLE001
        out["fail"] = ("real_async_exception", f"{type(e).__name__}: {e}")
    finally:
        try:
            for t in asyncio.all_tasks(loop):
                t.cancel()
            loop.run_until_complete(asyncio.sleep(0))
        except Exception:  # noqa: BLE001
            pass
        loop.close()
    return out


def gen(rng, n):
    cfgs = []
    for _ in range(n):
        cancel = rng.random() < 0.5
        cfgs.append({"ntasks": rng.choice([1, 2, 3, 5]), "work": rng.choice([0, 1, 2, 4]), "cleanup": rng.choice([0, 1, 3]),
                     "stop": rng.choice([3, 7, 12]), "cancel_after": rng.choice([0, 1, 3, 8, 20]) if cancel else None,
                     "learner": "l1d"})
        if not cancel and rng.random() < 0.5:
            # the cancellation coincides with the completion of evaluation no. k
            cfgs[-1].update(cancel_in_eval=rng.choice([0, 1, 2, 4, 6]), cancel_mode=rng.choice(["in_function", "done_callback"]))
    return cfgs
