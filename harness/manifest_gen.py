"""Regenerates MANIFEST.json from the table below (kept valid at all times)."""
import json, os, sys
HERE = os.path.dirname(os.path.dirname(os.path.abspath(__file__)))
sys.path.insert(0, HERE)
from harness.registry import CHECKS, NOT_APPLICABLE

def main():
    checks = []
    for pid, c in sorted(CHECKS.items()):
        checks.append({
            "property_id": pid,
            "quick_cmd": f"./check {pid} --tier quick",
            "thorough_cmd": f"./check {pid} --tier thorough",
            "evidence_file": f"/verif/evidence/{pid}.json",
            "replay_cmd_template": f"./check {pid} --replay {{path}}",
            "engine": "lean4-model+correspondence",
            "level_claimed": {"category": c["level"], "text": c["text"], "design_ref": c["design_ref"]},
            "level_note": c["note"],
            "technique": c["technique"],
        })
    m = {
        "version": 1,
        "setup_cmd": "./setup.sh",
        "hooks": {
            "guard": "ADAPTIVE_VERIF",
            "enable": "no source hooks: all instrumentation is monkeypatching inside the harness process; the guard name is reserved",
            "baseline_off_cmd": "cd /repo && /venv/bin/python -m pytest -ra -q -p no:cacheprovider --timeout=900 --continue-on-collection-errors",
            "source_commits": [],
            "add_only": True,
        },
        "engines": [{
            "name": "lean4-model+correspondence",
            "path": "/verif/lean",
            "serves_properties": sorted(CHECKS),
            "kind_free_text": "Lean 4 models (lean/AdaptiveModel) with kernel-checked theorems (lean/AdaptiveProofs/Props), "
                              "tied to /repo by a translator for formulas/constants and by lock-step correspondence runs "
                              "through a line-protocol driver; python search oracles produce replays",
        }],
        "checks": checks,
        "not_applicable": [{"property_id": k, "reason": v} for k, v in sorted(NOT_APPLICABLE.items())],
        "notes": "See DESIGN.md. A check exits 0/1 per the interface, 2 on infrastructure failure.",
    }
    json.dump(m, open(os.path.join(HERE, "MANIFEST.json"), "w"), indent=1)
    print("MANIFEST.json:", len(checks), "checks,", len(NOT_APPLICABLE), "not applicable")

if __name__ == "__main__":
    main()
