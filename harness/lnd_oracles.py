"""C04 search oracle: the property's own statement evaluated on the REAL LearnerND after every operation of a
generated history (exact rational geometry with fractions.Fraction where the property is exact).

Clauses (names appear in failure signatures):
  vertices_eq_data        set(tri.vertices) == in-domain keys of data
  losses_keys             set(_losses) == tri.simplices
  loss_is_max             loss() == max(_losses.values())
  ask_count / ask_distinct / ask_in_domain / ask_fresh     what `ask(n)` returns
  ask_bounds_first        unevaluated, non-pending corners come first, in `_bounds_points` order
  ask_refines_worst       nothing pending: the first point lies in a simplex of maximal loss (to the 1e-8 the
                          learner itself rounds priorities to), is its centroid or the midpoint of its longest
                          normalised edge, and the reported improvement is that simplex' loss
  sub_tiling              sub-simplices of a simplex' sub-triangulation tile it (exact volumes, 1e-7 relative
                          sliver allowance) and every sub-simplex has positive volume
  subloss_proportional    every live sub-simplex is queued with loss(simplex) * vol(sub) / vol(simplex) (1e-9)
"""
from __future__ import annotations

import itertools
from fractions import Fraction as Fr

import numpy as np


def F(p):
    return tuple(Fr(float(x)) for x in p)


def det(m):
    n = len(m)
    if n == 1:
        return m[0][0]
    if n == 2:
        return m[0][0] * m[1][1] - m[0][1] * m[1][0]
    tot = Fr(0)
    for j in range(n):
        if m[0][j] == 0:
            continue
        minor = [row[:j] + row[j + 1:] for row in m[1:]]
        tot += (-1) ** j * m[0][j] * det(minor)
    return tot


def signed_vol(pts):
    """dim! times the signed volume"""
    p0 = pts[0]
    return det([[a - b for a, b in zip(p, p0)] for p in pts[1:]])


def bary_inside(p, pts, tol=Fr(1, 10 ** 9)):
    """exact barycentric coordinates of p; inside when all are >= -tol (the learner's points are floating-point
    centroids / edge midpoints, which lie on a shared face only up to rounding)"""
    v = signed_vol(pts)
    if v == 0:
        return False
    for k in range(len(pts)):
        q = list(pts)
        q[k] = p
        if signed_vol(q) / v < -tol:
            return False
    return True


class C04Oracle:
    def __init__(self, learner, case):
        self.l = learner
        self.case = case
        self.checked = 0
        self.stats = {}
        self.pre = None
        self.widths = [Fr(float(b)) - Fr(float(a)) for a, b in learner._bbox]
        if case.get("domain") == "hull":
            hullset = {tuple(map(float, p)) for p in case["hull"]}
            # in the learner's order, restricted to the true extreme points (a mutant may list more)
            self.corners = [tuple(map(float, b)) for b in learner._bounds_points if tuple(map(float, b)) in hullset]
            self.corners += sorted(hullset - set(self.corners))
        else:
            self.corners = [tuple(map(float, b)) for b in learner._bounds_points]

    def count(self, k, n=1):
        self.stats[k] = self.stats.get(k, 0) + n

    # ------------------------------------------------------------------ snapshots
    def before(self, info):
        l = self.l
        self.pre_tell = None
        if info["op"] == "tell" and l._tri is not None:
            # which pending points subdivide which simplex before the tell
            self.pre_tell = {"simps": set(l._tri.simplices),
                             "bound": {sx: [tuple(map(float, v)) for v in st.vertices] for sx, st in l._subtriangulations.items()}}
        if not info["op"].startswith("ask"):
            self.pre = None
            return
        tri = l._tri
        self.pre = {
            "data": set(l.data), "pending": set(l.pending_points),
            # the corners of the domain: for a hull domain the extreme points the case was built from (NOT the learner's own list)
            "missing": [b for b in self.corners if b not in l.data and b not in l.pending_points],
            "tri": None if tri is None else {"verts": list(tri.vertices), "simps": set(tri.simplices)},
            "losses": dict(l._losses), "subs": len(l._subtriangulations),
        }

    # ------------------------------------------------------------------ checks after an op
    def after(self, info):
        out = []
        l = self.l
        self.checked += 1
        tri = l._tri
        if tri is not None:
            inside = {tuple(map(float, p)) for p in l.data if l.inside_bounds(p)}
            verts = [tuple(map(float, v)) for v in tri.vertices]
            if set(verts) != inside or len(verts) != len(set(verts)):
                miss = sorted(inside - set(verts))[:3]
                extra = sorted(set(verts) - inside)[:3]
                out.append(("vertices_eq_data", f"triangulation vertices differ from the evaluated in-domain points: "
                                                f"missing {miss} extra {extra}"))
            ks = {tuple(int(i) for i in s) for s in l._losses}
            ss = {tuple(int(i) for i in s) for s in tri.simplices}
            if ks != ss:
                out.append(("losses_keys", f"keys of _losses differ from tri.simplices: only in losses "
                                           f"{sorted(ks - ss)[:3]}, only in tri {sorted(ss - ks)[:3]}"))
            if l._losses:
                want = max(l._losses.values())
                got = l.loss()
                if not (got == want):
                    out.append(("loss_is_max", f"loss() = {got!r}, largest simplex loss = {want!r}"))
                self.count("loss_checked")
            out += self.check_subs()
            out += self.check_pending_bound()
        if info["op"].startswith("ask") and self.pre is not None and info.get("result") is not None:
            out += self.check_ask(info)
        return out

    def check_subs(self):
        out = []
        l = self.l
        tri = l._tri
        queued = {}
        for loss, sx, sub in l._simplex_queue:
            if sub is not None:
                queued.setdefault((tuple(int(i) for i in sx), tuple(int(i) for i in sub)), []).append(loss)
        for sx, st in l._subtriangulations.items():
            if sx not in tri.simplices:
                continue
            corners = [F(tri.vertices[int(i)]) for i in sx]
            V = abs(signed_vol(corners))
            vols = {}
            for ss in st.simplices:
                vols[ss] = abs(signed_vol([F(st.vertices[int(i)]) for i in ss]))
            tot = sum(vols.values(), Fr(0))
            self.count("sub_tiling_checked")
            if V == 0 or abs(tot - V) > Fr(1, 10 ** 7) * V or any(v == 0 for v in vols.values()):
                clause = "sub_tiling"
                if V > tot and all(v != 0 for v in vols.values()) and len(st.vertices) <= 9:
                    # mechanism of the recorded finding: the missing volume is exactly a set of pieces the implementation's own
                    # flatness test (Triangulation._simplex_is_almost_flat, unnormalised coordinates) refuses to create
                    flat = []
                    for cand in itertools.combinations(range(len(st.vertices)), len(sx)):
                        if cand in st.simplices:
                            continue
                        v = abs(signed_vol([F(st.vertices[int(i)]) for i in cand]))
                        if v != 0 and v <= V - tot and st._simplex_is_almost_flat(cand):
                            flat.append(v)
                    if flat and any(abs(sum(c, Fr(0)) - (V - tot)) <= Fr(1, 10 ** 6) * (V - tot)
                                    for k in range(1, min(len(flat), 3) + 1) for c in itertools.combinations(flat, k)):
                        clause = "sub_tiling:almost_flat_piece_skipped"
                out.append((clause, f"sub-simplices of {tuple(map(int, sx))} have total volume {float(tot)!r}, "
                                          f"the simplex has {float(V)!r} ({len(vols)} pieces, pending vertices "
                                          f"{st.vertices[len(sx):][:4]})"))
                continue
            L = l._losses.get(sx)
            if L is None:
                continue
            for ss, v in vols.items():
                key = (tuple(int(i) for i in sx), tuple(int(i) for i in ss))
                want = float(Fr(float(L)) * v / V)
                got = queued.get(key, [])
                self.count("subloss_checked")
                if not got:
                    out.append(("subloss_proportional", f"live sub-simplex {key} is not in the queue"))
                    break
                if not any(abs(g - want) <= 1e-9 * max(abs(want), abs(g)) + 1e-300 for g in got):
                    out.append(("subloss_proportional", f"sub-simplex {key} queued with {got!r}, its share of the "
                                                        f"simplex loss {L!r} by volume is {want!r}"))
                    break
        return out

    def check_pending_bound(self):
        """after a tell: a pending point that subdivided a simplex the tell removed subdivides EVERY new simplex it lies in
        (closed, exact test) - the new simplex has a sub-triangulation with the point among its vertices"""
        l = self.l
        tri = l._tri
        out = []
        pt = getattr(self, "pre_tell", None)
        if not pt or tri is None:
            return out
        now = set(tri.simplices)
        deleted, added = pt["simps"] - now, now - pt["simps"]
        unbound = {p for sx in deleted for p in pt["bound"].get(sx, []) if p in l.pending_points}
        if not unbound or not added:
            return out
        for sx in added:
            corners = [F(tri.vertices[int(i)]) for i in sx]
            V = signed_vol(corners)
            if V == 0:
                continue
            for p in unbound:
                fp = F(p)
                if any(fp == c for c in corners):
                    continue
                inside = True
                for i in range(len(corners)):
                    w = signed_vol(corners[:i] + [fp] + corners[i + 1:])
                    if (w > 0) != (V > 0) and w != 0:
                        inside = False
                        break
                if not inside:
                    continue
                self.count("rebound_pending_in_new_simplex_checked")
                st = l._subtriangulations.get(sx)
                if st is None or p not in {tuple(map(float, v)) for v in st.vertices}:
                    out.append(("pending_subdivides_every_simplex",
                                f"pending point {p} subdivided a simplex removed by this tell and lies in the new simplex "
                                f"{tuple(map(int, sx))} (exact test) but "
                                f"{'that simplex has no sub-triangulation' if st is None else 'is not a vertex of its sub-triangulation'}"))
                    return out
        return out

    def check_ask(self, info):
        out = []
        l = self.l
        pre = self.pre
        pts, imps, commit = info["result"]
        n = int(info["line"].split()[2])
        pts = [tuple(map(float, p)) for p in pts]
        self.count("ask_checked")
        if len(pts) != n or len(imps) != n:
            out.append(("ask_count", f"ask({n}) returned {len(pts)} points / {len(imps)} improvements"))
        if len(set(pts)) != len(pts):
            out.append(("ask_distinct", f"ask({n}) returned a point twice: {pts}"))
        for p in pts:
            if not l.inside_bounds(p):
                out.append(("ask_in_domain", f"ask returned {p} outside the domain"))
            if p in pre["data"] or p in pre["pending"]:
                out.append(("ask_fresh", f"ask returned {p}, which is already "
                                         f"{'evaluated' if p in pre['data'] else 'pending'}"))
        k = min(n, len(pre["missing"]))
        want = [tuple(map(float, b)) for b in pre["missing"][:k]]
        if pts[:k] != want:
            out.append(("ask_bounds_first", f"unevaluated corners {want} should come first, got {pts[:k]}"))
        if k:
            self.count("ask_with_missing_corners")
        if k == 0 and not pre["pending"] and pre["tri"] is not None and pre["losses"] and pts:
            out += self.check_worst(pts[0], float(imps[0]), pre)
        return out

    def check_worst(self, p, imp, pre):
        self.count("ask_refines_worst_checked")
        verts = pre["tri"]["verts"]
        losses = pre["losses"]
        lmax = max(losses.values())
        P = F(p)
        cont = [s for s in pre["tri"]["simps"] if bary_inside(P, [F(verts[int(i)]) for i in s])]
        tol = 1e-8
        scale = [float(w) for w in self.widths]
        best = [s for s in cont if s in losses and losses[s] >= lmax - tol]
        if not best:
            inl = sorted((float(losses.get(s, float('nan'))) for s in cont), reverse=True)[:3]
            return [("ask_refines_worst", f"nothing pending: next point {p} lies in simplices with losses {inl}, "
                                          f"the largest simplex loss is {lmax!r}")]
        okshape = False
        okimp = False
        for s in best:
            if imp == losses[s]:
                okimp = True
            pts = [verts[int(i)] for i in s]
            if self.is_centroid_or_edge_mid(p, pts, scale):
                okshape = True
        out = []
        if not okimp:
            out.append(("ask_improvement", f"nothing pending: reported improvement {imp!r}, loss of the refined simplex "
                                           f"{[losses[s] for s in best]}"))
        if not okshape:
            out.append(("ask_point_shape", f"nothing pending: {p} is neither the centroid nor the midpoint of the longest "
                                           f"normalised edge of {[[tuple(map(float, verts[int(i)])) for i in s] for s in best][:1]}"))
        return out

    def is_centroid_or_edge_mid(self, p, pts, scale):
        pts = [tuple(map(float, q)) for q in pts]
        dim = len(p)

        def close(a, b):
            return all(abs(x - y) <= 1e-9 * w for x, y, w in zip(a, b, scale))

        cen = tuple(sum(q[k] for q in pts) / len(pts) for k in range(dim))
        if close(p, cen):
            self.count("chosen_centroid")
            return True
        d = {}
        for (i, a), (j, b) in itertools.combinations(enumerate(pts), 2):
            d[(i, j)] = sum(((x - y) / w) ** 2 for x, y, w in zip(a, b, scale))
        dmax = max(d.values())
        for (i, j), v in d.items():
            if v >= dmax * (1 - 1e-9):
                mid = tuple((x + y) / 2 for x, y in zip(pts[i], pts[j]))
                if close(p, mid):
                    self.count("chosen_longest_edge_midpoint")
                    return True
        return False
