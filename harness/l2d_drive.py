"""Drive the real Learner2D and record, by monkeypatching only, the one oracle the Lean bookkeeping model
(lean/AdaptiveModel/L2D.lean) needs: for every `_fill_stack` call the COMPLETE candidate list (point, loss) the loop would
visit (the loop body re-run without the `break` on a fresh loss array: same arithmetic, same points and losses bit for bit),
keyed by the pending set the call sees.  Points cross the protocol as ids (a fresh id per distinct coordinate tuple), doubles
as 64-bit patterns.

    python -m harness.l2d_drive [N histories] [ops per history] [seed]      (L2D_LEAN=<lean dir> to pick the Lean copy)

`gen_case(rng, nops)`, `execute(case) -> (lines, outs, learner, stats, err)`; `run(n, nops, seed)` pipes the lines through
the Lean driver and diffs the outputs line by line.
"""
from __future__ import annotations

import functools
import math
import os
import pickle
import random
import subprocess
import sys
import tempfile
import traceback
import warnings
from pathlib import Path

import numpy as np

from adaptive.learner.learner2D import Learner2D
from harness.core import f2b

LEAN = Path(os.environ.get("L2D_LEAN", str(Path(__file__).resolve().parent.parent / "lean")))
BOUNDS = [[(0.2, 1.3), (-0.7, 0.4)], [(-1.0, 1.0), (-1.0, 1.0)]]

_REC = None
_ORIG_FILL = Learner2D._fill_stack


class Rec:
    def __init__(self, learner):
        self.l = learner
        self.ids = {}
        self.coords = []
        self.new = []  # protocol lines to emit before the next operation line
        self.stats = {}

    def count(self, k, n=1):
        self.stats[k] = self.stats.get(k, 0) + n

    def pid(self, pt):
        key = tuple(float(x) for x in pt)
        i = self.ids.get(key)
        if i is None:
            i = len(self.coords)
            self.ids[key] = i
            self.coords.append(key)
            self.new.append(f"l2d oracle in {i}={int(bool(self.l.inside_bounds(key)))}")
        return i

    def flush(self):
        out, self.new = self.new, []
        return out


def ids_s(ids):
    ids = list(ids)
    return ",".join(str(i) for i in ids) if ids else "-"


def _full_candidates(self):
    """the loop of `_fill_stack` without the break and without touching the stack"""
    ip = self._interpolator_combined()
    losses = self.loss_per_triangle(ip)
    full = []
    for _j, _ in enumerate(losses):
        jsimplex = np.argmax(losses)
        triangle = ip.tri.points[ip.tri.simplices[jsimplex]]
        from adaptive.learner.learner2D import choose_point_in_triangle

        point_new = choose_point_in_triangle(triangle, max_badness=5)
        point_new = tuple(self._unscale(point_new))
        clip = lambda x, lo, up: max(lo, min(up, x))  # noqa: E731
        point_new = (clip(point_new[0], *self.bounds[0]), clip(point_new[1], *self.bounds[1]))
        loss_new = losses[jsimplex]
        full.append((point_new, float(loss_new)))
        losses[jsimplex] = -np.inf
    return full


def _patched_fill(self, stack_till=1):
    r = _REC
    if r is None or r.l is not self or len(self.data) + len(self.pending_points) < self.ndim + 1:
        return _ORIG_FILL(self, stack_till)
    full = _full_candidates(self)
    key = ids_s(sorted(r.pid(p) for p in self.pending_points))
    pairs = [(r.pid(p), f2b(v)) for p, v in full]
    r.new.append("l2d oracle cands " + key + "=" + (";".join(f"{i}:{b}" for i, b in pairs) if pairs else "-"))
    r.count("fill_calls")
    ids = [i for i, _ in pairs]
    if len(set(ids)) != len(ids):
        r.count("fill_calls_with_duplicate_candidates")
    known = {r.pid(p) for p in self.pending_points} | {r.pid(p) for p in self.data} | {r.pid(p) for p in self._stack}
    if known & set(ids):
        r.count("fill_calls_with_known_candidates")
    if not pairs:
        r.count("fill_calls_without_candidates")
    pts, ls = _ORIG_FILL(self, stack_till)
    got = [(r.pid(p), f2b(v)) for p, v in zip(pts, ls)]
    assert got == pairs[: len(got)], ("recorded candidate list is not what the real loop visited", got, pairs)
    return pts, ls


def install():
    Learner2D._fill_stack = _patched_fill


import adaptive.learner.learner2D as _L2D_MOD

_ORIG_CHOOSE = _L2D_MOD.choose_point_in_triangle


def _choose_vertex(triangle, max_badness):
    """STUB geometry (scripted corpus only, op ["stub", "vertex"]): propose the first VERTEX of the triangle instead of a point
    inside it.  The vertices of the combined triangulation are the evaluated and the pending points, so `_fill_stack` proposes
    points that are pending already - something the real `choose_point_in_triangle` (centroid / midpoint of the longest edge)
    never does.  Both the recorder (`_full_candidates`) and the real `_fill_stack` resolve the name in the module at call time."""
    return np.array(triangle[0])


def set_stub(kind):
    _L2D_MOD.choose_point_in_triangle = _choose_vertex if kind == "vertex" else _ORIG_CHOOSE


def _is_gzip(fname):
    with open(fname, "rb") as f:
        return f.read(2) == b"\x1f\x8b"


def value_of(case, p):
    x, y = p
    k = case["fn"]
    if k == "const":
        return 1.0
    if k == "linear":
        return 0.5 * x - 2.0 * y + 0.25
    if k == "ring":
        a = 0.2
        return x + math.exp(-((x * x + y * y - 0.75**2) ** 2) / a**4)
    return math.sin(3 * x) * math.cos(2 * y) + 0.3 * x * y


def gen_case(rng, nops):
    return {"seed": rng.randrange(1 << 30), "nops": nops, "bounds": rng.choice([0, 1]),
            "fn": rng.choice(["smooth", "smooth", "ring", "linear", "const"])}


def observe(l, r):
    data = ",".join(f"{r.pid(p)}:{f2b(v)}" for p, v in l.data.items()) or "-"
    stack = ",".join(f"{r.pid(p)}:{f2b(v)}" for p, v in l._stack.items()) or "-"
    return (f"data={data} pending={ids_s(sorted(r.pid(p) for p in l.pending_points))} stack={stack} "
            f"npoints={l.npoints} done={int(bool(l.bounds_are_done))}")


def random_inside(l, rng, lattice=False):
    (x0, x1), (y0, y1) = l.bounds
    if lattice:
        k = 8
        return (x0 + (x1 - x0) * rng.randrange(k + 1) / k, y0 + (y1 - y0) * rng.randrange(k + 1) / k)
    return (rng.uniform(x0, x1), rng.uniform(y0, y1))


def random_outside(l, rng):
    (x0, x1), (y0, y1) = l.bounds
    w, h = x1 - x0, y1 - y0
    side = rng.randrange(4)
    if side == 0:
        return (x0 - rng.uniform(0.01, 1) * w, rng.uniform(y0 - h, y1 + h))
    if side == 1:
        return (x1 + rng.uniform(0.01, 1) * w, rng.uniform(y0 - h, y1 + h))
    if side == 2:
        return (rng.uniform(x0, x1), y0 - rng.uniform(0.01, 1) * h)
    return (rng.uniform(x0, x1), y1 + rng.uniform(0.01, 1) * h)


def execute(case, script=None):
    """one seeded history on the real learner; returns (protocol lines, expected output lines, learner, stats, err)"""
    global _REC
    warnings.simplefilter("ignore")
    install()
    rng = random.Random(case["seed"])
    # the learner's function is a partial of a module-level function: picklable by the standard pickle as well
    l = Learner2D(functools.partial(value_of, dict(case)), BOUNDS[case["bounds"]])
    r = Rec(l)
    _REC = r
    try:
        return _execute(case, rng, l, r, script)
    finally:
        _REC = None
        set_stub(None)


def _execute(case, rng, l, r, script):
    lines, outs, err = [], [], None
    stats = r.stats
    outstanding = []  # suggested by a committing ask and not told yet

    def emit(line_fn, do, kind):
        """run `do` on the real learner, then emit the recorded oracle lines followed by the operation line"""
        nonlocal err
        try:
            head = do()
        except ValueError as e:
            if "too few points" not in str(e):
                err = f"{kind}: {e!r}"
                r.count("history_cut_by_exception:" + type(e).__name__)
                r.new = []
                return False
            head = "too-few-points"
        except Exception as e:  # noqa: BLE001  (Qhull errors of degenerate point sets: outside the bookkeeping model)
            err = f"{kind}: {type(e).__name__}: {str(e)[:200]}"
            r.count("history_cut_by_exception:" + type(e).__name__)
            r.new = []
            return False
        line = line_fn()
        for o in r.flush():
            lines.append(o)
            outs.append("ok")
        lines.append(line)
        outs.append((head or "ok") + " " + observe(l, r))
        r.count("op:" + kind)
        return True

    corners = [r.pid(p) for p in l._bounds_points]
    r.new = []  # corners are in bounds by the `new` line
    lines.append("l2d new " + ids_s(corners))
    outs.append("ok " + observe(l, r))

    def do_ask(n, commit):
        def do():
            stack_before = list(l._stack.items())
            pending_before = set(l.pending_points)
            data_before = list(l.data.items())
            try:
                pts, imps = l.ask(n, tell_pending=commit)
            except ValueError:
                if not commit:
                    # a non-committing ask that raises leaves the learner as it found it (repaired in /repo: 844d031)
                    r.count("ask_noncommit_raised")
                    if stack_before and n > 0:
                        r.count("ask_noncommit_raised_after_marking_stack_entries")
                    if (list(l._stack.items()), set(l.pending_points), list(l.data.items())) != \
                            (stack_before, pending_before, data_before):
                        r.count("ask_noncommit_raised_CHANGED_STATE")
                else:
                    r.count("ask_commit_raised")
                raise
            if commit:
                for p in pts:
                    if p not in outstanding:
                        outstanding.append(p)
            else:
                r.count("ask_noncommit")
                if list(l._stack.items()) != stack_before:
                    r.count("ask_noncommit_changed_stack")
                # a non-committing ask leaves the pending set as it found it (repaired in /repo: e806eb2)
                if set(l.pending_points) != pending_before:
                    r.count("ask_noncommit_CHANGED_PENDING")
                if any(p in pending_before for p in pts):
                    r.count("ask_noncommit_returned_point_pending_before")
            if len(set(pts)) != len(pts):
                r.count("ask_returned_duplicate_points")
            if len(pts) != n:
                r.count("ask_returned_other_than_n_points")
            return f"ok pts={ids_s(r.pid(p) for p in pts)} imps={ids_s(f2b(v) for v in imps)}"

        return emit(lambda: f"l2d ask {n} {int(commit)}", do, "ask_commit" if commit else "ask_noncommit")

    def do_tell(p, v, kind):
        def do():
            l.tell(p, v)
            if p in outstanding:
                outstanding.remove(p)

        return emit(lambda: f"l2d tell {r.pid(p)} {int(bool(l.inside_bounds(p)))} {f2b(v)}", do, kind)

    def do_tp(p, kind):
        return emit(lambda: f"l2d tell_pending {r.pid(p)} {int(bool(l.inside_bounds(p)))}", lambda: l.tell_pending(p), kind)

    def do_ru():
        def do():
            l.remove_unfinished()
            outstanding.clear()

        return emit(lambda: "l2d remove_unfinished", do, "remove_unfinished")

    def do_restore(how):
        """replace the real learner by a restored one and continue the history on it.
        how = 'copy_from': fresh `new()` learner filled by `copy_from`; 'file': `save` to a file, `load` into a fresh `new()`
        learner; 'pickle': `pickle.loads(pickle.dumps(learner))`"""
        def do():
            nonlocal l
            old = l
            bits = lambda d: [(tuple(map(float, p)), f2b(v)) for p, v in d.items()]  # noqa: E731  (NaN-proof comparison)
            stack_before, data_before = bits(old._stack), bits(old.data)
            if old.pending_points:
                r.count(f"restore_{how}_with_pending_points")
            if how == "pickle":
                new = pickle.loads(pickle.dumps(old))
            elif how == "copy_from":
                new = old.new()
                new.copy_from(old)
            else:
                new = old.new()
                with tempfile.TemporaryDirectory() as td:
                    fname = os.path.join(td, "l2d.pickle")
                    compress = rng.random() < 0.5
                    old.save(fname, compress=compress)
                    assert _is_gzip(fname) == compress
                    new.load(fname, compress=compress)
            assert new is not old
            if bits(new._stack) != stack_before:
                r.count(f"restore_{how}_changed_stack")
            if bits(new.data) != data_before:
                r.count(f"restore_{how}_CHANGED_DATA")
            if new.pending_points:
                r.count(f"restore_{how}_KEPT_PENDING")
            l = new
            r.l = new

        return emit(lambda: "l2d pickle" if how == "pickle" else "l2d save_load", do, "restore_" + how)

    if script is not None:
        for op in script:
            if op[0] == "ask":
                ok = do_ask(op[1], bool(op[2]))
            elif op[0] == "tell":
                p = tuple(float(x) for x in op[1])
                ok = do_tell(p, op[2] if len(op) > 2 else value_of(case, p), "tell_script")
            elif op[0] == "tell_all":
                ok = True
                for p in list(outstanding):
                    ok = ok and do_tell(p, value_of(case, p), "tell_suggested")
            elif op[0] == "tell_pending":
                ok = do_tp(tuple(float(x) for x in op[1]), "tell_pending_script")
            elif op[0] == "remove_unfinished":
                ok = do_ru()
            elif op[0] == "restore":
                ok = do_restore(op[1])
            elif op[0] == "stub":
                set_stub(op[1])
                ok = True
            else:
                raise ValueError(op)
            if not ok:
                break
        return lines, outs, l, stats, err

    nops = 0
    while nops < case["nops"]:
        x = rng.random()
        nops += 1
        if x < 0.10:  # ~5% file restores (copy_from / save+load), ~5% pickle round trips, anywhere in the history
            ok = do_restore("pickle" if x < 0.05 else rng.choice(["copy_from", "file"]))
            if not ok:
                break
            continue
        x = (x - 0.10) / 0.90
        if x < 0.30:
            n = rng.choice([1, 1, 2, 3, 4, 5, 6, 7, 8, 9, 10, 11, 12, 13])
            ok = do_ask(n, rng.random() < 0.6)
        elif x < 0.52 and outstanding:
            p = rng.choice(outstanding)  # out of order, partial
            ok = do_tell(p, value_of(case, p), "tell_suggested")
        elif x < 0.58 and outstanding:
            ok = True
            k = rng.randrange(1, len(outstanding) + 1)
            for p in rng.sample(outstanding, k):
                ok = ok and do_tell(p, value_of(case, p), "tell_suggested")
        elif x < 0.66:
            p = random_inside(l, rng, lattice=rng.random() < 0.3)
            ok = do_tell(p, value_of(case, p), "tell_unsuggested_inside")
        elif x < 0.71:
            p = random_outside(l, rng)
            ok = do_tell(p, value_of(case, p), "tell_outside")
        elif x < 0.77 and l.data:
            p = rng.choice(list(l.data))
            if rng.random() < 0.5:
                ok = do_tell(p, 12345.0 + rng.randrange(3), "retell_other_value")
            else:
                ok = do_tell(p, l.data[p], "retell_same_value")
        elif x < 0.80 and l._stack:
            p = rng.choice(list(l._stack))
            if rng.random() < 0.5:
                ok = do_tell(p, value_of(case, p), "tell_point_on_stack")
            else:
                ok = do_tp(p, "tell_pending_point_on_stack")
        elif x < 0.86:
            y = rng.random()
            if y < 0.4:
                ok = do_tp(random_inside(l, rng, lattice=rng.random() < 0.3), "tell_pending_inside")
            elif y < 0.6:
                ok = do_tp(random_outside(l, rng), "tell_pending_outside")
            elif y < 0.8 and l.data:
                ok = do_tp(rng.choice(list(l.data)), "tell_pending_evaluated")
            elif l.pending_points:
                ok = do_tp(rng.choice(sorted(l.pending_points)), "tell_pending_pending")
            else:
                ok = do_tp(random_inside(l, rng), "tell_pending_inside")
        elif x < 0.93:
            ok = do_ru()
        else:
            p = rng.choice(l._bounds_points)
            ok = do_tell(p, value_of(case, p), "tell_corner")
        if not ok:
            break
    stats["points"] = l.npoints
    return lines, outs, l, stats, err


# scripted histories driven first, in lock-step: the mechanisms the Lean counterexamples are about, on the real learner
_SIX = [(-0.73, 0.69), (0.53, -0.49), (-0.01, -0.1), (0.3, 0.58), (-0.81, -0.94), (0.67, -0.13)]
CORPUS = [
    {"name": "plain_sequential", "seed": 1, "nops": 0, "bounds": 1, "fn": "smooth",
     "script": [op for _ in range(12) for op in (["ask", 1, 1], ["tell_all"])]},
    # remove_unfinished appends the corners behind a full stack (13 > stack_size); ask(0, False) truncates it to 10
    {"name": "nocommit_truncates_long_stack", "seed": 1, "nops": 0, "bounds": 1, "fn": "smooth",
     "script": [["ask", 4, 1]] + [["tell_pending", p] for p in _SIX] + [["ask", 1, 1], ["remove_unfinished"], ["ask", 0, 0]]},
    # ... and ask(12, False) drops three corners from stack, pending set and data altogether
    {"name": "nocommit_loses_corners", "seed": 1, "nops": 0, "bounds": 1, "fn": "smooth",
     "script": [["ask", 4, 1]] + [["tell_pending", p] for p in _SIX] + [["ask", 1, 1], ["remove_unfinished"], ["ask", 12, 0],
                ["ask", 3, 1], ["tell_all"], ["ask", 2, 1]]},
    {"name": "nocommit_then_tell_stale_stack", "seed": 1, "nops": 0, "bounds": 0, "fn": "ring",
     "script": [["ask", 5, 0], ["tell", (0.2, -0.7)], ["ask", 4, 1], ["tell_all"], ["ask", 3, 0], ["ask", 3, 1]]},
    # restores at a quiescent point (nothing pending): the file restore drops the stale stack, the pickle keeps it
    {"name": "restore_quiescent_file", "seed": 1, "nops": 0, "bounds": 1, "fn": "smooth",
     "script": [["ask", 6, 1], ["tell_all"], ["restore", "file"], ["ask", 3, 1], ["tell_all"], ["restore", "copy_from"],
                ["ask", 2, 1]]},
    {"name": "restore_quiescent_pickle", "seed": 1, "nops": 0, "bounds": 1, "fn": "smooth",
     "script": [["ask", 6, 1], ["tell_all"], ["restore", "pickle"], ["ask", 3, 1], ["tell_all"], ["restore", "pickle"],
                ["ask", 2, 1]]},
    # restores with points outstanding: the pending set is lost either way (the outstanding points are told afterwards)
    {"name": "restore_with_pending", "seed": 1, "nops": 0, "bounds": 0, "fn": "ring",
     "script": [["ask", 7, 1], ["restore", "pickle"], ["ask", 3, 1], ["tell_all"], ["ask", 5, 1], ["restore", "file"],
                ["ask", 4, 1], ["tell_all"], ["remove_unfinished"], ["restore", "copy_from"], ["ask", 2, 0]]},
    # (A) a non-committing ask whose `_fill_stack` proposes points that are pending ALREADY keeps them pending.  The real
    # geometry never proposes a vertex of its own triangulation, so this history runs with the STUB `_choose_vertex` (see
    # there) while the two non-committing asks run: the four corners are pending, the stubbed `_fill_stack` proposes corners.
    {"name": "nocommit_keeps_prior_pending_STUB_GEOMETRY", "seed": 1, "nops": 0, "bounds": 1, "fn": "smooth",
     "script": [["ask", 4, 1], ["tell_pending", (0.25, -0.5)], ["stub", "vertex"], ["ask", 2, 0], ["ask", 1, 0],
                ["stub", None], ["ask", 2, 0], ["tell_all"], ["ask", 3, 1]],
     "expect": ["ask_noncommit_returned_point_pending_before"]},
    # (B) a non-committing ask that raises `ValueError("too few points...")` out of `_fill_stack` AFTER it has marked stack
    # entries pending: three corners and an inner point marked pending, a pickle round trip (drops the pending set, keeps the
    # stack: one corner), one point marked pending again; `ask(2, False)` takes the corner off the stack, marks it, and
    # `_fill_stack` sees 0 evaluated + 2 pending < 3 points.  The learner afterwards is the learner before; the committing
    # twin keeps its mark and its shortened stack.
    {"name": "nocommit_raises_restores", "seed": 1, "nops": 0, "bounds": 1, "fn": "smooth",
     "script": [["tell_pending", (-1, -1)], ["tell_pending", (-1, 1)], ["tell_pending", (1, -1)], ["restore", "pickle"],
                ["tell_pending", (0.25, -0.5)], ["ask", 2, 0], ["ask", 1, 0], ["ask", 3, 0], ["ask", 2, 1]],
     "expect": ["ask_noncommit_raised_after_marking_stack_entries"]},
]

# counters that must never appear (checked on the real learner, independently of the Lean model)
FORBIDDEN = ["ask_noncommit_CHANGED_PENDING", "ask_noncommit_raised_CHANGED_STATE"]

# ---------------------------------------------------------------- lock-step against the Lean driver
def _one(case):
    try:
        lines, outs, l, stats, err = execute(case, case.get("script"))
        missing = [k for k in case.get("expect", []) if not stats.get(k)]
        broken = [k for k in FORBIDDEN if stats.get(k)]
        if missing or broken:
            err = f"harness: expected counters missing {missing}, forbidden counters present {broken}; err={err}"
        return {"lines": lines, "impl": outs, "meta": case, "stats": stats, "err": err}
    except Exception:  # noqa: BLE001
        return {"lines": [], "impl": [], "meta": case, "stats": {}, "err": "harness: " + traceback.format_exc()[-1500:]}


def drive(lines, timeout=3000):
    p = subprocess.run(["lake", "env", "lean", "--run", "Driver.lean"], cwd=LEAN, input="\n".join(lines) + "\n",
                       capture_output=True, text=True, timeout=timeout)
    out = [x for x in p.stdout.splitlines() if "conda.cli.condarc" not in x]
    if p.returncode != 0 or len(out) != len(lines):
        raise RuntimeError(f"driver rc={p.returncode}, {len(out)} lines for {len(lines)}: {p.stderr[-1000:]}")
    return out


def run(n=2000, nops=40, seed=1, procs=None, shards=8):
    from concurrent.futures import ThreadPoolExecutor
    from multiprocessing import Pool

    rng = random.Random(f"l2d-{seed}")
    cases = list(CORPUS) + [gen_case(rng, nops) for _ in range(n)]
    with Pool(procs or min(16, os.cpu_count() or 1)) as pool:
        res = pool.map(_one, cases, chunksize=8)
    shards = max(1, min(shards, len(res)))
    cuts = [(len(res) * k // shards, len(res) * (k + 1) // shards) for k in range(shards)]

    def one(b):
        ls = [x for c in res[b[0]:b[1]] for x in c["lines"]]
        return drive(ls) if ls else []

    with ThreadPoolExecutor(shards) as ex:
        model = [x for part in ex.map(one, cuts) for x in part]
    pos = 0
    stats, disagreements, full, cut, harness_err = {}, [], 0, 0, []
    nlines = 0
    for c in res:
        k = len(c["lines"])
        mo = model[pos:pos + k]
        pos += k
        nlines += k
        for a, v in c["stats"].items():
            stats[a] = stats.get(a, 0) + v
        if c["err"] and c["err"].startswith("harness"):
            harness_err.append((c["meta"], c["err"]))
        elif c["err"]:
            cut += 1
        else:
            full += 1
        for i, (a, b) in enumerate(zip(c["impl"], mo)):
            if a != b:
                disagreements.append({"case": c["meta"], "index": i, "line": c["lines"][i], "impl": a, "model": b,
                                      "err": c["err"]})
                break
    return {"histories": len(res), "complete": full, "cut_by_geometry_exception": cut, "harness_errors": harness_err,
            "lines": nlines, "disagreements": disagreements, "stats": dict(sorted(stats.items()))}


if __name__ == "__main__":
    n = int(sys.argv[1]) if len(sys.argv) > 1 else 2000
    nops = int(sys.argv[2]) if len(sys.argv) > 2 else 40
    seed = int(sys.argv[3]) if len(sys.argv) > 3 else 1
    out = run(n, nops, seed)
    print(f"histories={out['histories']} complete={out['complete']} cut={out['cut_by_geometry_exception']} "
          f"lines={out['lines']} disagreements={len(out['disagreements'])} harness_errors={len(out['harness_errors'])}")
    for k, v in out["stats"].items():
        print(f"  {k}: {v}")
    for d in out["disagreements"][:5]:
        print("DISAGREE", d["case"], "line", d["index"], d["line"][:300])
        print("   impl :", d["impl"][:600])
        print("   model:", d["model"][:600])
    for m, e in out["harness_errors"][:3]:
        print("HARNESS ERROR", m, e)
    sys.exit(0 if not out["disagreements"] and not out["harness_errors"] else 1)
