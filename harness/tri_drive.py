"""Real `Triangulation` histories in lock-step with lean/AdaptiveModel/Tri.lean, plus the exact audit.

Every geometric decision `add_point` takes on the real object (locate_point, get_reduced_simplex,
orientation x2 per hull face, _simplex_is_almost_flat, point_in_cicumcircle in call order = the order
in which `queue.pop()` yielded the work-list) is recorded by wrappers installed on the class inside
this process (never in /repo) and handed to the model as its oracle.

The audit (`Audit`) evaluates the statement of C03 on the real object with exact integer arithmetic
(every double is a dyadic rational; all coordinates are scaled to integers).
"""
from __future__ import annotations

import itertools
import math
import random
import warnings
from collections import Counter
from fractions import Fraction

import numpy as np

import adaptive.learner.triangulation as T

# ----------------------------------------------------------------------------------------- recording
_ACTIVE = None  # the Recorder of the add_point call in progress
_EXACT_INCIRCLE = False  # shadow runs: point_in_cicumcircle answers with the exact closed-ball test


def exact_incircle(tri, pt_index, simplex, transform):
    """exact `|c - p| <= r` in the metric `transform` (None when the simplex is degenerate)"""
    d = len(tri.vertices[0])
    tr = [[Fraction(float(transform[i][j])) for j in range(d)] for i in range(d)]
    ex = ExactPts(d)
    ids = list(simplex) + [pt_index]
    for i in ids:
        v = [Fraction(float(x)) for x in tri.vertices[i]]
        f = tuple(sum(v[k] * tr[k][j] for k in range(d)) for j in range(d))
        ex.fr.append(f)
    r2 = ex.sphere_ratio2(list(range(d + 1)), d + 1)
    return None if r2 is None else bool(r2 <= 1)
_INSTALLED = False


class Recorder:
    def __init__(self):
        self.locate = None      # None = not called
        self.reduced = None
        self.orient = []        # (face indices, value, face coords, origin coords)
        self.flat = []          # (simplex, bool)
        self.circ = []          # (simplex, bool)
        self.last_gv = None
        self.extra = []         # protocol violations of the recording itself


def install():
    """wrap the predicate methods of Triangulation (idempotent; pass-through unless a Recorder is active)"""
    global _INSTALLED
    if _INSTALLED:
        return
    _INSTALLED = True
    C = T.Triangulation
    o_locate, o_reduced, o_gv = C.locate_point, C.get_reduced_simplex, C.get_vertices
    o_flat, o_circ, o_orient = C._simplex_is_almost_flat, C.point_in_cicumcircle, T.orientation

    def locate_point(self, point):
        r = o_locate(self, point)
        if _ACTIVE is not None:
            if _ACTIVE.locate is not None:
                _ACTIVE.extra.append("locate_point called twice")
            _ACTIVE.locate = tuple(int(i) for i in r)
        return r

    def get_reduced_simplex(self, point, simplex, *a, **k):
        r = o_reduced(self, point, simplex, *a, **k)
        if _ACTIVE is not None:
            if _ACTIVE.reduced is not None:
                _ACTIVE.extra.append("get_reduced_simplex called twice")
            _ACTIVE.reduced = [int(i) for i in r]
        return r

    def get_vertices(self, indices):
        if _ACTIVE is not None:
            try:
                _ACTIVE.last_gv = tuple(int(i) for i in indices)
            except Exception:
                _ACTIVE.last_gv = None
        return o_gv(self, indices)

    def _simplex_is_almost_flat(self, simplex):
        r = o_flat(self, simplex)
        if _ACTIVE is not None:
            _ACTIVE.flat.append((tuple(int(i) for i in simplex), bool(r)))
        return r

    def point_in_cicumcircle(self, pt_index, simplex, transform):
        r = o_circ(self, pt_index, simplex, transform)
        if _EXACT_INCIRCLE:
            e = exact_incircle(self, pt_index, simplex, transform)
            r = r if e is None else e
        if _ACTIVE is not None:
            _ACTIVE.circ.append((tuple(int(i) for i in simplex), bool(r)))
        return r

    def orientation(face, origin):
        r = o_orient(face, origin)
        if _ACTIVE is not None:
            _ACTIVE.orient.append((_ACTIVE.last_gv, int(r), tuple(map(tuple, face)), tuple(float(x) for x in origin)))
        return r

    C.locate_point = locate_point
    C.get_reduced_simplex = get_reduced_simplex
    C.get_vertices = get_vertices
    C._simplex_is_almost_flat = _simplex_is_almost_flat
    C.point_in_cicumcircle = point_in_cicumcircle
    T.orientation = orientation


class recording:
    def __enter__(self):
        global _ACTIVE
        install()
        self.rec = Recorder()
        _ACTIVE = self.rec
        return self.rec

    def __exit__(self, *a):
        global _ACTIVE
        _ACTIVE = None


# ----------------------------------------------------------------------------------------- protocol
def ss(t):
    return ",".join(str(int(i)) for i in t)


def show_sx(sx):
    sx = sorted({tuple(int(i) for i in t) for t in sx})
    return ";".join(ss(t) for t in sx) if sx else "-"


def obs(tri):
    return f"S={show_sx(tri.simplices)} V={'|'.join(show_sx(v) for v in tri.vertex_to_simplices)} n={len(tri.vertices)}"


def opt(x):
    if x is None:
        return "N"
    return ss(x) if len(x) else "E"


REJECTS = {
    "Point lies outside of the specified simplex.": "outside_simplex",
    "Point already in triangulation.": "duplicate",
    "Candidate vertex is inside the hull.": "inside_hull",
}


def oracle_line(hint, rec):
    """the `tri add …` protocol line for one recorded add_point call"""
    ori = []
    calls = rec.orient
    bad = len(calls) % 2 == 1
    for k in range(0, len(calls) - 1, 2):
        (f1, a, *_), (f2, b, *_) = calls[k], calls[k + 1]
        if f1 != f2 or f1 is None:
            bad = True
            continue
        ori.append(f"{ss(f1)}:{a}:{b}")
    if bad or rec.extra:
        ori.append("9999:0:0")  # malformed recording: make the model diverge instead of hiding it
    fl = [f"{ss(s)}:{int(v)}" for s, v in rec.flat]
    ci = [f"{ss(s)}:{int(v)}" for s, v in rec.circ]
    return "tri add {} {} {} {} {} {}".format(
        opt(hint), opt(rec.locate), opt(rec.reduced), ";".join(ori) or "-", ";".join(fl) or "-", ";".join(ci) or "-")


# ----------------------------------------------------------------------------------------- exact arithmetic
def det_int(rows):
    """exact determinant of a square integer matrix (Bareiss)"""
    m = [list(r) for r in rows]
    n = len(m)
    sign, prev = 1, 1
    for k in range(n - 1):
        if m[k][k] == 0:
            for i in range(k + 1, n):
                if m[i][k] != 0:
                    m[k], m[i] = m[i], m[k]
                    sign = -sign
                    break
            else:
                return 0
        for i in range(k + 1, n):
            for j in range(k + 1, n):
                m[i][j] = (m[i][j] * m[k][k] - m[i][k] * m[k][j]) // prev
        prev = m[k][k]
    return sign * m[n - 1][n - 1]


def sgn(x):
    return (x > 0) - (x < 0)


class ExactPts:
    """points (tuples of doubles) as integer vectors over a common power-of-two denominator `den`;
    optionally after an exact diagonal scaling (the metric)"""

    def __init__(self, dim, diag=None, shift=1100):
        self.dim = dim
        self.diag = [Fraction(1)] * dim if diag is None else [Fraction(float(x)) for x in diag]
        # fixed denominator 2**shift would be wasteful; grow on demand instead
        self.den = 1
        self.fr = []   # Fractions
        self.iv = []   # ints at denominator self.den

    def add(self, p):
        f = tuple(Fraction(float(x)) * d for x, d in zip(p, self.diag))
        need = max(c.denominator for c in f)
        if need > self.den:
            k = need // self.den if need % self.den == 0 else None
            if k is None:  # both are powers of two, cannot happen
                k = need
            self.iv = [tuple(c * k for c in v) for v in self.iv]
            self.den *= k
        self.fr.append(f)
        self.iv.append(tuple(int(c * self.den) for c in f))

    def pop(self):
        self.fr.pop()
        self.iv.pop()

    def vol_num(self, simplex):
        """|det| of the edge vectors (volume * dim! * den**dim)"""
        v = [self.iv[i] for i in simplex]
        return abs(det_int([[a - b for a, b in zip(v[k], v[0])] for k in range(1, len(v))]))

    def orient(self, face, q):
        """sign of det(face[1:] - face[0], q - face[0]); q is an index"""
        v = [self.iv[i] for i in face]
        rows = [[a - b for a, b in zip(v[k], v[0])] for k in range(1, len(v))]
        rows.append([a - b for a, b in zip(self.iv[q], v[0])])
        return sgn(det_int(rows))

    def insphere(self, simplex, q):
        """> 0 iff vertex q lies strictly inside the circumsphere of `simplex`, 0 iff on it"""
        v = [self.iv[i] for i in simplex]
        p = self.iv[q]
        rows = []
        for a in v:
            d = [x - y for x, y in zip(a, p)]
            rows.append(d + [sum(x * x for x in d)])
        o = sgn(det_int([[a - b for a, b in zip(v[k], v[0])] for k in range(1, len(v))]))
        # with this row layout: det(rows) * orientation has sign (-1)**dim outside ... fix by calibration
        return sgn(det_int(rows)) * o * self._calib()

    _cal = {}

    def _calib(self):
        d = self.dim
        if d not in ExactPts._cal:
            # unit simplex and its centroid (inside): find the sign convention once, exactly
            e = ExactPts(d)
            e.add([0.0] * d)
            for i in range(d):
                e.add([1.0 if j == i else 0.0 for j in range(d)])
            e.add([0.25] * d)
            v = [e.iv[i] for i in range(d + 1)]
            p = e.iv[d + 1]
            rows = []
            for a in v:
                dd = [x - y for x, y in zip(a, p)]
                rows.append(dd + [sum(x * x for x in dd)])
            o = sgn(det_int([[a - b for a, b in zip(v[k], v[0])] for k in range(1, len(v))]))
            ExactPts._cal[d] = sgn(det_int(rows)) * o  # this product means "inside"
        return ExactPts._cal[d]

    def sphere_ratio2(self, simplex, q):
        """(|c - q| / r)**2 exactly (Fraction); None for a degenerate simplex"""
        v = [self.fr[i] for i in simplex]
        d = self.dim
        # 2 (v_k - v_0) . c = |v_k|^2 - |v_0|^2
        A = [[2 * (v[k][j] - v[0][j]) for j in range(d)] + [sum(x * x for x in v[k]) - sum(x * x for x in v[0])]
             for k in range(1, d + 1)]
        for c in range(d):
            piv = next((r for r in range(c, d) if A[r][c] != 0), None)
            if piv is None:
                return None
            A[c], A[piv] = A[piv], A[c]
            for r in range(d):
                if r != c and A[r][c] != 0:
                    f = A[r][c] / A[c][c]
                    A[r] = [x - f * y for x, y in zip(A[r], A[c])]
        cen = [A[i][d] / A[i][i] for i in range(d)]
        r2 = sum((a - b) ** 2 for a, b in zip(cen, v[0]))
        q2 = sum((a - b) ** 2 for a, b in zip(cen, self.fr[q]))
        return q2 / r2 if r2 != 0 else None


def hull_2d(iv):
    """exact convex hull (monotone chain) of integer points; returns twice the area"""
    pts = sorted(set(iv))
    if len(pts) < 3:
        return 0

    def cross(o, a, b):
        return (a[0] - o[0]) * (b[1] - o[1]) - (a[1] - o[1]) * (b[0] - o[0])

    lo, up = [], []
    for p in pts:
        while len(lo) >= 2 and cross(lo[-2], lo[-1], p) <= 0:
            lo.pop()
        lo.append(p)
    for p in reversed(pts):
        while len(up) >= 2 and cross(up[-2], up[-1], p) <= 0:
            up.pop()
        up.append(p)
    h = lo[:-1] + up[:-1]
    return abs(sum(h[i][0] * h[(i + 1) % len(h)][1] - h[(i + 1) % len(h)][0] * h[i][1] for i in range(len(h))))


def hull_nd(ex, vertices):
    """exact hull volume numerator (|det| units, as ExactPts.vol_num) from SciPy's facets after an EXACT
    verification that they are the boundary of the hull: every point on the inner side of every facet
    plane, every ridge in exactly two facets.  Returns None when the verification fails (rounding in
    qhull); the caller then skips the volume clause for this step."""
    import scipy.spatial
    d = ex.dim
    try:
        h = scipy.spatial.ConvexHull(np.asarray(vertices, dtype=float))
    except Exception:
        return None
    facets = [tuple(int(i) for i in f) for f in h.simplices]
    ridges = Counter(r for f in facets for r in itertools.combinations(sorted(f), d - 1))
    if any(c != 2 for c in ridges.values()):
        return None
    n = len(vertices)
    for f in facets:
        signs = {ex.orient(f, q) for q in range(n)}
        if 1 in signs and -1 in signs:
            return None
    c = ex.iv[0]
    tot = 0
    for f in facets:
        v = [ex.iv[i] for i in f]
        tot += abs(det_int([[a - b for a, b in zip(x, c)] for x in v]))
    return tot


# ----------------------------------------------------------------------------------------- the audit
class Audit:
    """C03's statement evaluated on the real object after every insertion"""

    GUARD = Fraction(1, 10 ** 6)

    def __init__(self, tri, dim, diag, general_position, delaunay_ok):
        self.dim = dim
        self.ex = ExactPts(dim)                 # euclidean coordinates (volumes)
        self.exm = ExactPts(dim, diag)          # metric coordinates (Delaunay)
        for v in tri.vertices:
            self.ex.add(v)
            self.exm.add(v)
        self.general = general_position
        self.delaunay_ok = delaunay_ok
        self.hull_cache = None
        self.band = []
        self.band_total = 0
        self.misround = []
        self.misround_total = 0
        self.hole_facets = []
        self.hole_facet_total = 0
        self.interior_holes = []
        self.sliver_gap_seen = False   # at an earlier step the simplices did not cover the hull exactly (within the sliver tolerance)
        self.stats = Counter()

    # -- structural clauses -------------------------------------------------------------------
    def structure(self, tri):
        out = []
        n, d = len(tri.vertices), self.dim
        if len(tri.vertex_to_simplices) != n:
            out.append(("index_agreement", f"len(vertex_to_simplices)={len(tri.vertex_to_simplices)} but {n} vertices"))
            return out
        for s in tri.simplices:
            t = tuple(int(i) for i in s)
            if len(t) != d + 1 or list(t) != sorted(set(t)) or t[0] < 0 or t[-1] >= n:
                out.append(("index_agreement", f"simplex {t} is not {d + 1} distinct sorted vertex indices below {n}"))
                return out
        want = [set() for _ in range(n)]
        for s in tri.simplices:
            for v in s:
                want[v].add(s)
        for v in range(n):
            if want[v] != tri.vertex_to_simplices[v]:
                out.append(("index_agreement",
                            f"vertex_to_simplices[{v}] = {show_sx(tri.vertex_to_simplices[v])} but the simplices containing {v} are {show_sx(want[v])}"))
                break
        cnt = Counter(f for s in tri.simplices for f in itertools.combinations(s, d))
        over = [f for f, c in cnt.items() if c > 2]
        if over:
            out.append(("facet_multiplicity", f"facet {tuple(map(int, over[0]))} belongs to {cnt[over[0]]} simplices"))
        orphan = [v for v in range(n) if not want[v]]
        if orphan:
            out.append(("orphan_vertex", f"vertex {orphan[0]} {tri.vertices[orphan[0]]} is in no simplex"))
        return out

    # -- volume -------------------------------------------------------------------------------
    def volume(self, tri):
        d = self.dim
        tot = sum(self.ex.vol_num(s) for s in tri.simplices)
        if d == 2:
            hull = hull_2d(self.ex.iv)
        else:
            hull = hull_nd(self.ex, tri.vertices)
        if hull is None:
            self.stats["hull_unverified"] += 1
            return []
        self.stats["volume_checked"] += 1
        den = self.ex.den ** d
        if tot == hull:
            return []
        # Not equal to the hull volume.  The documented tolerance: a simplex of relative volume < 1e-8 (volume / L**dim, L the mean
        # |edge vector component|) may be left out (_simplex_is_almost_flat).  Holes are bounded by "dent" facets: boundary
        # facets of the triangulated region with a vertex strictly beyond them.  A hole made of skipped slivers built on
        # those facets has volume < 1e-8 * sum L_f**dim; a missing simplex of relative volume rho has volume rho * L**dim
        # and dim+1 dent facets of that size, so it is reported as soon as rho exceeds about 4*(dim+1)*1e-8.
        self.stats["volume_deficit"] += 1
        n = len(tri.vertices)
        cnt = Counter(f for s in tri.simplices for f in itertools.combinations(s, d))
        owner = {}
        for s in tri.simplices:
            for f in itertools.combinations(s, d):
                owner[f] = s
        allowed = Fraction(0)
        dents = 0
        for f, c in cnt.items():
            if c != 1:
                continue
            opp = next(v for v in owner[f] if v not in f)
            inside = self.ex.orient(f, opp)
            if inside == 0 or not any(self.ex.orient(f, q) == -inside for q in range(n) if q not in f):
                continue
            dents += 1
            vs = [self.ex.fr[i] for i in f]
            mean = sum(abs(a - b) for k in range(1, d) for a, b in zip(vs[k], vs[0])) / ((d - 1) * d)
            allowed += mean ** d
        allowed = allowed * 4 * Fraction(1, 10 ** 8) * math.factorial(d) * den   # same units as tot / hull
        if tot - hull > allowed:
            return [("volume_overlap", f"simplex volumes add up to more than the convex hull: sum/hull - 1 = "
                                       f"{float(Fraction(tot - hull, hull)):.3e}, i.e. {float(Fraction(tot - hull, den * math.factorial(d))):.3e} "
                                       f"(sum {float(Fraction(tot, den * math.factorial(d))):.17g}); slivers of relative volume < 1e-8 on the "
                                       f"{dents} boundary facets that are not hull facets could account for at most "
                                       f"{float(allowed / (den * math.factorial(d))):.3e}")]
        self.sliver_gap_seen = True
        if tot > hull:
            self.stats["volume_excess_within_slivers"] += 1
            return []
        if hull - tot > allowed:
            return [("volume_hole", f"simplex volumes add up to less than the convex hull: 1 - sum/hull = "
                                    f"{float(Fraction(hull - tot, hull)):.3e}, i.e. {float(Fraction(hull - tot, den * math.factorial(d))):.3e}; "
                                    f"slivers of relative volume < 1e-8 on the {dents} boundary facets that are not hull facets "
                                    f"could account for at most {float(allowed / (den * math.factorial(d))):.3e}")]
        self.stats["volume_deficit_only_sliver_dents"] += 1
        return []

    def volume_method(self, tri, new_simplices):
        """`Triangulation.volume` (the observable `volumes()`) against the exact volume"""
        d = self.dim
        out = []
        vs = np.asarray(tri.vertices, dtype=float)
        ext = float(np.max(vs.max(axis=0) - vs.min(axis=0))) ** d
        for s in new_simplices:
            want = Fraction(self.ex.vol_num(s), self.ex.den ** d * math.factorial(d))
            got = tri.volume(s)
            self.stats["volume_method_checked"] += 1
            if not abs(Fraction(float(got)) - want) <= Fraction(1e-9) * Fraction(ext):
                out.append(("volume_method", f"volume({tuple(map(int, s))}) = {float(got)!r} but the exact volume is {float(want)!r}"))
                break
        if len(tri.volumes()) != len(tri.simplices):
            out.append(("volume_method", "volumes() does not list one volume per simplex"))
        return out

    def why_not_located(self, tri, point):
        """a point without hint was rejected as 'inside the hull' (locate_point found no simplex, _extend_hull no visible
        facet): where is it, exactly?  -> 'in_simplex' (a non-flat simplex contains it: locate_point missed it),
        'in_hole' (inside the convex hull but in no simplex), 'outside_by_a_sliver' (outside the hull; every visible
        facet gave an almost flat simplex: the documented tolerance)"""
        d = self.dim
        self.ex.add(point)
        q = len(self.ex.fr) - 1
        try:
            for sx in tri.simplices:
                if all(self.ex.orient([x for j, x in enumerate(sx) if j != i], sx[i]) *
                       self.ex.orient([x for j, x in enumerate(sx) if j != i], q) >= 0 for i in range(d + 1)):
                    rel = self.rel_volume(sx)
                    if rel is not None and rel > Fraction(1, 10 ** 8) * (1 + self.GUARD):
                        return "in_simplex", tuple(int(i) for i in sx)
            cnt = Counter(f for sx in tri.simplices for f in itertools.combinations(sx, d))
            owner = {f: sx for sx in tri.simplices for f in itertools.combinations(sx, d)}
            for f, c in cnt.items():
                if c != 1:
                    continue
                opp = next(v for v in owner[f] if v not in f)
                inside = self.ex.orient(f, opp)
                if inside != 0 and self.ex.orient(f, q) == -inside and \
                        not any(self.ex.orient(f, v) == -inside for v in range(q) if v not in f):
                    return "outside_by_a_sliver", tuple(int(i) for i in f)
            return "in_hole", None
        finally:
            self.ex.pop()

    def rel_volume(self, sx):
        """exact `_relative_volume`: volume / mean(|edge vector components|)**dim"""
        d = self.dim
        num = Fraction(self.ex.vol_num(sx), self.ex.den ** d)
        vs = [self.ex.fr[i] for i in sx]
        mean = sum(abs(a - b) for k in range(1, d + 1) for a, b in zip(vs[k], vs[0])) / (d * d)
        return None if mean == 0 else num / math.factorial(d) / mean ** d

    # -- recorded predicate answers vs exact arithmetic (guard band 1e-6) --------------------------
    def flat_calls(self, tri, rec):
        out = []
        cnt = None
        thr = Fraction(1, 10 ** 8)
        for s, ans in rec.flat:
            if max(s) >= len(self.ex.fr) or len(s) != self.dim + 1:
                continue
            rel = self.rel_volume(s)
            if ans:
                self.stats["flat_true"] += 1
                # did skipping it leave a hole INSIDE the triangulation (all its facets now belong to exactly one simplex)?
                if cnt is None:
                    cnt = Counter(g for sx in tri.simplices for g in itertools.combinations(sx, self.dim))
                t = tuple(sorted(s))
                if t not in tri.simplices and all(cnt.get(g, 0) == 1 for g in itertools.combinations(t, self.dim)):
                    self.interior_holes.append(t)
                    self.stats["interior_sliver_hole_created"] += 1
                if rel is not None and rel > thr * (1 + self.GUARD):
                    out.append(("sliver_rule", f"simplex {s} with relative volume {float(rel):.3e} >= 1e-8 was skipped as flat"))
            elif rel is None or rel < thr * (1 - self.GUARD):
                out.append(("sliver_rule", f"simplex {s} with relative volume {float(rel or 0):.3e} < 1e-8 was not treated as flat"))
        return out

    def circ_calls(self, tri, rec, pt):
        out = []
        self.band = []
        self.misround = []
        if pt is None or pt >= len(self.exm.fr):
            return out
        for s, ans in rec.circ:
            if pt in s or len(s) != self.dim + 1 or max(s) >= len(self.exm.fr):
                continue
            r2 = self.exm.sphere_ratio2(s, pt)
            if r2 is None:
                continue
            self.stats["circ_calls_checked"] += 1
            lo, hi = (1 - self.GUARD) ** 2, (1 + self.GUARD) ** 2
            if ans and 1 < r2 <= (1 + Fraction(2, 10 ** 8)) ** 2:
                # the point is strictly OUTSIDE the circumsphere, the code says "inside": its eps = 1e-8 on the radius decided
                self.band.append((s, math.sqrt(float(r2)) - 1))
                self.band_total += 1
                self.stats["incircle_decided_by_eps"] += 1
            elif ans != (r2 <= 1):
                self.misround_total += 1
                self.misround.append((s, ans, math.sqrt(float(r2)) - 1))
                self.stats["incircle_misrounded_within_guard"] += 1
            if r2 < lo and not ans:
                out.append(("predicate_incircle", f"point {pt} is inside the circumsphere of {s} (|c-p|/r = {math.sqrt(float(r2)):.9f}) but point_in_cicumcircle said False"))
            if r2 > hi and ans:
                out.append(("predicate_incircle", f"point {pt} is outside the circumsphere of {s} (|c-p|/r = {math.sqrt(float(r2)):.9f}) but point_in_cicumcircle said True"))
        return out

    def _osign(self, face, origin):
        fr = [[Fraction(float(x)) for x in p] for p in face]
        og = [Fraction(float(x)) for x in origin]
        den = max(c.denominator for r in fr + [og] for c in r)
        rows = [[int((a - b) * den) for a, b in zip(r, og)] for r in fr]
        dt = det_int(rows)
        size = 1
        for r in rows:
            size *= max(1, max(abs(x) for x in r))
        return sgn(dt), abs(Fraction(dt, den ** self.dim)), abs(dt) * 10 ** 6 > size

    def orient_calls(self, rec, pt, before=()):
        """(a) a well-conditioned orientation must have the exact sign (ill-conditioned ones are decided by rounding in
        slogdet; what they may cost is bounded by the dent rule of the volume clause); (b) mechanism detector: a facet that
        `_extend_hull` took for a hull facet (it belongs to one simplex only) and extended to the new point although it is
        NOT a facet of the convex hull: it bounds a hole left inside the triangulation by a skipped sliver (exact test: the
        facet plus one more vertex is an almost flat simplex that is not in the triangulation although each of its facets
        belongs to exactly one simplex)"""
        out = []
        cut = Fraction(math.exp(-50))
        calls = rec.orient
        for (_f, val, face, origin) in calls:
            exact, mag, wellcond = self._osign(face, origin)
            self.stats["orient_calls_checked"] += 1
            if mag > 4 * cut and wellcond and val != exact:
                out.append(("predicate_orientation", f"orientation returned {val} for a face/origin with exact determinant {float(mag) * exact:.3e}"))
        self.hole_facets = []
        cnt0 = None
        if pt is not None and pt < len(self.ex.fr):
            added = {s for s, a in rec.flat if not a}
            for k in range(0, len(calls) - 1, 2):
                (f, a, _1, _2), (f2, b, _3, _4) = calls[k], calls[k + 1]
                if f is None or f != f2 or a != -b or tuple(f) + (pt,) not in added:
                    continue
                # does f bound a hole left by ONE skipped sliver t = f + {q}: t is not a simplex, all its facets belong to
                # exactly one simplex, and t is almost flat?
                if cnt0 is None:
                    cnt0 = Counter(g for sx in before for g in itertools.combinations(sx, self.dim))
                hole = None
                for q in range(pt):
                    if q in f:
                        continue
                    t = tuple(sorted(tuple(f) + (q,)))
                    if t in before or any(cnt0.get(g, 0) != 1 for g in itertools.combinations(t, self.dim)):
                        continue
                    rel = self.rel_volume(t)
                    if rel is not None and rel <= Fraction(1, 10 ** 8) * (1 + self.GUARD):
                        hole = t
                        break
                if hole is not None:
                    self.hole_facets.append(tuple(f))
                    self.hole_facet_total += 1
                    self.stats["hole_facet_extended_as_hull_facet"] += 1
        return out

    # -- Delaunay -----------------------------------------------------------------------------
    def delaunay(self, tri, new_simplices, new_vertex):
        """no vertex strictly inside the circumsphere (metric coordinates) of any simplex; incremental:
        new simplices against all vertices, all simplices against the new vertex"""
        if not self.delaunay_ok:
            return []
        n = len(tri.vertices)
        todo = [(s, q) for s in new_simplices for q in range(n) if q not in s]
        if new_vertex is not None:
            todo += [(s, new_vertex) for s in tri.simplices if new_vertex not in s and s not in new_simplices]
        for s, q in todo:
            self.stats["delaunay_pairs"] += 1
            if self.exm.insphere(s, q) > 0:
                r2 = self.exm.sphere_ratio2(s, q)
                if r2 is None:
                    continue
                if self.general or r2 < (1 - self.GUARD) ** 2:
                    if r2 < (1 - Fraction(1, 10 ** 7)) ** 2:   # the code's own eps is 1e-8: nearer than that is its documented tolerance
                        return [("delaunay", f"vertex {q} lies inside the circumsphere of simplex {tuple(map(int, s))}: |c-p|/r = {math.sqrt(float(r2)):.9f}")]
        return []


# ----------------------------------------------------------------------------------------- generators
SPHERE = {
    2: [(3, 4), (5, 0), (4, 3), (0, 5), (-3, 4), (-4, 3), (-5, 0), (-4, -3), (-3, -4), (0, -5), (3, -4), (4, -3)],
    3: [p for base in [(1, 2, 2), (3, 0, 0)] for perm in set(itertools.permutations(base))
        for sg in itertools.product([1, -1], repeat=3) for p in [tuple(a * b for a, b in zip(perm, sg))]],
    4: [p for base in [(1, 1, 1, 1), (2, 0, 0, 0)] for perm in set(itertools.permutations(base))
        for sg in itertools.product([1, -1], repeat=4) for p in [tuple(a * b for a, b in zip(perm, sg))]],
}
for _d in SPHERE:
    SPHERE[_d] = sorted({tuple(float(x) + 0.0 for x in p) for p in SPHERE[_d]})

FAMILIES = ["random", "lattice", "centroid", "cosphere", "mixed", "random_multi"]


def initial_points(rng, dim, family):
    if family in ("random", "mixed", "centroid") and rng.random() < 0.7 or family == "random":
        while True:
            pts = [tuple(rng.random() for _ in range(dim)) for _ in range(dim + 1)]
            if abs(np.linalg.det(np.subtract(pts[1:], pts[0]))) > 1e-3:
                return pts
    if family == "random_multi":
        return [tuple(rng.random() for _ in range(dim)) for _ in range(dim + 1 + rng.randrange(1, 5))]
    if family == "cosphere":
        while True:
            pts = rng.sample(SPHERE[dim], dim + 1)
            if abs(np.linalg.det(np.subtract(pts[1:], pts[0]))) > 1e-3:
                return pts
    if family == "lattice" and rng.random() < 0.35:
        return [tuple(float(x) for x in p) for p in itertools.product([0, 1], repeat=dim)]  # cube corners (SciPy start)
    k = rng.choice([1.0, 1.0, 2.0, 0.5])
    return [tuple([0.0] * dim)] + [tuple(k if j == i else 0.0 for j in range(dim)) for i in range(dim)]


def next_point(rng, tri, dim, family, off=None, scale=None):
    """(point, kind) — the next point to insert; may be a duplicate on purpose.  `off` translates the families that are
    generated in absolute coordinates (points derived from existing vertices are in the translated frame already)"""
    p, kind = _next_point(rng, tri, dim, family)
    if kind in ABSOLUTE_KINDS:
        if scale is not None:
            p = tuple(x * scale for x in p)
        if off is not None:
            p = tuple(x + o for x, o in zip(p, off))
    return p, kind


ABSOLUTE_KINDS = {"random", "random_wide", "lattice", "cosphere", "sphere_centre", "cosphere_rounded"}


def _next_point(rng, tri, dim, family):
    verts = tri.vertices
    fam = family
    if family == "mixed":
        fam = rng.choice(["random", "lattice", "centroid", "cosphere", "wide"])
    r = rng.random()
    if r < 0.07:
        return tuple(rng.choice(verts)), "duplicate"
    if fam in ("random", "random_multi"):
        if rng.random() < 0.25:
            return tuple(rng.uniform(-0.5, 1.5) for _ in range(dim)), "random_wide"
        return tuple(rng.random() for _ in range(dim)), "random"
    if fam == "wide":
        return tuple(rng.uniform(-3, 3) for _ in range(dim)), "random_wide"
    if fam == "lattice":
        k = rng.choice([2, 3, 4])
        h = rng.choice([1.0, 0.5])
        return tuple(h * rng.randrange(-1, k + 1) for _ in range(dim)), "lattice"
    if fam == "cosphere":
        if rng.random() < 0.75:
            return tuple(rng.choice(SPHERE[dim])), "cosphere"
        if rng.random() < 0.5:
            return tuple([0.0] * dim), "sphere_centre"
        t = [rng.gauss(0, 1) for _ in range(dim)]
        nrm = math.sqrt(sum(x * x for x in t))
        rad = math.sqrt(sum(x * x for x in SPHERE[dim][0]))
        return tuple(rad * x / nrm for x in t), "cosphere_rounded"
    # centroid family: centroids, edge midpoints, facet centroids of existing simplices; some exterior points
    sx = sorted(tri.simplices)
    s = rng.choice(sx)
    r = rng.random()
    if r < 0.14:
        # a distinct point close to a vertex / to a facet / to an edge of a simplex (barycentric weights 1e-3 … 1e-5):
        # far outside the code's 1e-8 tolerances, so it must be inserted as an ordinary interior point
        w = 10.0 ** rng.uniform(-5, -3)
        k = rng.choice([1, dim] + ([2] if dim > 2 else []))
        heavy = rng.sample(s, k)
        wt = {v: (w if v not in heavy else (1 - w * (dim + 1 - k)) / k) for v in s}
        return tuple(sum(wt[v] * verts[v][j] for v in s) for j in range(dim)), {1: "near_vertex", dim: "near_facet"}.get(k, "near_edge")
    if r < 0.35:
        sub, kind = s, "centroid"
    elif r < 0.65:
        sub, kind = rng.sample(s, 2), "edge_midpoint"
    elif r < 0.8 and dim > 2:
        sub, kind = rng.sample(s, dim), "facet_centroid"
    elif r < 0.9:
        a, b = rng.sample(s, 2)   # a point on the line through an edge, beyond it (outside or on the hull)
        t = rng.choice([1.5, 2.0, -0.5])
        return tuple(verts[a][j] + t * (verts[b][j] - verts[a][j]) for j in range(dim)), "edge_extension"
    else:
        return tuple(rng.uniform(-0.5, 1.5) for _ in range(dim)), "random_wide"
    p = tuple(sum(verts[i][j] for i in sub) / len(sub) for j in range(dim))
    return p, kind


def near_vertex(tri, point, tol=1e-6):
    """a point that is not a vertex but within `tol` (relative to the extent of the point set) of one: the code's
    eps = 1e-8 tests may or may not take it for a duplicate, so such points are not 'distinct points'"""
    v = np.asarray(tri.vertices, dtype=float)
    ext = float(np.max(v.max(axis=0) - v.min(axis=0)))
    dist = np.sqrt(((v - np.asarray(point, dtype=float)) ** 2).sum(axis=1)).min()
    return dist <= tol * ext


def choose_hint(rng, tri, point, dup=False):
    """(mode, hint) with hint None / () / simplex.  A duplicate point comes without hint or with the simplex
    locate_point finds (the hints a caller can legitimately have)."""
    r = rng.random()
    if dup:
        r *= 0.8
    if r < 0.5:
        return "none", None
    if r < 0.8:
        return "located", tuple(int(i) for i in tri.locate_point(point))
    if r < 0.9:
        return "arbitrary", tuple(int(i) for i in rng.choice(sorted(tri.simplices)))
    return "empty", ()


# ----------------------------------------------------------------------------------------- one case
def run_case(spec):
    """`_run_case` with an exception that escapes from the code under test (outside add_point itself, e.g. locate_point on a
    state that earlier insertions left behind) turned into a failure of the case; harness bugs still propagate"""
    import traceback
    try:
        return _run_case(spec)
    except Exception as e:  # noqa: BLE001
        tb = traceback.extract_tb(e.__traceback__)
        where = next((f"{f.filename.split('/')[-1]}:{f.name}" for f in reversed(tb) if "/adaptive/" in f.filename), None)
        if where is None:
            raise
        return {"lines": [], "impl": [], "stats": {"exception_outside_add_point": 1}, "explicit": None,
                "meta": {k: v for k, v in spec.items() if k != "ops"},
                "fails": [("unexpected_exception", f"{type(e).__name__} in {where} while preparing an insertion: {e!r}")]}


def shadow_passes(case):
    """the same points, no hints, no duplicates, with the exact in-sphere predicate: does the audit pass?"""
    global _EXACT_INCIRCLE
    ops = [dict(o, hint=None, mode="none") for o in case["ops"] if o.get("kind") != "duplicate"]
    _EXACT_INCIRCLE = True
    try:
        r = _run_case(dict(case, ops=ops, exact_incircle=True))
    except Exception:  # noqa: BLE001
        return False
    finally:
        _EXACT_INCIRCLE = False
    if not r["fails"]:
        return True
    # a shadow run that trips over one of the OTHER documented mechanisms is inconclusive
    return None if r["fails"][0][0] in ("tiling:hole_facet_extended_as_hull_facet", "tiling:sliver_hole_aftermath") else False


def _run_case(spec):
    """spec: {seed, dim, family, npts, ratio} (generated) or {dim, init, diag, ops:[{p, hint}]} (explicit replay).
    Executes on the real Triangulation; returns protocol lines, expected outputs, audit failures, stats and
    the explicit form of the case."""
    warnings.simplefilter("ignore")
    install()
    dim = spec["dim"]
    explicit = "ops" in spec
    rng = random.Random(spec.get("seed", 0))
    family = spec.get("family", "explicit")
    ints = spec.get("int_coords")

    def as_int(p):
        # (lattice coordinates are multiples of 1/2: twice the coordinate times the spacing is an exact Python int)
        return tuple(int(round(2 * float(x))) * ints for x in p)

    if explicit:
        init = [tuple(float.fromhex(x) for x in p) for p in spec["init"]]
        if ints:
            init = [tuple(int(x) for x in p) for p in init]
        diag = None if spec.get("diag") is None else [float.fromhex(x) for x in spec["diag"]]
    else:
        init = initial_points(rng, dim, family)
        if ints:
            init = [as_int(p) for p in init]
        off = spec.get("offset")
        if spec.get("scale") is not None:
            init = [tuple(x * spec["scale"] for x in p) for p in init]
        if off is not None:
            init = [tuple(x + o for x, o in zip(p, off)) for p in init]
        ratio = spec.get("ratio")
        diag = None
        if ratio is not None and len(init) == dim + 1:
            # (a multi-simplex SciPy start is Delaunay in the euclidean metric only: no other metric afterwards)
            diag = [1.0] + [float(rng.choice([ratio, math.sqrt(ratio), 1.0])) for _ in range(dim - 2)] + [float(ratio)]
            rng.shuffle(diag)
    transform = None if diag is None else np.diag(diag)
    tri = T.Triangulation(init)
    lines = [f"tri new {dim} {len(tri.vertices)} {show_sx(tri.simplices)}"]
    outs = ["ok " + obs(tri)]
    single_start = len(init) == dim + 1
    general = family in ("random", "random_multi")
    # the Delaunay clause is claimed for points in general position only (random families)
    audit = Audit(tri, dim, diag, general_position=general,
                  delaunay_ok=general and (single_start or diag is None))
    fails = []
    stats = Counter()
    ops_done = []
    kept = []  # (returned deleted set, returned added set, their contents at return time, insertion number)

    def fail(clause, detail, k):
        if not fails:
            fails.append((clause, f"after insertion {k} ({ops_done[-1]['kind'] if ops_done else 'init'}, dim {dim}, "
                                  f"family {family}, metric {diag}): {detail}"))

    for cl, det in audit.structure(tri) + audit.volume(tri) + audit.delaunay(tri, set(tri.simplices), None):
        fail(cl, det, 0)
    nops = len(spec["ops"]) if explicit else spec["npts"]
    for k in range(1, nops + 1):
        if fails:
            break
        if explicit:
            o = spec["ops"][k - 1]
            point = tuple(float.fromhex(x) for x in o["p"])
            if ints:
                point = tuple(int(x) for x in point)
            hint = None if o["hint"] is None else tuple(o["hint"])
            kind, mode = o.get("kind", "?"), o.get("mode", "?")
        else:
            for _try in range(50):
                point, kind = next_point(rng, tri, dim, family, spec.get("offset"), spec.get("scale"))
                if ints and kind != "duplicate":
                    point = as_int(point)
                if point in tri.vertices or not near_vertex(tri, point):
                    break
            else:
                break
            mode, hint = choose_hint(rng, tri, point, dup=point in tri.vertices)
        is_dup = point in tri.vertices
        inside_before = mode == "empty" and bool(tri.locate_point(point))
        ops_done.append({"p": [float(x).hex() for x in point], "hint": None if hint is None else list(hint), "kind": kind, "mode": mode})
        stats["kind:" + kind] += 1
        stats["hint:" + mode] += 1
        S0 = set(tri.simplices)
        V0 = [set(x) for x in tri.vertex_to_simplices]
        X0 = list(tri.vertices)
        ret = err = None
        with recording() as rec:
            try:
                if hint is None:
                    ret = tri.add_point(point, transform=transform)
                else:
                    ret = tri.add_point(point, hint, transform)
            except ValueError as e:
                err = "value_error:" + REJECTS.get(str(e), "other")
            except Exception as e:  # noqa: BLE001
                err = "error:" + type(e).__name__
        lines.append(oracle_line(hint, rec))
        if rec.locate is not None and mode == "none":
            stats["located:" + ("outside" if not rec.locate else "inside")] += 1
        if rec.orient:
            stats["hull_extension"] += 1
        if any(v for _, v in rec.flat):
            stats["flat_skipped"] += 1
        if rec.reduced is not None and 1 < len(rec.reduced) <= dim:
            stats["on_face_dim%d" % (len(rec.reduced) - 1)] += 1
        if err is not None and err.startswith("error:"):
            outs.append(err)
            stats["exception"] += 1
            fail("unexpected_exception", f"add_point raised {err[6:]} (hint {hint})", k)
            break
        S1 = set(tri.simplices)
        if err is not None:
            stats[err] += 1
            outs.append(err + " " + obs(tri))
            unchanged = S1 == S0 and [set(x) for x in tri.vertex_to_simplices] == V0 and list(tri.vertices) == X0
            if not unchanged:
                fail("reject_unchanged", f"add_point raised ValueError ({err[12:]}) but the triangulation changed "
                                         f"(vertices {len(X0)}->{len(tri.vertices)}, simplices {len(S0)}->{len(S1)}, "
                                         f"len(vertex_to_simplices) {len(V0)}->{len(tri.vertex_to_simplices)})", k)
            if mode == "none" and not is_dup:
                if err == "value_error:inside_hull":
                    why, what = audit.why_not_located(tri, point)
                    stats["rejected_new_point:" + why] += 1
                    if why == "in_simplex":
                        fail("valid_insertion_rejected:locate_point_missed_containing_simplex",
                             f"the new point {point} lies in simplex {what} (exact test) but locate_point found no simplex and "
                             f"add_point raised 'Candidate vertex is inside the hull.'", k)
                    elif why == "in_hole":
                        fail("tiling:sliver_hole_aftermath",
                             f"the new point {point} lies inside the convex hull but in no simplex (a hole left by a simplex skipped "
                             f"as almost flat); add_point raised 'Candidate vertex is inside the hull.'", k)
                    # outside_by_a_sliver: the documented tolerance (every visible facet gives an almost flat simplex)
                else:
                    fail("valid_insertion_rejected", f"a new distinct point {point} without hint was rejected: {err}", k)
            continue
        if mode == "empty" and inside_before:
            # the caller claimed "outside the hull" for a point that is inside and the code believed it (possible when
            # a skipped sliver left a hole whose facets count as hull facets): misuse, outside the property; stop here
            D, A = ret
            outs.append(f"ok D={show_sx(D)} A={show_sx(A)} " + obs(tri))
            stats["empty_hint_for_inside_point_accepted"] += 1
            break
        D, A = ret
        D = {tuple(int(i) for i in t) for t in D}
        A = {tuple(int(i) for i in t) for t in A}
        outs.append(f"ok D={show_sx(D)} A={show_sx(A)} " + obs(tri))
        stats["inserted"] += 1
        if is_dup:
            v = X0.index(point)
            # mechanism: within its eps the vertex also lies in a simplex it is not a vertex of (a tolerance-level T-junction
            # left by an earlier insertion "inside" a simplex that was really on its edge), locate_point returns that simplex
            # first and the duplicate test (reduced simplex = one vertex) never sees the vertex
            foreign = None
            for sx in (S0 if hint is None else [tuple(hint)]):
                # (with a hint the code tests the hinted simplex only: the same mechanism when the vertex lies in it within eps)
                if v not in sx:
                    try:
                        if tri.point_in_simplex(point, sx):
                            foreign = sx
                            break
                    except Exception:
                        pass
            if foreign is not None:
                fail("duplicate_rejected:vertex_located_in_foreign_simplex_within_eps",
                     f"the point {point} is already vertex {v}; within the in-simplex tolerance it also lies in simplex {foreign}, of "
                     f"which it is not a vertex, so locate_point found that simplex and add_point inserted the point again", k)
            else:
                fail("duplicate_rejected", f"the point {point} is already vertex {v} but add_point accepted it (hint {hint})", k)
            break
        # the report is a VALUE: what an earlier insertion returned must not change when the triangulation changes later
        for d_obj, a_obj, d0, a0, k0 in kept:
            try:
                d1 = {tuple(int(i) for i in t) for t in d_obj}
                a1 = {tuple(int(i) for i in t) for t in a_obj}
            except Exception:  # noqa: BLE001
                continue
            if d1 != d0 or a1 != a0:
                fail("report_exact:report_changed_later",
                     f"the report returned by insertion {k0} was deleted={show_sx(d0)} added={show_sx(a0)}; after insertion {k} the very "
                     f"same returned objects read deleted={show_sx(d1)} added={show_sx(a1)} (the report aliases internal state)", k)
                break
        kept.append((ret[0], ret[1], set(D), set(A), k))
        stats["reports_kept"] += 1
        if D != S0 - S1 or A != S1 - S0:
            fail("report_exact", f"add_point returned deleted={show_sx(D)} added={show_sx(A)} but the simplices actually removed are "
                                 f"{show_sx(S0 - S1)} and created {show_sx(S1 - S0)}", k)
        if len(tri.vertices) != len(X0) + 1 or tuple(tri.vertices[-1]) != tuple(point) or list(tri.vertices[:-1]) != X0:
            fail("vertex_appended", "the vertex list is not the old list plus the new point", k)
            break
        audit.ex.add(point)
        audit.exm.add(point)
        pt = len(tri.vertices) - 1
        gap_before = audit.sliver_gap_seen
        found = (audit.structure(tri) + audit.flat_calls(tri, rec) + audit.circ_calls(tri, rec, pt) + audit.orient_calls(rec, pt, S0)
                 + audit.volume_method(tri, S1 - S0) + audit.volume(tri) + audit.delaunay(tri, S1 - S0, pt))
        for cl, det in found:
            if cl in ("facet_multiplicity", "orphan_vertex", "volume_overlap", "volume_hole", "delaunay"):
                # which documented mechanism, if any, explains the broken tiling?  (each verified with exact arithmetic)
                orphaned_by_band = None
                if cl == "orphan_vertex" and audit.band and not spec.get("exact_incircle"):
                    # a vertex loses ALL its simplices only if every simplex of its star was answered "inside"; with exact answers
                    # that is impossible for a Delaunay star (every point of a set is a vertex of its Delaunay triangulation).
                    # Confirmed on this very insertion: a simplex of the orphan's star was deleted although the new point lies
                    # strictly OUTSIDE its circumsphere (exact test), inside the relative 1e-8 band of point_in_cicumcircle
                    try:
                        v = int(det.split()[1])
                        star = [(sx, r) for sx, r in audit.band if v in sx]
                        # ... and NO simplex of the star was answered against the exact test beyond the band (that would be another cause)
                        if star and not any(v in m[0] for m in audit.misround):
                            orphaned_by_band = star
                    except (ValueError, IndexError):
                        pass
                if orphaned_by_band:
                    cl = "tiling:incircle_decided_by_eps"
                    det += (f"; in this insertion {len(orphaned_by_band)} simplex(es) of that vertex's star were deleted although the new point "
                            f"lies strictly outside their circumsphere (exact test: |c-p|/r - 1 = "
                            f"{', '.join(f'{r:.2e}' for _, r in orphaned_by_band[:4])} for {[tuple(map(int, sx)) for sx, _ in orphaned_by_band[:4]]}), "
                            f"inside the relative 1e-8 band of point_in_cicumcircle: with exact answers the star survives")
                elif audit.hole_facet_total:
                    cl = "tiling:hole_facet_extended_as_hull_facet"
                    det += (f"; up to here _extend_hull extended {audit.hole_facet_total} facet(s) that belong to one simplex only but are "
                            f"NOT on the convex hull: they bound a hole left inside the triangulation by a simplex skipped as almost flat "
                            f"(exact test)" + (f", in this insertion {audit.hole_facets[:3]}" if audit.hole_facets else ""))
                elif audit.band_total and not spec.get("exact_incircle") and (shadow := shadow_passes({"dim": dim, "init": [[float(x).hex() for x in p] for p in init],
                                                         "diag": None if diag is None else [float(x).hex() for x in diag], "ops": ops_done})) is not False \
                        and (shadow is True or not (gap_before or audit.interior_holes)):
                    cl = "tiling:incircle_decided_by_eps"
                    det += (("; the same insertions with point_in_cicumcircle replaced by the exact test |c-p| <= r pass the whole audit; "
                             if shadow is True else "; ") +
                            f"up to here point_in_cicumcircle answered True {audit.band_total} time(s) for a simplex whose circumsphere "
                            f"does NOT contain the point (0 < |c-p|/r - 1 < eps = 1e-8: huge circumradius, the point is far outside in "
                            f"absolute terms)")
                    if audit.band:
                        worst = max(audit.band, key=lambda x: x[1])
                        det += f"; in this insertion e.g. simplex {worst[0]}: |c-p|/r - 1 = {worst[1]:.3e}"
                elif not (gap_before or audit.interior_holes) and audit.stats.get("flat_true"):
                    cl = "tiling:sliver_hole_aftermath"
                    det += (f"; up to here {audit.stats['flat_true']} candidate simplex(es) were skipped as almost flat (the gaps they left are "
                            "below the 1e-8 volume tolerance of this audit, or in this very insertion): the simplices built next to them "
                            "(hull extension, the Bowyer-Watson cavity) assume that every candidate was created - same root as the holes "
                            "left by skipped slivers")
                elif gap_before or audit.interior_holes:
                    cl = "tiling:sliver_hole_aftermath"
                    det += ("; BEFORE this insertion the simplices already did not cover the convex hull exactly: simplices skipped as almost "
                            "flat had left " + (f"{len(audit.interior_holes)} hole(s) inside the triangulation (e.g. {audit.interior_holes[0]}) "
                                                if audit.interior_holes else "a dent at the hull boundary ") +
                            "(exact volume audit, within the 1e-8 sliver tolerance); bowyer_watson / _extend_hull assume a gap-free convex "
                            "triangulation: the work-list cannot cross a hole, a point in or next to the gap gets a cavity that is not "
                            "star-shaped")
            fail(cl, det, k)
    if not fails and kept and not audit.structure(tri):
        # ... and consuming the reports (a caller may pop from the sets it was given) must not touch the triangulation
        # (only when the incidence tables are intact before: a history cut short by a misused hint may end broken)
        for d_obj, a_obj, _, _, _ in kept:
            for o_ in (d_obj, a_obj):
                if isinstance(o_, set):
                    o_.clear()
        for cl, det in audit.structure(tri):
            fail("report_exact:consuming_a_report_changed_the_triangulation",
                 f"after emptying the (deleted, added) sets returned by the insertions: {cl}: {det}", len(ops_done))
            break
    stats.update(audit.stats)
    stats["dim:%d" % dim] += 1
    stats["family:" + family] += 1
    stats["metric:" + ("identity" if diag is None else "ratio<=%d" % (10 if max(diag) / min(diag) <= 10 else 100))] += 1
    stats["translated" if any(spec.get("offset") or []) else "untranslated"] += 1
    stats["rescaled" if spec.get("scale") not in (None, 1.0) else "unit_scale"] += 1
    stats["final_simplices_total"] += len(tri.simplices)
    exp = {"dim": dim, "init": [[float(x).hex() for x in p] for p in init],
           "diag": None if diag is None else [float(x).hex() for x in diag], "ops": ops_done}
    if ints:
        exp["int_coords"] = ints
        stats["integer_coordinates"] += 1
    return {"lines": lines, "impl": outs, "fails": fails, "stats": dict(stats), "meta": {k: v for k, v in spec.items() if k != "ops"},
            "explicit": exp}
