"""Schedules, learners and trace oracles shared by C05, C06 and C19."""
from __future__ import annotations

import itertools
import random

import adaptive

from harness import core
from harness import runner_drive as rd


class StubLearner:
    """Scripted learner: hands out fresh integers; optionally answers short."""

    def __init__(self, short_every=0):
        self.function = lambda x: x
        self.data = {}
        self.pending_points = set()
        self.next = 0
        self.short_every = short_every
        self.nasks = 0
        self.freed = []

    def ask(self, n, tell_pending=True):
        self.nasks += 1
        k = n
        if self.short_every and self.nasks % self.short_every == 0 and n > 1:
            k = n - 1
        pts = []
        for _ in range(k):
            if self.freed:
                pts.append(self.freed.pop(0))
            else:
                pts.append(self.next)
                self.next += 1
        if tell_pending:
            self.pending_points.update(pts)
        return pts, [1.0] * len(pts)

    def tell(self, x, y):
        self.data[x] = y
        self.pending_points.discard(x)
        if x in self.freed:
            self.freed.remove(x)

    def remove_unfinished(self):
        self.freed = sorted(self.pending_points) + self.freed
        self.pending_points = set()

    def tell_many(self, xs, ys):
        for x, y in zip(xs, ys):
            self.tell(x, y)

    @property
    def npoints(self):
        return len(self.data)

    def loss(self, real=True):
        return 1.0 / (1 + len(self.data) + (0 if real else len(self.pending_points)))

    def new(self):
        return StubLearner(self.short_every)


def mk_learner(kind, param):
    if kind == "stub":
        return lambda: StubLearner(param)
    if kind == "seq":
        n = param
        return lambda: adaptive.SequenceLearner(lambda x: x, list(range(100, 100 + n)))
    if kind == "l1d":
        return lambda: adaptive.Learner1D(lambda x: x, bounds=(-1.0, 1.0))
    if kind == "integ":
        return lambda: adaptive.IntegratorLearner(lambda x: x, bounds=(-1.0, 1.0), tol=1e-8)
    if kind == "lnd":
        # (a non-square domain: LearnerND works in coordinates scaled to the unit square)
        return lambda: adaptive.LearnerND(lambda p: p[0] + 0.01 * p[1], bounds=[(-1.0, 1.0), (0.0, 100.0)])
    if kind == "l2d":
        return lambda: adaptive.Learner2D(lambda p: 40.0 * p[0] + 7.0 * p[1] * p[1], bounds=[(-1.0, 1.0), (-1.0, 1.0)])
    raise ValueError(kind)


def gen_cfg(rng, faults, thorough=False):
    kind = rng.choice(["stub", "stub", "seq", "l1d", "l1d", "integ", "lnd", "l2d"])
    ntasks = rng.choice([1, 1, 2, 2, 3, 4, 5, 8] if thorough else [1, 2, 2, 3, 4])
    target = rng.randint(0, 12)
    maxiter = rng.randint(1, 14)
    param = {"stub": rng.choice([0, 0, 2, 3]), "seq": rng.randint(0, 10), "l1d": 0, "integ": 0, "lnd": 0, "l2d": 0}[kind]
    if kind == "integ":
        ntasks = rng.choice([ntasks, 8, 12, 20])             # many values in flight: intervals are split before their values arrive
        target = rng.choice([target, rng.randint(20, 70), rng.randint(60, 160)])   # far enough for intervals to be split while values are in flight
        maxiter = max(maxiter, rng.randint(10, 40))
    runner = rng.choice(["blocking", "async", "async-coro"])
    cfg = {
        "kind": kind, "param": param, "ntasks": ntasks, "target": target, "maxiter": maxiter,
        "retries": rng.choice([0, 0, 1, 2, 3]) if faults else rng.choice([0, 2]),
        "raise_if": rng.random() < 0.5, "log": True,
        "pfail": rng.choice([0.0, 0.15, 0.3, 0.5, 0.8]) if faults else 0.0,
        "runner": runner, "blocking": runner == "blocking",
        "cancel_at": rng.choice([None, None, 1, 2, 3, 5]) if runner != "blocking" else None,
        "pcancellable": rng.choice([0.0, 0.5, 1.0]),
        "plate": rng.choice([0.0, 0.0, 0.3, 0.6]) if runner == "blocking" else 0.0,
        "seed": rng.randrange(1 << 30),
    }
    if faults:
        cfg["exc"] = rng.choice(["eval", "eval", "timeout", "plain_timeout", "value", "key", "os"])
    cfg["double_cancel"] = bool(cfg["cancel_at"] is not None and rng.random() < 0.35)
    cfg["goal_api"] = rng.choice(["callable", "npoints", "loss"]) if kind in ("stub", "l1d", "l2d") else "callable"
    if kind == "l2d":   # (the goal of a Learner2D run usually looks at the loss; far enough for the corners to be done)
        cfg["target"], cfg["maxiter"] = max(cfg["target"], rng.randint(8, 20)), max(cfg["maxiter"], rng.randint(8, 25))
    cfg["loss_goal"] = rng.choice([0.5, 0.25, 0.15, 0.08])
    return cfg


def goal_fn(cfg):
    """the goal the runner is given.  For `goal_api` = "loss"/"npoints" the decision is delegated to the goal
    that adaptive.runner._goal / auto_goal construct from `loss_goal=` / `npoints_goal=`, and compared — at every
    evaluation, i.e. also while points are pending — with the documented meaning (loss() <= goal, npoints >= goal)."""
    box = {}

    def goal(learner, state):
        if cfg["kind"] == "seq" and learner.done():
            return True
        api = cfg.get("goal_api", "callable")
        if api == "callable":
            met = learner.npoints >= cfg["target"]
        else:
            if "ag" not in box:
                from adaptive import runner as ar
                if api == "npoints":
                    box["ag"] = ar._goal(learner, None, None, cfg["target"], None, None, True)
                else:
                    box["ag"] = ar._goal(learner, None, cfg["loss_goal"], None, None, None, True)
            met = bool(box["ag"](learner))
            want = (learner.npoints >= cfg["target"]) if api == "npoints" else (learner.loss() <= cfg["loss_goal"])
            if met != bool(want):
                cfg.setdefault("_goal_mismatch", []).append(
                    f"goal built from {api}_goal answered {met} while the documented condition is {bool(want)} "
                    f"(npoints={learner.npoints}, loss()={learner.loss()!r}, loss(real=False)={learner.loss(real=False)!r}, "
                    f"pending={len(learner.pending_points)})")
        return met or state["iters"] >= cfg["maxiter"]
    return goal


def execute(cfg):
    c = dict(cfg)
    rd.set_exc(cfg.get("exc"))
    c["goal"] = goal_fn(c)
    rng = random.Random(cfg["seed"])
    mk = mk_learner(cfg["kind"], cfg["param"])
    sched = None
    if "script" in cfg:
        sched = ScriptedSchedule(c, cfg["script"]["choice"], cfg["script"]["outs"])
    try:
        if cfg["runner"] == "blocking":
            return rd.run_blocking(mk, c, rng, sched=sched)
        return rd.run_async(mk, c, rng, coroutine=(cfg["runner"] == "async-coro"), sched=sched)
    except rd.NoPoints:
        return None


def canon_model(line):
    out = []
    for t in line.split(" "):
        if t.startswith("phase="):
            continue
        if t.startswith("calls="):
            t = "calls=" + ",".join(c for c in t[6:].split(",") if c and not c.startswith("raise:"))
        out.append(t)
    return " ".join(out)


# ---------------------------------------------------------------- oracles on the real trace
def oracle_c05(res):
    """legal tells, in-flight bound and refill, clean exit"""
    rec, cfg = res["rec"], res["cfg"]
    handed = {}  # label -> times handed out and not yet told
    told = set()
    inflight = {}
    nsub = 0
    last_ask_full = True
    after_remove = False
    for i, c in enumerate(rec.flat):
        k = c[0]
        if k == "ask":
            if after_remove:
                return ("exit_clean", f"learner.ask after remove_unfinished at call {i}")
            for l in c[2]:
                handed[l] = handed.get(l, 0) + 1
            last_ask_full = len(c[2]) == c[1]
        elif k == "submit":
            if after_remove:
                return ("exit_clean", f"submit after remove_unfinished at call {i}")
            inflight[c[1]] = c[2]
            if len(inflight) > cfg["ntasks"]:
                return ("inflight_bound", f"{len(inflight)} evaluations in flight with ntasks={cfg['ntasks']}")
        elif k == "done" or k == "remaining":
            for idx, lab, o in c[1]:
                inflight.pop(idx, None)
        elif k == "tell":
            lab, y = c[1], c[2]
            if handed.get(lab, 0) < 1:
                return ("tells_legal", f"tell of point label {lab} that the learner did not hand out (or told twice)")
            handed[lab] -= 1
            if y != rd.value_of(lab):
                return ("tells_legal", f"tell({lab}) carried {y}, the function returned {rd.value_of(lab)}")
        elif k == "remove":
            after_remove = True
    # refill: at every FIRST_COMPLETED wait the runner has ntasks in flight if the learner gave enough
    asks = [c for c in rec.flat if c[0] == "ask"]
    for snap in rec.snaps:
        upto = rec.flat[: snap["at"]]
        la = [c for c in upto if c[0] == "ask"]
        full = all(len(c[2]) == c[1] for c in la[-1:])
        if full and snap["inflight"] != cfg["ntasks"] and cfg["kind"] != "seq":
            return ("inflight_full", f"only {snap['inflight']} in flight at a wait with ntasks={cfg['ntasks']} although the learner gave all requested points")
        if snap["inflight"] > cfg["ntasks"]:
            return ("inflight_bound", f"{snap['inflight']} in flight")
    # exit
    if not any(c[0] == "remove" for c in rec.flat):
        return ("exit_clean", "remove_unfinished never called")
    # (blocking runs record whether a cancel() succeeded: a future that is done already cannot be cancelled any more)
    cancelled = {c[1] for c in rec.flat if c[0] == ("cancel_ok" if cfg["blocking"] else "cancel")}
    consumed = set()
    for c in rec.flat:
        if c[0] in ("done", "remaining"):
            consumed |= {idx for idx, _, _ in c[1]}
    for c in rec.flat:
        if c[0] == "submit" and c[1] not in cancelled and c[1] not in consumed:
            return ("exit_clean", f"future {c[1]} neither consumed nor cancelled")
    l = res["learner"]
    if hasattr(l, "pending_points") and len(l.pending_points) != 0 and cfg["kind"] != "integ":  # the integrator cannot discard
        return ("exit_clean", f"learner still has pending points {sorted(l.pending_points)[:5]} at exit")
    if cfg.get("_goal_mismatch"):
        return ("goal_semantics", cfg["_goal_mismatch"][0])
    goals = [c[1] for c in rec.flat if c[0] == "goal"]
    if res["status"] == "finished" and not (goals and goals[-1]):
        return ("exit_status", "status finished but the last goal evaluation was false")
    if any(c[0] == "cancel_event" for c in rec.flat) and res["status"] != "cancelled":
        return ("exit_status", f"cancellation not reported: status {res['status']}")
    return None


def oracle_c06(res):
    rec, cfg, r = res["rec"], res["cfg"], res["runner"]
    L = rec.labels
    nsub, nfail, ntell = {}, {}, {}
    order = []
    exceeded_at = {}
    for i, c in enumerate(rec.flat):
        if c[0] == "submit":
            nsub[c[2]] = nsub.get(c[2], 0) + 1
            if c[2] in exceeded_at:
                return ("retry_bounded", f"point {c[2]} re-submitted after exhausting its retries")
        elif c[0] in ("done", "remaining"):
            for idx, lab, o in c[1]:
                if o == "fail":
                    nfail[lab] = nfail.get(lab, 0) + 1
                    if nfail[lab] > cfg["retries"]:
                        exceeded_at.setdefault(lab, i)
        elif c[0] == "tell":
            ntell[c[1]] = ntell.get(c[1], 0) + 1
            if c[1] in exceeded_at:
                return ("tell_after_failure", f"point {c[1]} told after exhausting its retries")
    for lab, n in nsub.items():
        if n > cfg["retries"] + 1:
            return ("retry_bounded", f"point {lab} evaluated {n} times with retries={cfg['retries']}")
    for lab, n in ntell.items():
        if n > 1:
            return ("tell_once", f"point {lab} told {n} times")
    # processed failures only count if the runner consumed them (a raise aborts the batch)
    # retry-first: at each ask, every to-retry point not in flight was submitted before new points
    flat = rec.flat
    for i, c in enumerate(flat):
        if c[0] == "ask":
            j = i + 1
            subs = []
            while j < len(flat) and flat[j][0] == "submit":
                subs.append(flat[j][2])
                j += 1
            new = list(c[2])
            if subs[len(subs) - len(new):] != new:
                return ("retry_first", f"new points {new} are not the last submissions {subs}")
    # a point that failed no more than `retries` times and is not in flight is re-submitted whenever the runner fills its slots
    inflight, fails_so_far, told_so_far = {}, {}, set()
    for i, c in enumerate(flat):
        if c[0] == "submit":
            inflight[c[1]] = c[2]
        elif c[0] in ("done", "remaining"):
            for idx, lab, o in c[1]:
                inflight.pop(idx, None)
                if o == "fail":
                    fails_so_far[lab] = fails_so_far.get(lab, 0) + 1
        elif c[0] == "cancel":
            inflight.pop(c[1], None)
        elif c[0] == "tell":
            told_so_far.add(c[1])
        elif c[0] == "ask":
            j = i + 1
            subs = []
            while j < len(flat) and flat[j][0] == "submit":
                subs.append(flat[j][2])
                j += 1
            waiting = [lab for lab, n in fails_so_far.items()
                       if 1 <= n <= cfg["retries"] and lab not in told_so_far and lab not in inflight.values()]
            missed = [lab for lab in waiting if lab not in subs]
            if missed and len(c[2]) > 0:
                return ("retry_resubmitted", f"the learner was asked for new points {list(c[2])} while point(s) {missed} that failed "
                                             f"{[fails_so_far[m] for m in missed]} time(s) (retries={cfg['retries']}) were neither in flight nor re-submitted")
    if r is not None:
        failed_pts = {L(p) for p, _ in r.tracebacks} - {L(p) for p, _ in r.to_retry}
        # failures that the runner actually processed
        want = set()
        proc = processed_failures(res)
        for lab, n in proc.items():
            if n > cfg["retries"]:
                want.add(lab)
        if failed_pts != want:
            return ("failed_listed", f"failed points {sorted(failed_pts)} expected {sorted(want)}")
        if len(r.failed) != len(failed_pts):
            return ("failed_listed", f"runner.failed={sorted(r.failed)} vs points {sorted(failed_pts)}")
        err = res["err"]
        if res["status"] == "failed" or err is not None:
            if not cfg["raise_if"]:
                return ("raise_flag", "runner raised although raise_if_retries_exceeded=False")
            e = err
            if e is None and hasattr(r, "task"):
                e = r.task.exception()
            if e is None or not isinstance(e.__cause__, (rd.EvalError, TimeoutError)):
                return ("raise_cause", f"error {e!r} does not carry the original exception")
            pts = [p for p in want if f'"learner.function({L.pts[p]})"' in str(e).split("See the traceback")[0]]
            if not pts:
                return ("raise_names_point", f"error message names no exhausted point: {str(e)[:120]}")
        elif cfg["raise_if"] and want:
            return ("raise_missing", f"points {sorted(want)} exhausted retries but the runner did not raise")
    return None


def processed_failures(res):
    """failures the runner has processed = tracebacks recorded; recomputed from the event list
    taking into account that a raise aborts the rest of a batch"""
    rec, cfg = res["rec"], res["cfg"]
    n = {}
    raised = False
    for c in rec.flat:
        if c[0] in ("done", "remaining"):
            if c[0] == "remaining" and not cfg["blocking"]:
                continue
            stop = False
            for idx, lab, o in c[1]:
                if stop:
                    break
                if o == "fail":
                    n[lab] = n.get(lab, 0) + 1
                    if n[lab] > cfg["retries"] and cfg["raise_if"]:
                        stop = True
    return n


def oracle_c19(res):
    """log = projection of the learner call trace; replay reproduces the learner"""
    rec, cfg, r = res["rec"], res["cfg"], res["runner"]
    L = rec.labels
    if r is None or r.log is None:
        return None
    proj = []
    for c in rec.flat:
        if c[0] == "ask":
            proj.append(("ask", c[1]))
        elif c[0] == "tell":
            proj.append(("tell", c[1], c[2]))
    log = [("ask", e[1]) if e[0] == "ask" else ("tell", L(e[1]), e[2]) for e in r.log]
    if log != proj:
        return ("log_is_trace", f"log {log[:12]} differs from the call trace {proj[:12]}")
    if any(e[0] == "ask" and e[1] < 1 for e in log):
        return ("log_ask_positive", "logged ask with n < 1")
    # replay
    orig = res["learner"]
    fresh = orig.new()
    try:
        adaptive.runner.replay_log(fresh, r.log)
    except Exception as e:
        return ("replay_raises", f"replaying the log on a fresh learner raised {e!r}")
    if dict(fresh.data) != dict(orig.data):
        return ("replay_data", f"replayed data differs: {len(fresh.data)} vs {len(orig.data)} points")
    if abs(fresh.loss() - orig.loss()) > 1e-12 * max(1, abs(orig.loss())):
        return ("replay_loss", f"replayed loss {fresh.loss()} vs {orig.loss()}")
    fresh.remove_unfinished()
    orig.remove_unfinished()
    a = fresh.ask(7, tell_pending=False)[0]
    b = orig.ask(7, tell_pending=False)[0]
    if [repr(x) for x in a] != [repr(x) for x in b]:
        return ("replay_suggestions", f"after replay suggestions {a} vs {b}")
    return None


def enumerate_small(max_ntasks, max_waits, faults):
    """every schedule for a stub learner: ntasks ≤ max_ntasks, ≤ max_waits waits; each wait completes
    one in-flight future (every choice) with every outcome; goal true after k waits"""
    for ntasks in range(1, max_ntasks + 1):
        for nw in range(0, max_waits + 1):
            outcomes = ["ok", "fail"] if faults else ["ok"]
            # choice at wait i: index into in-flight list (≤ ntasks) × outcome
            for choice in itertools.product(range(ntasks), repeat=nw):
                for outs in itertools.product(outcomes, repeat=nw):
                    yield ntasks, nw, choice, outs


class ScriptedSchedule(rd.Schedule):
    def __init__(self, cfg, choice, outs):
        super().__init__(random.Random(0), cfg)
        self.choice, self.outs, self.i = choice, outs, 0

    def pick_done(self, idxs):
        c = self.choice[self.i % len(self.choice)] if self.choice else 0
        return [idxs[c % len(idxs)]]

    def outcome(self, label):
        if self.i < len(self.outs):
            o = self.outs[self.i]
            self.i += 1
            return o
        return "ok"

    def cancellable(self, idx):
        return idx % 2 == 0


def small_cfgs(max_ntasks, max_waits, faults):
    for runner in ("blocking", "async", "async-coro"):
        for ntasks, nw, choice, outs in enumerate_small(max_ntasks, max_waits, faults):
            for retries, raise_if in ((0, True), (1, False)) if faults else ((0, True),):
                if faults and "fail" not in outs:
                    continue
                yield {"kind": "stub", "param": 0, "ntasks": ntasks, "target": 10 ** 9, "maxiter": nw,
                       "retries": retries, "raise_if": raise_if, "log": True, "pfail": 0.0, "runner": runner,
                       "blocking": runner == "blocking", "cancel_at": None, "pcancellable": 0.5, "seed": 0,
                       "script": {"choice": list(choice), "outs": list(outs)}}


def run_check(ctx, modules, oracles, faults, explanation, extra_trusted=(), partial=(), real_async=False, real_time=False):
    """shared body of C05 / C06 / C19"""
    proof = core.prove(modules, leanchecker=ctx.thorough)
    corr = core.Corr("BlockingRunner/AsyncRunner~Runner.lean")
    failures, cases, nontrivial = [], [], set()
    if real_time:
        # goals built from time exist only on a real clock: a few short real runs (what is checked does not depend on timing)
        from harness import runner_real_time as rt
        for o in core.pmap(rt.scenario, rt.gen(ctx.rng, ctx.n(8, 48))):
            corr.count("real_clock_runs")
            if o["fail"]:
                failures.append({"clause": o["fail"][0], "signature": f"{ctx.prop_id}.{o['fail'][0]}:time_goal", "detail": o["fail"][1],
                                 "replay": {"real_time": o["cfg"]}})
    if real_async:
        # AsyncRunner + coroutine function on a real event loop: nothing the runner started may still be running when it stops
        from harness import runner_real_async as ra
        nreal = 0
        for o in core.pmap(ra.scenario, ra.gen(ctx.rng, ctx.n(160, 2000))):
            nreal += 1
            if o.get("skipped"):
                corr.count("real_async_skipped:" + o["skipped"])
            corr.count("real_async:" + str(o.get("status")))
            if o.get("coincident_cancel"):
                corr.count("real_async_cancel_coincides_with_completion")
            if o["fail"]:
                failures.append({"clause": o["fail"][0], "signature": f"{ctx.prop_id}.{o['fail'][0]}", "detail": o["fail"][1],
                                 "replay": {"real_async": o["cfg"]}})
        corr.distribution["real_event_loop_scenarios"] = nreal
        # AsyncRunner + executor-based function on a REAL ThreadPoolExecutor with fewer workers than ntasks (evaluations queue up in
        # the executor): nothing may START after the runner told the learner to discard its unfinished points / after it stopped
        from harness import runner_real_threads as rth
        nthr = 0
        for cfg_t in rth.gen(ctx.rng, ctx.n(30, 300)):   # (sequentially: each scenario owns a thread pool; 60 take < 1 s)
            o = rth.scenario(cfg_t)
            nthr += 1
            corr.count("real_threads:" + str(o.get("status")))
            if o["fail"] and o["fail"][0] == "harness_timeout":
                # a bounded wait of the scenario itself ran out (10-30 s: an overloaded machine): no verdict from this scenario
                corr.count("real_threads_no_verdict:harness_timeout")
                nto = corr.distribution.get("real_threads_no_verdict:harness_timeout", 0)
                if nto > 10:
                    raise RuntimeError("thread-pool scenarios keep timing out: " + o["fail"][1])
                continue
            if o["fail"]:
                failures.append({"clause": o["fail"][0], "signature": f"{ctx.prop_id}.{o['fail'][0]}:thread_pool", "detail": o["fail"][1],
                                 "replay": {"real_threads": o["cfg"]}})
        corr.distribution["real_thread_pool_scenarios"] = nthr
    cfgs = [gen_cfg(ctx.rng, faults, ctx.thorough) for _ in range(ctx.n(400, 6000))]
    nsmall = 0
    for c in small_cfgs(*( (3, 5) if ctx.thorough else (2, 4) ), faults):
        cfgs.append(c)
        nsmall += 1
    for cfg in cfgs:
        try:
            res = execute(cfg)
        except Exception as e:
            import traceback
            frames = [f for f in traceback.extract_tb(e.__traceback__) if "/adaptive/" in f.filename]
            if frames and "/adaptive/learner/" in frames[-1].filename:
                # raised by the learner itself (e.g. LearnerND's recorded finding 'Point already in triangulation' when many
                # points are outstanding): outside C05/C06/C19 (see assumptions), the learner's own properties report it
                corr.count(f"skipped:learner_raised:{type(e).__name__}@{frames[-1].filename.split('/')[-1]}:{frames[-1].name}")
                continue
            failures.append({"clause": "harness_or_runner_exception", "signature": f"{ctx.prop_id}.exception.{type(e).__name__}",
                             "detail": repr(e)[:300], "replay": cfg})
            continue
        if res is None:
            corr.count("skipped:learner_exhausted_goal_unmet")
            continue
        for name, orc in oracles:
            if name == "c19" and (cfg["pfail"] > 0 or ("script" in cfg and "fail" in cfg["script"]["outs"])):
                continue
            f = orc(res)
            if f:
                failures.append({"clause": f[0], "signature": f"{ctx.prop_id}.{f[0]}", "detail": f[1], "replay": cfg})
        if any(c[0] == "cancel_event2" for c in res["rec"].flat):
            corr.count("oracle_only:second_cancel_during_shutdown")   # not an event of the Lean model: trace oracles only
            continue
        cases.append({"lines": res["lines"], "impl": res["impl"], "meta": cfg})
        corr.count("runner:" + cfg["runner"])
        corr.count("status:" + str(res["status"]))
        corr.count("learner:" + cfg["kind"])
        flat = res["rec"].flat
        if any(c[0] == "done" and any(o == "fail" for _, _, o in c[1]) for c in flat):
            corr.count("branch:failure")
        if any(c[0] == "remaining" and c[1] for c in flat):
            corr.count("branch:late_result_consumed")
        if any(c[0] == "cancel" for c in flat):
            corr.count("branch:futures_cancelled")
        if any(c[0] == "cancel_event" for c in flat):
            corr.count("branch:runner_cancelled")
        if res["err"] is not None or res["status"] == "failed":
            corr.count("branch:raised")
        if sum(1 for c in flat if c[0] == "done") >= 1:
            nontrivial.add("\n".join(res["lines"]))
    corr.distribution["exhaustive_small_schedules"] = nsmall
    core.lockstep(corr, cases, canon_model=canon_model)
    return core.conclude(
        ctx, proof, [corr], failures,
        rule="seeded schedules over {stub, SequenceLearner, Learner1D} x {Blocking, Async(executor), Async(coroutine)} x "
             "ntasks x retries x raise flag x failure probability x cancellation point, plus EVERY schedule of a stub "
             "learner with ntasks<=2 and <=4 waits (quick) / ntasks<=3 and <=5 waits (thorough) (which in-flight future "
             "completes x outcome); non-trivial = distinct event-line sequence with at least one completion",
        samples=[c["lines"][:10] for c in cases[:2]],
        evaluations=len(cases), distinct=len(nontrivial), explanation=explanation,
        trusted=core.COMMON_TRUSTED + ["hand-written model lean/AdaptiveModel/Runner.lean (tied by correspondence)",
                                       "harness/runner_drive.py shims for concurrent.futures.wait / asyncio.wait and inert futures",
                                       "real executors' thread/process behaviour and asyncio internals are NOT modelled"] + list(extra_trusted),
        assumptions=["learner answers ask(k) with at most k points (in-flight bound)",
                     "exceptions raised by the learner or the goal themselves are out of scope"],
        partial=partial,
    )


def replay(ctx, path, oracles):
    import json
    d = json.load(open(path))
    cfg = d.get("replay", d)
    if "real_time" in cfg:
        from harness import runner_real_time as rt
        o = rt.scenario(cfg["real_time"])
        print(o)
        return 1 if o["fail"] else 0
    if "real_threads" in cfg:
        from harness import runner_real_threads as rth
        o = rth.scenario(cfg["real_threads"])
        print(o)
        return 1 if o["fail"] else 0
    if "real_async" in cfg:
        from harness import runner_real_async as ra
        o = ra.scenario(cfg["real_async"])
        print(o)
        return 1 if o["fail"] else 0
    res = execute(cfg)
    rc = 0
    for name, orc in oracles:
        f = orc(res)
        print("oracle", name, ":", f)
        rc |= bool(f)
    mo = [canon_model(x) for x in core.run_driver(res["lines"])]
    for l, a, b in zip(res["lines"], res["impl"], mo):
        print(("== " if a == b else "!= ") + l + "\n     impl  " + a + "\n     model " + b)
    return rc
