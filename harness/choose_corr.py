#!/venv/bin/python
"""Correspondence of the Lean model `Choose.choosePoint2` (AdaptiveModel/Choose.lean) with the real
`adaptive.learner.learnerND.choose_point_in_simplex` for triangles, BIT FOR BIT.

usage: corr_choose.py [--lean DIR] [--seed N] [--n CASES_PER_CATEGORY_AND_TRANSFORM]

Every case is (three points, transform) with transform None or np.diag([t0, t1]); the real function is called with
np.array(pts) and transform=np.diag(t); the Lean driver (`choose call2`) gets the same bit patterns.
"""
import argparse
import struct
import subprocess
import sys
import warnings
from collections import Counter

import numpy as np



def _real():
    from adaptive.learner.learnerND import choose_point_in_simplex
    from adaptive.learner.triangulation import circumsphere, point_in_simplex
    return choose_point_in_simplex, circumsphere, point_in_simplex


def bits(x):
    return struct.unpack("<Q", struct.pack("<d", float(x)))[0]


def frombits(n):
    return struct.unpack("<d", struct.pack("<Q", n))[0]


# ---------------------------------------------------------------- generators (all seeded)
def g_well(rng):
    """well shaped: a perturbed equilateral triangle, random rotation"""
    a = rng.uniform(0, 2 * np.pi)
    ang = a + np.array([0, 2 * np.pi / 3, 4 * np.pi / 3]) + rng.normal(scale=0.15, size=3)
    r = rng.uniform(0.7, 1.3, size=3)
    return np.stack([r * np.cos(ang), r * np.sin(ang)], axis=1)


def g_random(rng):
    return rng.normal(size=(3, 2))


def g_thin(rng):
    """thin: third point very close to the line through the first two"""
    p0, p1 = rng.normal(size=2), rng.normal(size=2)
    lam = rng.uniform(-0.5, 1.5)
    d = p1 - p0
    n = np.array([-d[1], d[0]])
    h = 10.0 ** rng.uniform(-12, -1) * rng.choice([-1, 1])
    pts = np.stack([p0, p1, p0 + lam * d + h * n])
    return pts[rng.permutation(3)]


def g_obtuse(rng):
    """obtuse: apex inside the circle over the base"""
    p0, p1 = rng.normal(size=2), rng.normal(size=2)
    m = (p0 + p1) / 2
    r = np.linalg.norm(p1 - p0) / 2
    a = rng.uniform(0, 2 * np.pi)
    q = m + rng.uniform(0.05, 0.98) * r * np.array([np.cos(a), np.sin(a)])
    pts = np.stack([p0, p1, q])
    return pts[rng.permutation(3)]


def g_nearright(rng):
    """apex within a few ulps .. 1e-6 of the circle over the base: the circumcentre is about on an edge,
    inside the tolerance band of width 1e-8 or just outside of it"""
    p0, p1 = rng.normal(size=2), rng.normal(size=2)
    m = (p0 + p1) / 2
    r = np.linalg.norm(p1 - p0) / 2
    a = rng.uniform(0, 2 * np.pi)
    f = 1 + rng.choice([-1, 1]) * 10.0 ** rng.uniform(-16, -6)
    q = m + f * r * np.array([np.cos(a), np.sin(a)])
    pts = np.stack([p0, p1, q])
    return pts[rng.permutation(3)]


def g_right(rng):
    """exact right angle with small integer / dyadic coordinates: the circumcentre is exactly the midpoint of the
    hypotenuse; also rotated by a pythagorean direction (legs (a,b)k, (-b,a)l)"""
    k, l = rng.integers(1, 9, size=2)
    a, b = [(1, 0), (0, 1), (3, 4), (4, 3), (5, 12), (1, 1), (1, 2), (2, 1), (8, 15)][rng.integers(0, 9)]
    if rng.random() < 0.5:
        a = -a
    o = rng.integers(-8, 9, size=2).astype(float)
    p0 = o
    p1 = o + k * np.array([a, b], float)
    p2 = o + l * np.array([-b, a], float)
    pts = np.stack([p0, p1, p2]) / 2.0 ** rng.integers(0, 4)
    return pts[rng.permutation(3)]


def g_ties(rng):
    """exact ties of edge lengths: isosceles / 'equilateral-like' triangles with dyadic coordinates, every vertex
    order; acute and obtuse isosceles"""
    kind = rng.integers(0, 5)
    if kind == 0:  # isosceles, apex over the middle of the base
        w = rng.integers(1, 9)
        h = rng.integers(1, 17)
        pts = np.array([[-w, 0], [w, 0], [0, h]], float)
    elif kind == 1:  # two equal LONGEST edges (acute apex) on a lattice: (0,0),(a,b),(-b,a) rotated: legs equal, right
        a, b = rng.integers(1, 9, size=2)
        pts = np.array([[0, 0], [a, b], [b, a]], float)  # |p1|=|p2|
    elif kind == 2:  # base is one of two equal longest: (0,0),(2w,0),(w - d, h) with (w+d)^2+h^2 = 4w^2 not needed: use mirrored pairs
        a, b = rng.integers(1, 9, size=2)
        pts = np.array([[0, 0], [a, b], [a, -b]], float)
    elif kind == 3:  # three pairwise distances from the same pythagorean family: 5,5,6 / 5,5,8 / 13,13,10 / 13,13,24
        pts = np.array([[[-3, 0], [3, 0], [0, 4]], [[-4, 0], [4, 0], [0, 3]], [[-5, 0], [5, 0], [0, 12]],
                        [[-12, 0], [12, 0], [0, 5]]][rng.integers(0, 4)], float)
    else:  # all three equal as doubles is impossible on a lattice; take the rounded equilateral triangle
        pts = np.array([[0, 0], [1, 0], [0.5, np.sqrt(3) / 2]], float) * rng.integers(1, 9)
    if rng.random() < 0.5:
        pts = pts[:, ::-1].copy()
    pts = pts / 2.0 ** rng.integers(0, 4) + rng.integers(-4, 5, size=2)
    return pts[rng.permutation(3)]


def g_degenerate(rng):
    """collinear (exactly: small integers), repeated vertices, all vertices equal"""
    kind = rng.integers(0, 4)
    o = rng.integers(-8, 9, size=2).astype(float)
    d = rng.integers(-5, 6, size=2).astype(float)
    if kind == 0:
        ks = rng.permutation(np.arange(-6, 7))[:3]
        pts = np.stack([o + k * d for k in ks])
    elif kind == 1:
        q = o + d
        pts = np.stack([o, o, q])[rng.permutation(3)]
    elif kind == 2:
        pts = np.stack([o, o, o])
    else:  # horizontal / vertical
        ks = rng.permutation(np.arange(-6, 7))[:3].astype(float)
        pts = np.stack([np.array([k, 0.0]) if rng.random() < 2 else None for k in ks]) + o
        if rng.random() < 0.5:
            pts = pts[:, ::-1].copy()
    return pts.astype(float)


def g_negzero(rng):
    """coordinates that are exactly +0.0 / -0.0"""
    pts = rng.integers(-2, 3, size=(3, 2)).astype(float)
    mask = rng.random(size=(3, 2)) < 0.5
    pts = np.where(mask, np.where(rng.random(size=(3, 2)) < 0.5, -0.0, 0.0), pts)
    return pts


def g_far(rng):
    """far from the origin: offset 1e3 .. 1e9 times the size"""
    base = [g_well, g_random, g_thin, g_obtuse, g_right, g_ties][rng.integers(0, 6)](rng)
    off = rng.normal(size=2) * 10.0 ** rng.uniform(3, 9)
    if rng.random() < 0.3:
        off = np.round(off)
    return base + off


GENS = [("well", g_well), ("random", g_random), ("thin", g_thin), ("obtuse", g_obtuse), ("nearright", g_nearright),
        ("right", g_right), ("ties", g_ties), ("degenerate", g_degenerate), ("negzero", g_negzero), ("far", g_far)]


def transforms(rng, pts):
    """None / diag of powers of two / diag(1/width) with non-dyadic widths (what LearnerND passes) / very anisotropic"""
    yield "none", None
    yield "pow2", 2.0 ** rng.integers(-20, 21, size=2)
    w = rng.uniform(0.1, 10, size=2) * 10.0 ** rng.integers(-3, 4, size=2)
    yield "invwidth", 1 / w
    yield "aniso", np.array([1 / rng.uniform(1e-6, 1e-3), 1 / rng.uniform(1e3, 1e6)])[rng.permutation(2)]


def classify(pts, t):
    """which branch the REAL code takes (recomputed with the real primitives), for the statistics only"""
    with warnings.catch_warnings():
        warnings.simplefilter("ignore")
        _, circumsphere, point_in_simplex = _real()
        s = pts if t is None else np.dot(pts, np.diag(t))
        c, _ = circumsphere(s)
        return "centroid" if point_in_simplex(c, s) else "edge"


def main():
    ap = argparse.ArgumentParser()
    ap.add_argument("--lean", default="/verif/lean")
    ap.add_argument("--seed", type=int, default=20261001)
    ap.add_argument("--n", type=int, default=600, help="triangles per category (times 4 transforms, times scales)")
    a = ap.parse_args()
    choose_point_in_simplex = _real()[0]
    rng = np.random.default_rng(a.seed)

    cases = []  # (category, transform kind, pts, t)
    for name, g in GENS:
        for _ in range(a.n):
            pts = np.asarray(g(rng), float)
            # common scale 2^-20 .. 2^20 (exact), sometimes different per axis
            if name != "far" or rng.random() < 0.5:
                sc = 2.0 ** rng.integers(-20, 21)
                pts = pts * sc
            for tk, t in transforms(rng, pts):
                cases.append((name, tk, pts.copy(), None if t is None else np.asarray(t, float)))

    # real function
    real = []
    rejected = Counter()
    for name, tk, pts, t in cases:
        with warnings.catch_warnings():
            warnings.simplefilter("ignore")
            try:
                r = choose_point_in_simplex(np.array(pts), transform=None if t is None else np.diag(t))
                real.append((float(r[0]), float(r[1])))
            except Exception as e:  # noqa: BLE001
                real.append(None)
                rejected[(name, tk, type(e).__name__)] += 1

    # lean
    lines = []
    for name, tk, pts, t in cases:
        fs = [bits(v) for v in pts.reshape(-1)]
        if t is not None:
            fs += [bits(t[0]), bits(t[1])]
        lines.append("choose call2 " + ",".join(str(b) for b in fs))
    out = subprocess.run(["lake", "env", "lean", "--run", "Driver.lean"], input="\n".join(lines) + "\n",
                         capture_output=True, text=True, cwd=a.lean)
    outs = [l for l in out.stdout.splitlines() if l.startswith("#") or l.startswith("bad")]
    if len(outs) != len(cases):
        print("driver produced", len(outs), "lines for", len(cases), "cases", file=sys.stderr)
        print(out.stdout[-2000:], out.stderr[-2000:], file=sys.stderr)
        sys.exit(2)

    agree = Counter()
    dis = Counter()
    branch = Counter()
    nbad = 0
    for (name, tk, pts, t), r, o in zip(cases, real, outs):
        if r is None:
            continue
        br = classify(pts, t)
        branch[(name, br)] += 1
        lean = tuple(frombits(int(x[1:])) for x in o.split(","))
        same = all((bits(x) == bits(y)) or (np.isnan(x) and np.isnan(y)) for x, y in zip(r, lean))
        if same:
            agree[(name, tk)] += 1
        else:
            dis[(name, tk)] += 1
            nbad += 1
            print("DISAGREE", name, tk, "pts", pts.tolist(), "t", None if t is None else t.tolist(), "real", r,
                  [hex(bits(v)) for v in r], "lean", lean, [hex(bits(v)) for v in lean], "branch(real)", br)

    print("cases", len(cases), "compared", sum(agree.values()) + sum(dis.values()), "agree", sum(agree.values()),
          "disagree", nbad, "rejected by the real function", sum(rejected.values()))
    for name, _ in GENS:
        row = []
        for tk in ("none", "pow2", "invwidth", "aniso"):
            row.append(f"{tk}: {agree[(name, tk)]}/{agree[(name, tk)] + dis[(name, tk)]}")
        print(f"  {name:11s}", "  ".join(row), "  branches (real): centroid", branch[(name, "centroid")], "edge",
              branch[(name, "edge")])
    for k, v in rejected.items():
        print("  rejected:", k, v)
    sys.exit(1 if nbad else 0)


if __name__ == "__main__":
    main()


def harness_case(seed, per_cat=3):
    """one lock-step case for harness/props/c20.py: `per_cat` triangles of every category x 4 transforms; returns
    (lines, impl outputs `0|#bits,#bits`, statistics)"""
    choose_point_in_simplex = _real()[0]
    rng = np.random.default_rng(seed)
    lines, impl, stats = [], [], Counter()
    for name, g in GENS:
        for _ in range(per_cat):
            pts = np.asarray(g(rng), float)
            if name != "far" or rng.random() < 0.5:
                pts = pts * 2.0 ** rng.integers(-20, 21)
            for tk, t in transforms(rng, pts):
                t = None if t is None else np.asarray(t, float)
                fs = [bits(v) for v in pts.reshape(-1)] + ([] if t is None else [bits(t[0]), bits(t[1])])
                with warnings.catch_warnings():
                    warnings.simplefilter("ignore")
                    try:
                        r = choose_point_in_simplex(np.array(pts), transform=None if t is None else np.diag(t))
                        out = f"0|#{bits(r[0])},#{bits(r[1])}"
                    except Exception as e:  # noqa: BLE001 - the real function rejects nothing on finite input (shown as a disagreement)
                        out = f"0|raised {type(e).__name__}"
                    br = classify(pts, t)
                lines.append("choose call2 " + ",".join(map(str, fs)))
                impl.append(out)
                stats[f"choose:{name}"] += 1
                stats[f"choose_transform:{tk}"] += 1
                stats[f"choose_branch:{br}"] += 1
    return lines, impl, dict(stats)
