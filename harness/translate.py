#!/venv/bin/python
"""Translator: /repo source  ->  lean/AdaptiveModel/Gen/{Prims,PrimsRun,Constants}.lean   (DESIGN.md 2.3)

Regenerates, from the CURRENT working tree of the repository (path `harness.core.REPO`), Lean
definitions of the closed-form geometric / loss primitives.  It is a small symbolic interpreter
over the Python `ast` of the functions listed in `SPECS`:

  * the shape of every argument is fixed by the spec (e.g. `points` = 3 points of 2 coordinates), so
    `len(v) == k`, `matrix.shape == (k, k)`, `isinstance(y, Iterable)`, `dim == 2`, ... are decided
    statically and only the branch the code takes for that shape is emitted;
  * tuple-destructuring assignments, indexing / slicing of tuples and arrays by constants, `+ - * /`,
    unary `+ -`, numeric literals (a double literal m/2^k is emitted as the exact quotient, which is
    the same double at `Float` and the same number in a field), comparisons and `and` / `or` / `not`,
    `if` on a run-time comparison, `return` of scalars / tuples / booleans / lists, list
    comprehensions over `range`, calls of other functions of the repository (inlined);
  * a fixed table of library kernels with their documented meaning (`KERNELS`): `sqrt`, `abs`
    (kept abstract: explicit function parameters of the generated definition), `array/asarray`
    (identity), elementwise broadcasting `-` of arrays, `np.subtract`, `np.hypot(a,b) = sqrt(a*a+b*b)`,
    `pdist(.., "euclidean")`, `math.factorial` of a static integer, `.ravel()`, `.shape`, `len`.

Anything else raises `TranslateError` (non-zero exit, message naming function, line and construct):
a function that leaves the subset is reported, never silently approximated.

Output is deterministic (same source -> byte-identical files).  The theorems of
`AdaptiveProofs/Props/C20.lean` are about these generated definitions; when the source changes, the
regenerated definitions change and the proofs (or the bit-level correspondence run) break.
"""
from __future__ import annotations

import ast
import inspect
import os
import re
import struct
import sys
from fractions import Fraction
from pathlib import Path

_HERE = Path(__file__).resolve().parent
if str(_HERE.parent) not in sys.path:
    sys.path.insert(0, str(_HERE.parent))
from harness.core import LEAN, REPO  # noqa: E402

GEN = LEAN / "AdaptiveModel" / "Gen"
TRI = "adaptive.learner.triangulation"
L1 = "adaptive.learner.learner1D"
LN = "adaptive.learner.learnerND"
L2 = "adaptive.learner.learner2D"


class TranslateError(Exception):
    pass


# ------------------------------------------------------------------------------------------------
# what is translated.  params: (name, shape) with shape () = scalar, (k,) / (k, m) = tuple/array of
# scalars, "nat" = run-time natural number.  Parameters of the python function that are not listed
# take their python default.  `radicand`: also emit `<lean>_radicand`, the argument of the final sqrt.
SPECS = [
    dict(lean="fast_norm2", mod=TRI, fn="fast_norm", params=[("v", (2,))], radicand=True),
    dict(lean="fast_norm3", mod=TRI, fn="fast_norm", params=[("v", (3,))], radicand=True),
    dict(lean="fast_2d_point_in_simplex", mod=TRI, fn="fast_2d_point_in_simplex",
         params=[("point", (2,)), ("simplex", (3, 2)), ("eps", ())]),
    dict(lean="point_in_simplex2", mod=TRI, fn="point_in_simplex",
         params=[("point", (2,)), ("simplex", (3, 2)), ("eps", ())]),
    dict(lean="fast_2d_circumcircle", mod=TRI, fn="fast_2d_circumcircle", params=[("points", (3, 2))]),
    dict(lean="fast_3d_circumcircle", mod=TRI, fn="fast_3d_circumcircle", params=[("points", (4, 3))]),
    dict(lean="circumsphere2", mod=TRI, fn="circumsphere", params=[("pts", (3, 2))]),
    dict(lean="circumsphere3", mod=TRI, fn="circumsphere", params=[("pts", (4, 3))]),
    dict(lean="fast_det2", mod=TRI, fn="fast_det", params=[("matrix", (2, 2))]),
    dict(lean="fast_det3", mod=TRI, fn="fast_det", params=[("matrix", (3, 3))]),
    dict(lean="simplex_volume_heron", mod=TRI, fn="simplex_volume_in_embedding",
         params=[("vertices", (3, 2))], radicand=True),
    dict(lean="l1d_uniform_loss", mod=L1, fn="uniform_loss", params=[("xs", (2,)), ("ys", (2,))]),
    dict(lean="l1d_default_loss", mod=L1, fn="default_loss", params=[("xs", (2,)), ("ys", (2,))], radicand=True),
    dict(lean="l1d_default_loss_vec2", mod=L1, fn="default_loss", params=[("xs", (2,)), ("ys", (2, 2))]),
    dict(lean="l1d_default_loss_vec3", mod=L1, fn="default_loss", params=[("xs", (2,)), ("ys", (2, 3))]),
    dict(lean="l1d_triangle_loss4", mod=L1, fn="triangle_loss", params=[("xs", (4,)), ("ys", (4,))]),
    dict(lean="l1d_triangle_loss3l", mod=L1, fn="triangle_loss", params=[("xs", [None, (), (), ()]), ("ys", [None, (), (), ()])]),
    dict(lean="l1d_triangle_loss3r", mod=L1, fn="triangle_loss", params=[("xs", [(), (), (), None]), ("ys", [(), (), (), None])]),
    dict(lean="l1d_triangle_loss2", mod=L1, fn="triangle_loss", params=[("xs", [None, (), (), None]), ("ys", [None, (), (), None])]),
    dict(lean="l1d_triangle_loss4_vec1", mod=L1, fn="triangle_loss", params=[("xs", (4,)), ("ys", (4, 1))]),
    dict(lean="l1d_linspace", mod=L1, fn="linspace", params=[("x_left", ()), ("x_right", ()), ("n", "nat")]),
    dict(lean="nd_volume2", mod=LN, fn="volume", params=[("simplex", (3, 2))]),
    dict(lean="nd_volume3", mod=LN, fn="volume", params=[("simplex", (4, 3))]),
    dict(lean="nd_uniform_loss2", mod=LN, fn="uniform_loss",
         params=[("simplex", (3, 2)), ("values", (3,)), ("value_scale", ())]),
    dict(lean="nd_uniform_loss3", mod=LN, fn="uniform_loss",
         params=[("simplex", (4, 3)), ("values", (4,)), ("value_scale", ())]),
]


# ------------------------------------------------------------------------------------------------ values
class Sc:
    """scalar Lean expression of type α"""
    def __init__(self, e, atom=False, radicand=None):
        self.e, self.atom, self.radicand = e, atom, radicand

    def p(self):
        return self.e if self.atom else f"({self.e})"


class Nt:
    """run-time natural number (Lean `Nat` expression)"""
    def __init__(self, e, atom=False):
        self.e, self.atom = e, atom

    def p(self):
        return self.e if self.atom else f"({self.e})"


class Tup:
    def __init__(self, items, array=False):
        self.items, self.array = list(items), array


class PyInt:
    def __init__(self, v):
        self.v = int(v)


class Bo:
    """decidable proposition"""
    def __init__(self, e):
        self.e = e


class PyBool:
    def __init__(self, v):
        self.v = bool(v)


class NoneV:
    pass


class ListV:
    """Lean expression of type `List α`"""
    def __init__(self, e):
        self.e = e


class Static:
    """a python object needed only for static dispatch (a class used in isinstance, a metric name)"""
    def __init__(self, v):
        self.v = v


class FnRef:
    def __init__(self, dotted):
        self.dotted = dotted


# ------------------------------------------------------------------------------------------------ modules
class Module:
    def __init__(self, dotted):
        self.dotted = dotted
        self.path = REPO / (dotted.replace(".", "/") + ".py")
        if not self.path.exists():
            raise TranslateError(f"source file {self.path} not found")
        self.tree = ast.parse(self.path.read_text(), filename=str(self.path))
        self.funcs = {n.name: n for n in self.tree.body if isinstance(n, ast.FunctionDef)}
        self.names = {}    # local name -> dotted origin
        for n in ast.walk(self.tree):
            if isinstance(n, ast.ImportFrom) and n.module and n.level == 0:
                for a in n.names:
                    self.names[a.asname or a.name] = f"{n.module}.{a.name}"
            elif isinstance(n, ast.Import):
                for a in n.names:
                    if a.asname:
                        self.names[a.asname] = a.name
                    else:
                        self.names[a.name.split(".")[0]] = a.name.split(".")[0]


_MODS = {}


def module(dotted):
    if dotted not in _MODS:
        _MODS[dotted] = Module(dotted)
    return _MODS[dotted]


def lean_ident(s):
    return s.replace(".", "_")


# ------------------------------------------------------------------------------------------------ interpreter
class Tr:
    """translation of one spec"""

    def __init__(self, spec, radicand=False):
        self.spec, self.radicand = spec, radicand
        self.classes = set()      # Add Sub Mul Div Neg LT LE NatCast
        self.lits = set()         # numerals needing OfNat
        self.fparams = set()      # sqrt / abs
        self.ret_types = set()
        self.fresh = 0
        self.used = set()         # Lean names bound so far (parameters and lets)

    # ---- errors
    def fail(self, node, mod, msg):
        ln = getattr(node, "lineno", "?")
        src = ast.unparse(node) if isinstance(node, ast.AST) else ""
        raise TranslateError(
            f"{self.spec['mod']}.{self.spec['fn']} (as {self.spec['lean']}): {mod.path.name}:{ln}: {msg}: `{src[:120]}`")

    # ---- numerals
    def num(self, v, node=None, mod=None):
        if isinstance(v, bool):
            self.fail(node, mod, "boolean used as a number")
        if isinstance(v, int):
            if v < 0:
                self.fail(node, mod, "negative literal")
            self.lits.add(v)
            return Sc(f"({v} : α)", atom=True)
        if isinstance(v, float):
            if v != v or v in (float("inf"), float("-inf")) or v < 0:
                self.fail(node, mod, "non-finite or negative float literal")
            m, d = v.as_integer_ratio()     # exact; d is a power of two, m < 2^53
            if d == 1:
                self.lits.add(m)
                return Sc(f"({m} : α)", atom=True)
            self.lits.update((m, d))
            self.classes.add("Div")
            return Sc(f"({m} : α) / ({d} : α)")
        self.fail(node, mod, f"unsupported literal {v!r}")

    def as_scalar(self, v, node, mod):
        if isinstance(v, Sc):
            return v
        if isinstance(v, PyInt):
            if v.v < 0:
                self.classes.add("Neg")
                return Sc(f"-{self.num(-v.v).e}")
            return self.num(v.v, node, mod)
        if isinstance(v, Nt):
            self.classes.add("NatCast")
            return Sc(f"(({v.e} : Nat) : α)", atom=True)
        self.fail(node, mod, f"a scalar is required here, got {type(v).__name__}")

    # ---- arithmetic
    OPS = {ast.Add: ("+", "Add"), ast.Sub: ("-", "Sub"), ast.Mult: ("*", "Mul"), ast.Div: ("/", "Div")}

    def binop(self, op, a, b, node, mod):
        if isinstance(a, Tup) or isinstance(b, Tup):
            return self.broadcast(op, a, b, node, mod)
        if isinstance(a, PyInt) and isinstance(b, PyInt):
            if op is ast.Add:
                return PyInt(a.v + b.v)
            if op is ast.Sub:
                return PyInt(a.v - b.v)
            if op is ast.Mult:
                return PyInt(a.v * b.v)
            self.fail(node, mod, "division of two static integers")
        if isinstance(a, (Nt, PyInt)) and isinstance(b, (Nt, PyInt)):
            self.fail(node, mod, "arithmetic on run-time integers is outside the subset")
        if op not in self.OPS:
            self.fail(node, mod, "operator outside + - * /")
        sym, cls = self.OPS[op]
        a, b = self.as_scalar(a, node, mod), self.as_scalar(b, node, mod)
        self.classes.add(cls)
        return Sc(f"{a.p()} {sym} {b.p()}")

    def depth(self, v):
        return 1 + self.depth(v.items[0]) if isinstance(v, Tup) else 0

    def broadcast(self, op, a, b, node, mod):
        for v in (a, b):
            if isinstance(v, Tup) and not v.array:
                self.fail(node, mod, "arithmetic on a python tuple/list (not an array)")
        da, db = self.depth(a), self.depth(b)
        if da > db:
            return Tup([self.binop(op, x, b, node, mod) for x in a.items], array=True)
        if db > da:
            return Tup([self.binop(op, a, y, node, mod) for y in b.items], array=True)
        if len(a.items) != len(b.items):
            self.fail(node, mod, "array shapes do not match")
        return Tup([self.binop(op, x, y, node, mod) for x, y in zip(a.items, b.items)], array=True)

    # ---- names and calls
    def resolve(self, node, mod):
        """dotted origin of a Name / Attribute chain, or None"""
        parts = []
        n = node
        while isinstance(n, ast.Attribute):
            parts.append(n.attr)
            n = n.value
        if not isinstance(n, ast.Name):
            return None
        base = n.id
        parts.reverse()
        if not parts and base in mod.funcs:
            return f"{mod.dotted}.{base}"
        if base in mod.names:
            return ".".join([mod.names[base], *parts])
        if not parts and base in BUILTINS:
            return f"builtins.{base}"
        return None

    def emit_let(self, name, val, lines, ind):
        """bind python variable `name` to value `val`, emitting `let`s for compound scalars"""
        if isinstance(val, Sc):
            if val.atom and val.e == name:          # `points = array(points)`: nothing to bind
                return val
            name = self.unique(name)                # single assignment: a Lean name is never shadowed
            lines.append(f"{ind}let {name} : α := {val.e}")
            return Sc(name, atom=True, radicand=val.radicand)
        if isinstance(val, Tup):
            return Tup([self.emit_let(f"{name}_{i}", x, lines, ind) if isinstance(x, (Sc, Tup)) else x
                        for i, x in enumerate(val.items)], array=val.array)
        return val

    def assign(self, target, val, env, lines, ind, mod, prefix):
        if isinstance(target, ast.Name):
            env[target.id] = self.emit_let(prefix + target.id, val, lines, ind)
        elif isinstance(target, (ast.Tuple, ast.List)):
            if not isinstance(val, Tup):
                self.fail(target, mod, "destructuring of a non-tuple value")
            if len(val.items) != len(target.elts):
                self.fail(target, mod, f"destructuring {len(val.items)} values into {len(target.elts)} names")
            for t, v in zip(target.elts, val.items):
                self.assign(t, v, env, lines, ind, mod, prefix)
        else:
            self.fail(target, mod, "assignment target outside the subset")

    def flatten(self, v):
        if isinstance(v, Tup):
            return [y for x in v.items for y in self.flatten(x)]
        return [v]

    def index(self, val, sl, node, mod, env, lines, ind, prefix):
        if not isinstance(val, Tup):
            self.fail(node, mod, "indexing of a non-tuple value")
        n = len(val.items)
        if isinstance(sl, ast.Slice):
            def bound(b, dflt):
                if b is None:
                    return dflt
                x = self.expr(b, env, lines, ind, mod, prefix)
                if not isinstance(x, PyInt):
                    self.fail(node, mod, "slice bound is not a static integer")
                return x.v
            if sl.step is not None:
                self.fail(node, mod, "slice step")
            return Tup(val.items[slice(bound(sl.lower, None), bound(sl.upper, None))], array=val.array)
        if isinstance(sl, ast.Tuple):        # a[i, j]
            for s in sl.elts:
                val = self.index(val, s, node, mod, env, lines, ind, prefix)
            return val
        i = self.expr(sl, env, lines, ind, mod, prefix)
        if not isinstance(i, PyInt):
            self.fail(node, mod, "index is not a static integer")
        if not -n <= i.v < n:
            self.fail(node, mod, f"index {i.v} out of range for length {n}")
        return val.items[i.v]

    def call(self, node, env, lines, ind, mod, prefix):
        f = node.func
        # methods of arrays
        if isinstance(f, ast.Attribute) and self.resolve(f, mod) is None:
            recv = self.expr(f.value, env, lines, ind, mod, prefix)
            if isinstance(recv, Tup) and f.attr == "ravel" and not node.args and recv.array:
                return Tup(self.flatten(recv), array=True)
            if isinstance(recv, Tup) and f.attr == "max" and not node.args and not node.keywords and recv.array \
                    and recv.items and all(isinstance(x, Sc) for x in recv.items):
                # numpy max of a 1-d array (no NaN): fold of `maximum(a, b) = b if a < b else a`
                self.classes.add("LT")
                items = [x if x.atom else self.emit_let(self.tmp(prefix, "m"), x, lines, ind) for x in recv.items]
                acc = items[0]
                for x in items[1:]:
                    acc = self.emit_let(self.tmp(prefix, "max"), Sc(f"if {acc.e} < {x.e} then {x.e} else {acc.e}"), lines, ind)
                return acc
            self.fail(node, mod, f"method .{f.attr}() outside the subset")
        dotted = self.resolve(f, mod)
        if dotted is None and isinstance(f, ast.Name) and isinstance(env.get(f.id), FnRef):
            dotted = env[f.id].dotted
        if dotted is None:
            self.fail(node, mod, "call of an unknown function")
        args = self.arglist(node.args, env, lines, ind, mod, prefix)
        kw = {}
        for k in node.keywords:
            if k.arg is None:
                self.fail(node, mod, "**kwargs")
            kw[k.arg] = self.expr(k.value, env, lines, ind, mod, prefix)
        if dotted in KERNELS:
            return KERNELS[dotted](self, args, kw, node, mod)
        m, _, fn = dotted.rpartition(".")
        if m.startswith("adaptive."):
            cm = module(m)
            if fn in cm.funcs:
                return self.inline(cm, cm.funcs[fn], args, kw, node, mod, lines, ind)
        self.fail(node, mod, f"call of `{dotted}` is outside the subset")

    def unique(self, name):
        while name in self.used:
            name += "'"
        self.used.add(name)
        return name

    def tmp(self, prefix, stem):
        self.fresh += 1
        return f"{prefix}{stem}{self.fresh}"

    def arglist(self, nodes, env, lines, ind, mod, prefix):
        """positional arguments / tuple display elements, `*seq` of a static sequence expanded"""
        out = []
        for a in nodes:
            if isinstance(a, ast.Starred):
                v = self.expr(a.value, env, lines, ind, mod, prefix)
                if not isinstance(v, Tup):
                    self.fail(a, mod, "* of a value of unknown length")
                out += v.items
            else:
                out.append(self.expr(a, env, lines, ind, mod, prefix))
        return out

    def tail_callee(self, n, env, mod):
        if not isinstance(n, ast.Call) or any(k.arg is None for k in n.keywords):
            return None
        d = self.resolve(n.func, mod)
        if d is None or d in KERNELS:
            return None
        m, _, fn = d.rpartition(".")
        if m.startswith("adaptive.") and fn in module(m).funcs:
            return module(m), module(m).funcs[fn]
        return None

    def bind_params(self, fdef, args, kw, node, mod, cmod, lines, ind, prefix):
        a = fdef.args
        if a.vararg or a.kwarg or a.kwonlyargs or a.posonlyargs:
            self.fail(fdef, cmod, "signature outside the subset")
        names = [x.arg for x in a.args]
        env = {}
        if len(args) > len(names):
            self.fail(node, mod, "too many arguments")
        for nme, v in zip(names, args):
            env[nme] = v
        for k, v in kw.items():
            if k not in names or k in env:
                self.fail(node, mod, f"bad keyword argument {k}")
            env[k] = v
        defaults = dict(zip(names[len(names) - len(a.defaults):], a.defaults))
        for nme in names:
            if nme not in env:
                if nme not in defaults:
                    self.fail(node, mod, f"missing argument {nme}")
                env[nme] = self.expr(defaults[nme], {}, lines, ind, cmod, prefix)
        return env

    def inline(self, cmod, fdef, args, kw, node, mod, lines, ind):
        prefix = fdef.name + "_"
        env = self.bind_params(fdef, args, kw, node, mod, cmod, lines, ind, prefix)
        r = self.stmts(fdef.body, env, lines, ind, cmod, prefix, inline=True)
        if r is None:
            self.fail(fdef, cmod, "inlined function does not return on this path")
        return r

    # ---- expressions
    def expr(self, n, env, lines, ind, mod, prefix):
        if isinstance(n, ast.Constant):
            if n.value is None:
                return NoneV()
            if isinstance(n.value, bool):
                return PyBool(n.value)
            if isinstance(n.value, int):
                return PyInt(n.value)
            if isinstance(n.value, float):
                return self.num(n.value, n, mod)
            if isinstance(n.value, str):
                return Static(n.value)
            self.fail(n, mod, "literal outside the subset")
        if isinstance(n, ast.Name):
            if n.id in env:
                return env[n.id]
            d = self.resolve(n, mod)
            if d is not None:
                if d in STATIC_OBJECTS:
                    return Static(d)
                return FnRef(d)
            self.fail(n, mod, "unknown name")
        if isinstance(n, ast.Attribute):
            d = self.resolve(n, mod)
            if d is not None:
                if d in STATIC_OBJECTS:
                    return Static(d)
                return FnRef(d)
            v = self.expr(n.value, env, lines, ind, mod, prefix)
            if isinstance(v, Tup) and v.array and n.attr == "shape":
                sh, w = [], v
                while isinstance(w, Tup):
                    sh.append(PyInt(len(w.items)))
                    w = w.items[0]
                return Tup(sh)
            self.fail(n, mod, f"attribute .{n.attr} outside the subset")
        if isinstance(n, (ast.Tuple, ast.List)):
            if isinstance(n, ast.List) and not n.elts:
                return ListV("[]")
            return Tup(self.arglist(n.elts, env, lines, ind, mod, prefix))
        if isinstance(n, ast.UnaryOp):
            v = self.expr(n.operand, env, lines, ind, mod, prefix)
            if isinstance(n.op, ast.UAdd):
                return v
            if isinstance(n.op, ast.USub):
                if isinstance(v, PyInt):
                    return PyInt(-v.v)
                if isinstance(v, Tup):
                    if not v.array:
                        self.fail(n, mod, "negation of a python tuple")
                    return Tup([self.expr_neg(x, n, mod) for x in v.items], array=True)
                return self.expr_neg(v, n, mod)
            if isinstance(n.op, ast.Not):
                if isinstance(v, PyBool):
                    return PyBool(not v.v)
                if isinstance(v, Bo):
                    return Bo(f"¬ ({v.e})")
            self.fail(n, mod, "unary operator outside the subset")
        if isinstance(n, ast.BinOp):
            a = self.expr(n.left, env, lines, ind, mod, prefix)
            b = self.expr(n.right, env, lines, ind, mod, prefix)
            return self.binop(type(n.op), a, b, n, mod)
        if isinstance(n, ast.Subscript):
            v = self.expr(n.value, env, lines, ind, mod, prefix)
            return self.index(v, n.slice, n, mod, env, lines, ind, prefix)
        if isinstance(n, ast.Call):
            return self.call(n, env, lines, ind, mod, prefix)
        if isinstance(n, ast.Compare):
            return self.compare(n, env, lines, ind, mod, prefix)
        if isinstance(n, ast.BoolOp):
            vs = [self.expr(v, env, lines, ind, mod, prefix) for v in n.values]
            if all(isinstance(v, PyBool) for v in vs):
                return PyBool(all(v.v for v in vs) if isinstance(n.op, ast.And) else any(v.v for v in vs))
            if all(isinstance(v, Bo) for v in vs):
                sym = " ∧ " if isinstance(n.op, ast.And) else " ∨ "
                return Bo(sym.join(f"({v.e})" for v in vs))
            self.fail(n, mod, "and/or of non-boolean values")
        if isinstance(n, (ast.ListComp, ast.GeneratorExp)):
            return self.listcomp(n, env, lines, ind, mod, prefix)
        self.fail(n, mod, f"expression kind {type(n).__name__} outside the subset")

    def expr_neg(self, v, n, mod):
        v = self.as_scalar(v, n, mod)
        self.classes.add("Neg")
        return Sc(f"-{v.p()}")

    CMP = {ast.Lt: ("<", "LT"), ast.Gt: (">", "LT"), ast.LtE: ("≤", "LE"), ast.GtE: ("≥", "LE")}

    def compare(self, n, env, lines, ind, mod, prefix):
        if len(n.ops) != 1:
            self.fail(n, mod, "chained comparison")
        a = self.expr(n.left, env, lines, ind, mod, prefix)
        b = self.expr(n.comparators[0], env, lines, ind, mod, prefix)
        op = type(n.ops[0])
        if op in (ast.Is, ast.IsNot):
            if isinstance(b, NoneV) or isinstance(a, NoneV):
                same = isinstance(a, NoneV) and isinstance(b, NoneV)
                return PyBool(same == (op is ast.Is))
            self.fail(n, mod, "`is` on something else than None")
        if op in (ast.Eq, ast.NotEq):
            sa, sb = self.static_py(a), self.static_py(b)
            if sa is not _NO and sb is not _NO:
                return PyBool((sa == sb) == (op is ast.Eq))
            if isinstance(a, Nt) and isinstance(b, (PyInt, Nt)) or isinstance(b, Nt) and isinstance(a, PyInt):
                ea = a.e if isinstance(a, Nt) else str(a.v)
                eb = b.e if isinstance(b, Nt) else str(b.v)
                return Bo(f"{ea} = {eb}" if op is ast.Eq else f"{ea} ≠ {eb}")
            self.fail(n, mod, "== / != on scalars is outside the subset")
        if isinstance(a, PyInt) and isinstance(b, PyInt):
            return PyBool({ast.Lt: a.v < b.v, ast.Gt: a.v > b.v, ast.LtE: a.v <= b.v, ast.GtE: a.v >= b.v}[op])
        if op not in self.CMP:
            self.fail(n, mod, "comparison operator outside the subset")
        sym, cls = self.CMP[op]
        a, b = self.as_scalar(a, n, mod), self.as_scalar(b, n, mod)
        self.classes.add(cls)
        return Bo(f"{a.p()} {sym} {b.p()}")

    def static_py(self, v):
        if isinstance(v, PyInt):
            return v.v
        if isinstance(v, PyBool):
            return v.v
        if isinstance(v, Tup):
            xs = [self.static_py(x) for x in v.items]
            return _NO if any(x is _NO for x in xs) else tuple(xs)
        return _NO

    def listcomp(self, n, env, lines, ind, mod, prefix):
        """[e for i in range(a, b)] with run-time naturals a, b  ->  (List.range' a (b - a)).map (fun i => e)"""
        if len(n.generators) != 1:
            self.fail(n, mod, "nested comprehension")
        g = n.generators[0]
        if g.is_async:
            self.fail(n, mod, "async comprehension")
        static = self.static_iter(g.iter, env, lines, ind, mod, prefix)
        if static is not None:
            # iteration over a sequence of statically known length: unrolled
            out = []
            for item in static:
                env2 = dict(env)
                self.bind_target(g.target, item, env2, mod)
                keep = True
                for c in g.ifs:
                    cv = self.expr(c, env2, lines, ind, mod, prefix)
                    if not isinstance(cv, PyBool):
                        self.fail(c, mod, "comprehension filter is not decided statically")
                    keep = keep and cv.v
                if keep:
                    out.append(self.expr(n.elt, env2, lines, ind, mod, prefix))
            return Tup(out)
        if g.ifs or not isinstance(g.target, ast.Name) or isinstance(n, ast.GeneratorExp):
            self.fail(n, mod, "comprehension outside the subset")
        it = g.iter
        if not (isinstance(it, ast.Call) and self.resolve(it.func, mod) == "builtins.range" and 1 <= len(it.args) <= 2):
            self.fail(n, mod, "comprehension over something else than range(a, b)")
        bounds = [self.expr(a, env, lines, ind, mod, prefix) for a in it.args]
        if len(bounds) == 1:
            bounds = [PyInt(0)] + bounds
        def nat(v):
            if isinstance(v, PyInt) and v.v >= 0:
                return str(v.v)
            if isinstance(v, Nt):
                return v.p()
            self.fail(n, mod, "range bound is not a natural number")
        lo, hi = nat(bounds[0]), nat(bounds[1])
        var = self.unique(g.target.id)
        env2 = dict(env)
        env2[g.target.id] = Nt(var, atom=True)
        inner = []
        body = self.expr(n.elt, env2, inner, ind, mod, prefix)
        if inner:
            self.fail(n, mod, "assignment inside a comprehension")
        body = self.as_scalar(body, n, mod)
        return ListV(f"(List.range' {lo} ({hi} - {lo})).map (fun ({var} : Nat) => {body.e})")

    def static_iter(self, it, env, lines, ind, mod, prefix):
        """items of an iterable of statically known length (tuple/array value, range of static ints), else None"""
        if isinstance(it, ast.Call) and self.resolve(it.func, mod) == "builtins.range":
            b = [self.expr(a, env, lines, ind, mod, prefix) for a in it.args]
            if b and all(isinstance(x, PyInt) for x in b) and len(b) <= 3 and not it.keywords:
                return [PyInt(i) for i in range(*[x.v for x in b])]
            return None
        v = self.expr(it, env, lines, ind, mod, prefix)
        if isinstance(v, Tup):
            return v.items
        self.fail(it, mod, "iteration over a value of unknown length")

    def bind_target(self, target, val, env, mod):
        """loop variable binding (no `let`: the value is already named)"""
        if isinstance(target, ast.Name):
            env[target.id] = val
        elif isinstance(target, (ast.Tuple, ast.List)) and isinstance(val, Tup) and len(val.items) == len(target.elts):
            for t, v in zip(target.elts, val.items):
                self.bind_target(t, v, env, mod)
        else:
            self.fail(target, mod, "loop target does not match the iterated value")

    # ---- statements
    def stmts(self, body, env, lines, ind, mod, prefix, inline):
        """Executes statements.  Top level (inline=False): appends the Lean term to `lines`, returns
        True if every path returned.  Inlined call: returns the returned value (or None)."""
        for k, st in enumerate(body):
            rest = body[k + 1:]
            if isinstance(st, ast.Expr) and isinstance(st.value, ast.Constant) and isinstance(st.value.value, str):
                continue                                          # docstring
            if isinstance(st, ast.Assert):
                c = self.expr(st.test, env, lines, ind, mod, prefix)
                if not (isinstance(c, PyBool) and c.v):
                    self.fail(st, mod, "assert that is not statically true for this argument shape")
                continue
            if isinstance(st, ast.Assign):
                if len(st.targets) != 1:
                    self.fail(st, mod, "chained assignment")
                val = self.expr(st.value, env, lines, ind, mod, prefix)
                self.assign(st.targets[0], val, env, lines, ind, mod, prefix)
                continue
            if isinstance(st, ast.AnnAssign) and st.value is not None:
                val = self.expr(st.value, env, lines, ind, mod, prefix)
                self.assign(st.target, val, env, lines, ind, mod, prefix)
                continue
            if isinstance(st, ast.Return):
                if st.value is None:
                    self.fail(st, mod, "return without value")
                tail = self.tail_callee(st.value, env, mod)
                if tail is not None and not inline:
                    # `return f(...)` of a repository function: continue in f's body (it may branch at run time)
                    cmod, fdef = tail
                    args = self.arglist(st.value.args, env, lines, ind, mod, prefix)
                    kw = {k.arg: self.expr(k.value, env, lines, ind, mod, prefix) for k in st.value.keywords}
                    env2 = self.bind_params(fdef, args, kw, st.value, mod, cmod, lines, ind, fdef.name + "_")
                    return self.stmts(fdef.body, env2, lines, ind, cmod, fdef.name + "_", False)
                val = self.expr(st.value, env, lines, ind, mod, prefix)
                if inline:
                    return val
                lines.append(ind + self.render_return(val, st, mod))
                return True
            if isinstance(st, ast.If):
                c = self.expr(st.test, env, lines, ind, mod, prefix)
                if isinstance(c, PyBool):
                    r = self.stmts((st.body if c.v else st.orelse) + rest, env, lines, ind, mod, prefix, inline)
                    return r
                if not isinstance(c, Bo):
                    self.fail(st, mod, "condition is neither static nor a comparison of scalars")
                if inline:
                    self.fail(st, mod, "run-time branch inside an inlined call")
                lines.append(f"{ind}if {c.e} then")
                then_returns = bool(st.body) and isinstance(st.body[-1], ast.Return)
                r1 = self.stmts(st.body + ([] if then_returns else rest), dict(env), lines, ind + "  ", mod, prefix, False)
                lines.append(f"{ind}else")
                r2 = self.stmts(st.orelse + rest, dict(env), lines, ind + "  ", mod, prefix, False)
                if not (r1 and r2):
                    self.fail(st, mod, "a path through this `if` does not return")
                return True
            self.fail(st, mod, f"statement kind {type(st).__name__} outside the subset")
        return None if inline else False

    def ret_type(self, v, node, mod):
        if isinstance(v, (Sc, PyInt, Nt)):
            return "α"
        if isinstance(v, (Bo, PyBool)):
            return "Bool"
        if isinstance(v, ListV):
            return "List α"
        if isinstance(v, Tup) and v.items:
            ts = [self.ret_type(x, node, mod) for x in v.items]
            return " × ".join(t if " " not in t else f"({t})" for t in ts)
        self.fail(node, mod, f"return value of kind {type(v).__name__}")

    def render_value(self, v, node, mod):
        if isinstance(v, Sc):
            return v.e
        if isinstance(v, (PyInt, Nt)):
            return self.as_scalar(v, node, mod).e
        if isinstance(v, Bo):
            return f"decide ({v.e})"
        if isinstance(v, PyBool):
            return "true" if v.v else "false"
        if isinstance(v, ListV):
            return v.e
        if isinstance(v, Tup):
            return "(" + ", ".join(self.render_value(x, node, mod) for x in v.items) + ")"
        self.fail(node, mod, f"return value of kind {type(v).__name__}")

    def render_return(self, v, node, mod):
        if self.radicand:
            if not isinstance(v, Sc) or v.radicand is None:
                self.fail(node, mod, "radicand requested but the returned value is not a square root")
            v = v.radicand
        self.ret_types.add(self.ret_type(v, node, mod))
        return self.render_value(v, node, mod)

    # ---- one definition
    def run(self):
        spec = self.spec
        mod = module(spec["mod"])
        if spec["fn"] not in mod.funcs:
            raise TranslateError(f"{spec['mod']}.{spec['fn']} not found in {mod.path}")
        fdef = mod.funcs[spec["fn"]]
        binders, args = [], {}
        self.flat_params = []
        for name, shape in spec["params"]:
            if shape == "nat":
                args[name] = Nt(name, atom=True)
                binders.append(f"({name} : Nat)")
                self.flat_params.append((name, "nat"))
            else:
                def mk(nm, sh):
                    if sh is None:
                        return NoneV()
                    if isinstance(sh, list):          # template: one entry per element (None = python None)
                        return Tup([mk(f"{nm}_{i}", x) for i, x in enumerate(sh)])
                    if not sh:
                        self.flat_params.append((nm, "scalar"))
                        return Sc(nm, atom=True)
                    return Tup([mk(f"{nm}_{i}", sh[1:]) for i in range(sh[0])])
                first = len(self.flat_params)
                args[name] = mk(name, shape if isinstance(shape, list) else tuple(shape))
                binders.append("(" + " ".join(n for n, _ in self.flat_params[first:]) + " : α)")
        self.used.update(n for n, _ in self.flat_params)
        self.used.update(("sqrt", "abs", "α"))
        lines = []
        env = self.bind_params(fdef, [], args, fdef, mod, mod, lines, "  ", "")
        ok = self.stmts(fdef.body, env, lines, "  ", mod, "", inline=False)
        if not ok:
            self.fail(fdef, mod, "a path does not return")
        if len(self.ret_types) != 1:
            self.fail(fdef, mod, f"paths return different shapes {sorted(self.ret_types)}")
        self.ret = next(iter(self.ret_types))
        order = ["Add", "Sub", "Mul", "Div", "Neg", "NatCast", "LT", "LE"]
        inst = [f"[{c} α]" for c in order if c in self.classes]
        if "LT" in self.classes:
            inst.append("[DecidableLT α]")
        if "LE" in self.classes:
            inst.append("[DecidableLE α]")
        inst += [f"[OfNat α {k}]" for k in sorted(self.lits)]
        body = "\n".join(lines)
        self.fparam_list = [f for f in ("sqrt", "abs") if f in self.fparams and re.search(rf"(^|[ (]){f} ", body)]
        fp = [f"({f} : α → α)" for f in self.fparam_list]
        name = spec["lean"] + ("_radicand" if self.radicand else "")
        def shp(s):
            if s == "nat":
                return "nat"
            if isinstance(s, list):
                return "[" + ",".join("None" if x is None else shp(x) for x in s) + "]"
            return "×".join(map(str, s)) if s else "scalar"
        shapes = ", ".join(f"{n}: {shp(s)}" for n, s in spec["params"])
        doc = (f"/-- `{spec['mod']}.{spec['fn']}`" + (" (argument of the final square root)" if self.radicand else "")
               + f" for {shapes} -/")
        head = f"def {name} {{α : Type}} " + " ".join(inst + fp + binders) + f" :\n    {self.ret} :="
        self.name = name
        return "\n".join([doc, head, *lines])


_NO = object()
BUILTINS = {"len", "abs", "isinstance", "range", "zip", "sum", "list", "tuple", "float", "all", "any", "max", "min"}
STATIC_OBJECTS = {"collections.abc.Iterable", "builtins.float"}


# ------------------------------------------------------------------------------------------------ kernels
def _k_identity(tr, args, kw, node, mod):
    if len(args) != 1 or set(kw) - {"dtype"}:
        tr.fail(node, mod, "array()/asarray() with unexpected arguments")
    if "dtype" in kw and not (isinstance(kw["dtype"], Static) and kw["dtype"].v == "builtins.float"):
        tr.fail(node, mod, "dtype other than float")
    v = args[0]
    if not isinstance(v, Tup):
        tr.fail(node, mod, "array() of a non-sequence")
    def arr(x):
        return Tup([arr(y) for y in x.items], array=True) if isinstance(x, Tup) else x
    return arr(v)


def _k_sqrt(tr, args, kw, node, mod):
    if len(args) != 1 or kw:
        tr.fail(node, mod, "sqrt arity")
    x = tr.as_scalar(args[0], node, mod)
    tr.fparams.add("sqrt")
    return Sc(f"sqrt {x.p()}", radicand=x)


def _k_abs(tr, args, kw, node, mod):
    if len(args) != 1 or kw:
        tr.fail(node, mod, "abs arity")
    x = tr.as_scalar(args[0], node, mod)
    tr.fparams.add("abs")
    return Sc(f"abs {x.p()}")


def _k_len(tr, args, kw, node, mod):
    if len(args) != 1 or not isinstance(args[0], Tup):
        tr.fail(node, mod, "len of a value of unknown length")
    return PyInt(len(args[0].items))


def _k_factorial(tr, args, kw, node, mod):
    import math
    if len(args) != 1 or not isinstance(args[0], PyInt) or args[0].v < 0:
        tr.fail(node, mod, "factorial of a non-static integer")
    return PyInt(math.factorial(args[0].v))


def _k_isinstance(tr, args, kw, node, mod):
    if len(args) != 2 or not isinstance(args[1], Static) or args[1].v != "collections.abc.Iterable":
        tr.fail(node, mod, "isinstance test other than collections.abc.Iterable")
    return PyBool(isinstance(args[0], Tup))


def _k_subtract(tr, args, kw, node, mod):
    if len(args) != 2 or set(kw) - {"dtype"}:
        tr.fail(node, mod, "np.subtract arguments")
    a, b = (_k_identity(tr, [x], {}, node, mod) if isinstance(x, Tup) else x for x in args)
    return tr.binop(ast.Sub, a, b, node, mod)


def _k_hypot(tr, args, kw, node, mod):
    """documented meaning of np.hypot for scalars: sqrt(x*x + y*y)  (libm rounding may differ by an ulp)"""
    if len(args) != 2 or kw:
        tr.fail(node, mod, "hypot arity")
    if isinstance(args[1], Tup) and args[1].array and not isinstance(args[0], Tup):     # scalar against 1-d array
        return Tup([_k_hypot(tr, [args[0], y], kw, node, mod) for y in args[1].items], array=True)
    x, y = tr.as_scalar(args[0], node, mod), tr.as_scalar(args[1], node, mod)
    tr.classes.update(("Add", "Mul"))
    tr.fparams.add("sqrt")
    rad = Sc(f"({x.p()} * {x.p()}) + ({y.p()} * {y.p()})")
    return Sc(f"sqrt {rad.p()}", radicand=rad)


def _k_pdist(tr, args, kw, node, mod):
    """scipy.spatial.distance.pdist(X, metric='euclidean'): for i<j in row order, sqrt(sum_k (x_ik - x_jk)^2)"""
    metric = kw.get("metric", args[1] if len(args) > 1 else Static("euclidean"))
    if not (isinstance(metric, Static) and metric.v == "euclidean") or not isinstance(args[0], Tup):
        tr.fail(node, mod, "pdist with a metric other than 'euclidean'")
    rows = [tr.flatten(r) for r in args[0].items]
    out = []
    tr.classes.update(("Add", "Sub", "Mul"))
    tr.fparams.add("sqrt")
    for i in range(len(rows)):
        for j in range(i + 1, len(rows)):
            terms = []
            for a, b in zip(rows[i], rows[j]):
                d = f"({tr.as_scalar(a, node, mod).p()} - {tr.as_scalar(b, node, mod).p()})"
                terms.append(f"({d} * {d})")
            acc = terms[0]
            for t in terms[1:]:
                acc = f"({acc} + {t})"
            rad = Sc(acc[1:-1] if len(terms) > 1 else acc)
            out.append(Sc(f"sqrt {rad.p()}", radicand=rad))
    return Tup(out, array=True)


def _k_zip(tr, args, kw, node, mod):
    if kw or not args or not all(isinstance(a, Tup) for a in args):
        tr.fail(node, mod, "zip of values of unknown length")
    n = min(len(a.items) for a in args)
    return Tup([Tup([a.items[i] for a in args]) for i in range(n)])


def _k_seq(tr, args, kw, node, mod):
    if kw or len(args) != 1 or not isinstance(args[0], Tup):
        tr.fail(node, mod, "list()/tuple() of a value of unknown length")
    return Tup(args[0].items)


def _k_sum(tr, args, kw, node, mod):
    """python `sum`: 0 + x0 + x1 + ... from the left (start = int 0)"""
    if kw or len(args) != 1 or not isinstance(args[0], Tup):
        tr.fail(node, mod, "sum of a value of unknown length")
    acc = PyInt(0)
    for x in args[0].items:
        acc = tr.binop(ast.Add, acc, x, node, mod)
    return acc


KERNELS = {
    "math.sqrt": _k_sqrt, "numpy.sqrt": _k_sqrt,
    "builtins.abs": _k_abs, "numpy.abs": _k_abs,
    "numpy.array": _k_identity, "numpy.asarray": _k_identity,
    "builtins.len": _k_len,
    "math.factorial": _k_factorial,
    "builtins.isinstance": _k_isinstance,
    "numpy.subtract": _k_subtract,
    "numpy.hypot": _k_hypot,
    "scipy.spatial.distance.pdist": _k_pdist,
    "builtins.zip": _k_zip, "builtins.list": _k_seq, "builtins.tuple": _k_seq, "builtins.sum": _k_sum,
}


# ------------------------------------------------------------------------------------------------ files
HEADER = """/-
GENERATED by harness/translate.py from the repository's current source — DO NOT EDIT.
Regenerated by ./setup.sh and by every `./check C20`; committed so that a clean checkout builds.
{what}
-/
"""


def flat_expr(ret, r="r"):
    """Lean expression of type `List Float` listing the components of `r : ret` (α := Float)"""
    def parse(t):
        # types are right-nested products of: α | Bool | List α | (…)
        parts, depth, cur = [], 0, ""
        for ch in t:
            if ch == "(":
                depth += 1
            if ch == ")":
                depth -= 1
            if ch == "×" and depth == 0:
                parts.append(cur.strip())
                cur = ""
            else:
                cur += ch
        parts.append(cur.strip())
        return parts
    def go(t, e):
        t = t.strip()
        parts = parse(t)
        if len(parts) > 1:
            out = []
            for i, p in enumerate(parts):
                acc = e + ".2" * i + (".1" if i < len(parts) - 1 else "")
                out += go(p, acc)
            return out
        if t.startswith("(") and t.endswith(")"):
            return go(t[1:-1], e)
        if t == "α":
            return [f"[{e}]"]
        if t == "Bool":
            return [f"[if {e} then 1.0 else 0.0]"]
        if t == "List α":
            return [e]
        raise TranslateError(f"cannot flatten return type {t}")
    return " ++ ".join(go(ret, r))


def generate_prims(const_names=()):
    defs, runs = [], []
    for spec in SPECS:
        for rad in ([False, True] if spec.get("radicand") else [False]):
            tr = Tr(spec, radicand=rad)
            defs.append(tr.run())
            fl = [n for n, k in tr.flat_params if k == "scalar"]
            nt = [n for n, k in tr.flat_params if k == "nat"]
            fargs = " ".join({"sqrt": "Float.sqrt", "abs": "Float.abs"}[f] for f in tr.fparam_list)
            call = " ".join(x for x in [f"Gen.Prims.{tr.name} (α := Float)", fargs,
                                         " ".join(n for n, _ in tr.flat_params)] if x)
            runs.append(f"  | \"{tr.name}\", [{', '.join(fl)}], [{', '.join(nt)}] =>\n"
                        f"    let r := {call}\n    some ({flat_expr(tr.ret)})")
    prims = (HEADER.format(what="Polymorphic definitions of the closed-form geometric and loss primitives (one per function and "
                                "argument shape);\n`sqrt` / `abs` are explicit parameters.  Executed at `Float` by the driver, "
                                "proved about over fields in\nAdaptiveProofs/Props/C20.lean.")
             + "set_option linter.unusedVariables false\nnamespace Gen.Prims\n\n" + "\n\n".join(defs) + "\n\nend Gen.Prims\n")
    run = (HEADER.format(what="Evaluation of every generated primitive at `Float` for the line-protocol driver: "
                              "`call name floats nats`\nreturns the flattened components of the result "
                              "(booleans as 1.0 / 0.0).")
           + "import AdaptiveModel.Gen.Prims\nimport AdaptiveModel.Gen.Constants\nnamespace Gen.PrimsRun\n\nlocal instance : NatCast Float := ⟨Float.ofNat⟩\n\n"
           + "def names : List String :=\n  [" + ", ".join(f"\"{r.split(chr(34))[1]}\"" for r in runs) + "]\n\n"
           + "def call : String → List Float → List Nat → Option (List Float)\n" + "\n".join(runs)
           + "\n  | _, _, _ => none\n\n"
           + "/-- bit pattern of a generated constant (`Gen/Constants.lean`) by name -/\n"
           + "def constBits : String → Option Nat\n"
           + "\n".join(f"  | \"{n}\" => some Gen.Constants.{n}.bits" for n in const_names)
           + "\n  | _ => none\n\nend Gen.PrimsRun\n")
    # Lean requires imports before anything else (the header comment may precede them)
    return prims, run


# ------------------------------------------------------------------------------------------------ constants
def f2b(x):
    return struct.unpack(">Q", struct.pack(">d", float(x)))[0]


def _find_literal(modname, fn, pred, what):
    """the unique numeric constant in function `fn` of module `modname` selected by `pred(parent, node)`"""
    m = module(modname)
    target = None
    for n in ast.walk(m.tree):
        if isinstance(n, (ast.FunctionDef,)) and n.name == fn:
            target = n
            break
    if target is None:
        raise TranslateError(f"constants: function {modname}.{fn} not found")
    hits = pred(target)
    if len(hits) != 1:
        raise TranslateError(f"constants: expected exactly one {what} in {modname}.{fn}, found {len(hits)}")
    return hits[0]


def _const_value(n):
    if isinstance(n, ast.UnaryOp) and isinstance(n.op, ast.USub) and isinstance(n.operand, ast.Constant):
        return -n.operand.value
    if isinstance(n, ast.Constant) and isinstance(n.value, (int, float)) and not isinstance(n.value, bool):
        return n.value
    return None


def _compare_with(var, op=None):
    def pred(fn):
        out = []
        for n in ast.walk(fn):
            if (isinstance(n, ast.Compare) and isinstance(n.left, ast.Name) and n.left.id == var and len(n.comparators) == 1
                    and (op is None or isinstance(n.ops[0], op))):
                v = _const_value(n.comparators[0])
                if v is not None:
                    out.append(v)
        return out
    return pred


def _assigned(var):
    def pred(fn):
        out = []
        for n in ast.walk(fn):
            if isinstance(n, ast.Assign) and len(n.targets) == 1:
                t = n.targets[0]
                nm = t.id if isinstance(t, ast.Name) else (t.attr if isinstance(t, ast.Attribute) else None)
                if nm == var and _const_value(n.value) is not None:
                    out.append(_const_value(n.value))
        return out
    return pred


def _keyword(name):
    def pred(fn):
        out = []
        for n in ast.walk(fn):
            if isinstance(n, ast.keyword) and n.arg == name and _const_value(n.value) is not None:
                out.append(_const_value(n.value))
        return out
    return pred


def _default(modname, fn, arg):
    import importlib
    f = getattr(importlib.import_module(modname), fn)
    p = inspect.signature(f).parameters
    if arg not in p or p[arg].default is inspect._empty:
        raise TranslateError(f"constants: {modname}.{fn} has no default for `{arg}`")
    return p[arg].default


def _method_default(modname, cls, meth, arg):
    import importlib
    f = getattr(getattr(importlib.import_module(modname), cls), meth)
    p = inspect.signature(f).parameters
    if arg not in p or p[arg].default is inspect._empty:
        raise TranslateError(f"constants: {modname}.{cls}.{meth} has no default for `{arg}`")
    return p[arg].default


def collect_constants():
    """(lean name, value, provenance) — read from the live modules (defaults, instance attributes) and,
    for literals inside function bodies, from the source"""
    import importlib
    import warnings
    warnings.simplefilter("ignore")
    l1 = importlib.import_module(L1)
    ln = importlib.import_module(LN)
    l2 = importlib.import_module(L2)
    out = []

    def add(name, v, prov):
        if isinstance(v, bool) or not isinstance(v, (int, float)):
            raise TranslateError(f"constants: {prov} is {v!r}, not a number")
        out.append((name, v, prov))

    add("fast_2d_point_in_simplex_eps", _default(TRI, "fast_2d_point_in_simplex", "eps"), "default `eps` of triangulation.fast_2d_point_in_simplex")
    add("point_in_simplex_eps", _default(TRI, "point_in_simplex", "eps"), "default `eps` of triangulation.point_in_simplex")
    add("tri_point_in_simplex_eps", _method_default(TRI, "Triangulation", "point_in_simplex", "eps"), "default `eps` of Triangulation.point_in_simplex")
    add("get_reduced_simplex_eps", _method_default(TRI, "Triangulation", "get_reduced_simplex", "eps"), "default `eps` of Triangulation.get_reduced_simplex")
    add("extend_hull_eps", _method_default(TRI, "Triangulation", "_extend_hull", "eps"), "default `eps` of Triangulation._extend_hull")
    add("point_in_circumcircle_eps", _find_literal(TRI, "point_in_cicumcircle", _assigned("eps"), "`eps = <const>`"), "`eps` in Triangulation.point_in_cicumcircle")
    add("orientation_logdet_cut", _find_literal(TRI, "orientation", _compare_with("logdet"), "`logdet < <const>`"), "cut in triangulation.orientation (`logdet < cut` -> 0)")
    add("volume_embedding_neg_tol", _find_literal(TRI, "simplex_volume_in_embedding", _compare_with("vol_square", ast.Gt), "`vol_square > <const>`"),
        "`vol_square > tol` in triangulation.simplex_volume_in_embedding (negative squared volumes above it count as 0)")
    add("l1d_round_fac", _find_literal(L1, "finite_loss", _assigned("round_fac"), "`round_fac = <const>`"), "`round_fac` in learner1D.finite_loss")
    lrn1 = l1.Learner1D(lambda x: x, (0.0, 1.0))
    add("l1d_recompute_losses_factor", lrn1._recompute_losses_factor, "Learner1D(...)._recompute_losses_factor")
    add("l1d_dx_eps_unit_bounds", lrn1._dx_eps, "Learner1D(bounds=(0, 1))._dx_eps")
    lrnn = ln.LearnerND(lambda x: x, [(0.0, 1.0), (0.0, 1.0)])
    add("lnd_recompute_losses_factor", lrnn._recompute_losses_factor, "LearnerND(...)._recompute_losses_factor")
    add("lnd_priority_ndigits", _find_literal(LN, "_simplex_evaluation_priority", _keyword("ndigits"), "`ndigits=<const>`"), "`ndigits` in learnerND._simplex_evaluation_priority")
    for a in ("area_factor", "euclid_factor", "horizontal_factor"):
        add(f"l1d_curvature_{a}", _default(L1, "curvature_loss_function", a), f"default `{a}` of learner1D.curvature_loss_function")
    add("l1d_resolution_min_length", _default(L1, "resolution_loss_function", "min_length"), "default `min_length` of learner1D.resolution_loss_function")
    add("l1d_resolution_max_length", _default(L1, "resolution_loss_function", "max_length"), "default `max_length` of learner1D.resolution_loss_function")
    add("lnd_curvature_exploration", _default(LN, "curvature_loss_function", "exploration"), "default `exploration` of learnerND.curvature_loss_function")
    add("l2d_resolution_min_distance", _default(L2, "resolution_loss_function", "min_distance"), "default `min_distance` of learner2D.resolution_loss_function")
    add("l2d_resolution_max_distance", _default(L2, "resolution_loss_function", "max_distance"), "default `max_distance` of learner2D.resolution_loss_function")
    add("l2d_thresholded_priority_factor", _default(L2, "thresholded_loss_function", "priority_factor"), "default `priority_factor` of learner2D.thresholded_loss_function")
    lrn2 = l2.Learner2D(lambda xy: 0.0, [(0.0, 1.0), (0.0, 1.0)])
    add("l2d_stack_size", lrn2.stack_size, "Learner2D(...).stack_size")
    return out


def generate_constants(consts=None):
    rows = []
    for name, v, prov in (collect_constants() if consts is None else consts):
        fr = Fraction(v)       # exact value of the int / double
        kind = "int" if isinstance(v, int) else "double"
        rows.append(f"/-- {prov}: python `{v!r}` ({kind}) -/\n"
                    f"def {name} : Dbl := ⟨{f2b(v)}, {fr.numerator}, {fr.denominator}⟩")
    return (HEADER.format(what="Tolerances and defaults read from the live modules.  A constant is stored as the bit "
                               "pattern of the double\n(what the code computes with) together with its exact rational "
                               "value `num / den`.")
            + "namespace Gen.Constants\n\n"
            "/-- a python number: bits of the IEEE double, and its exact value `num / den` -/\n"
            "structure Dbl where\n  bits : Nat\n  num : Int\n  den : Nat\nderiving Repr, DecidableEq\n\n"
            "def Dbl.toFloat (d : Dbl) : Float := Float.ofBits (UInt64.ofNat d.bits)\n\n"
            + "\n\n".join(rows) + "\n\nend Gen.Constants\n")


def fix_import_order(text):
    """`import` lines must come first in a Lean file: move them above the header comment"""
    lines = text.splitlines()
    imps = [l for l in lines if l.startswith("import ")]
    rest = [l for l in lines if not l.startswith("import ")]
    return "\n".join(imps + rest) + "\n"


def generate(write=True):
    """Regenerate the three files.  Returns {relative path: changed?}.  Raises TranslateError."""
    _MODS.clear()
    consts = collect_constants()
    prims, run = generate_prims([c[0] for c in consts])
    files = {"Prims.lean": prims, "PrimsRun.lean": fix_import_order(run), "Constants.lean": generate_constants(consts)}
    changed = {}
    if write:
        GEN.mkdir(parents=True, exist_ok=True)
    for fn, text in files.items():
        p = GEN / fn
        old = p.read_text() if p.exists() else None
        changed[fn] = old != text
        if write and old != text:       # untouched files keep their mtime: lake rebuilds nothing
            tmp = p.with_suffix(f".tmp{os.getpid()}")
            tmp.write_text(text)
            os.replace(tmp, p)
    return changed


def main():
    try:
        ch = generate()
    except TranslateError as e:
        print(f"translate.py: FAILED: {e}", file=sys.stderr)
        sys.exit(1)
    for k, v in ch.items():
        print(f"translate.py: AdaptiveModel/Gen/{k} {'regenerated (changed)' if v else 'up to date'}")


if __name__ == "__main__":
    main()
