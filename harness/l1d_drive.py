"""Real Learner1D histories in lock-step with lean/AdaptiveModel/L1D.lean.

The loss function of the real learner is wrapped to record every call (scaled arguments -> value);
the records are handed to the model as its `lossFn` table before each operation.
"""
from __future__ import annotations

import math
import random

import numpy as np

import adaptive
from adaptive.learner import learner1D as l1
from harness.core import f2b

LOSSES = {
    "default": lambda: l1.default_loss,
    "uniform": lambda: l1.uniform_loss,
    "triangle": lambda: l1.triangle_loss,
    "curvature": lambda: l1.curvature_loss_function(),
    "resolution": lambda: l1.resolution_loss_function(0.02, 0.5),
    "abs_min_log": lambda: l1.abs_min_log_loss,
}
BOUNDS = [(-1.0, 1.0), (0.0, 1e-3), (1000.0, 1007.0), (-5e6, 2e6), (0.0, 1.0)]


def fb(x):
    return str(f2b(float(x)))


def fval(y):
    if isinstance(y, (list, tuple, np.ndarray)):
        return "/".join(fb(v) for v in np.asarray(y, dtype=float).ravel())
    return fb(y)


def rv(v):
    v = float(v)
    return "inf" if v == math.inf else repr(v)


class Recorder:
    def __init__(self, fn):
        self.fn = fn
        self.nth_neighbors = getattr(fn, "nth_neighbors", 0)
        self.new = []

    def __call__(self, xs, ys):
        v = self.fn(xs, ys)
        kx = "/".join("n" if x is None else fb(x) for x in xs)
        ky = "/".join("n" if y is None else ",".join(fb(c) for c in np.atleast_1d(np.asarray(y, dtype=float)).ravel()) for y in ys)
        fv = float(v)
        self.new.append(f"{kx}|{ky}=" + ("inf" if fv == math.inf else fb(fv)))
        return v


def make_fn(kind, rng):
    """value functions: smooth, discontinuous, exploding range, vector"""
    a, b, c = rng.uniform(0.5, 3), rng.uniform(-1, 1), rng.choice([0, 1, 3, 6])
    if kind == "smooth":
        return lambda x, u: math.sin(a * u) + b * u
    if kind == "step":
        return lambda x, u: (1.0 if u > b * 0.5 else -0.5) + 0.1 * u
    if kind == "explode":
        return lambda x, u: (10.0 ** (c * abs(u))) * math.cos(a * u)
    if kind == "const":
        return lambda x, u: 0.75
    if kind == "vec2":
        return lambda x, u: np.array([math.sin(a * u), 10.0 ** c * u * u])
    if kind == "vec3":
        return lambda x, u: np.array([u, 1.0 if u > 0 else 0.0, math.exp(a * u)])
    raise ValueError(kind)


def gen_case(rng, nops, loss_names=None, factor=None, scalar_only=False):
    lossn = rng.choice(loss_names or list(LOSSES))
    lo, hi = rng.choice(BOUNDS)
    fkinds = ["smooth", "step", "explode", "const"] + ([] if scalar_only or lossn == "abs_min_log" else ["vec2", "vec3"])
    fk = rng.choice(fkinds)
    if lossn == "abs_min_log":
        fk = rng.choice(["smooth", "explode"])
    return {"loss": lossn, "bounds": (lo, hi), "fn": fk, "seed": rng.randrange(1 << 30), "nops": nops,
            "factor": factor if factor is not None else rng.choice([2, 2, 1])}


def rand_x(rng, lo, hi, known):
    r = rng.random()
    if r < 0.5:
        k = rng.randrange(0, 65)
        return lo + (hi - lo) * k / 64.0
    if r < 0.6:
        return rng.choice([lo, hi])
    if r < 0.7 and known:
        # a point very close to an existing one (tiny interval)
        x = rng.choice(known)
        return min(hi, max(lo, x + (hi - lo) * rng.choice([1e-13, -1e-13, 1e-17])))
    return rng.uniform(lo, hi)


def obs(l):
    data = ",".join(f"{rv(x)}:{'/'.join(rv(c) for c in np.atleast_1d(np.asarray(y, dtype=float)).ravel())}" for x, y in l.data.items())
    pend = ",".join(rv(x) for x in sorted(l.pending_points))
    ls = ",".join(f"{rv(a)}:{rv(b)}:{rv(v)}" for (a, b), v in l.losses.items())
    lc = ",".join(f"{rv(a)}:{rv(b)}:{rv(v)}" for (a, b), v in l.losses_combined.items())
    return f"data={data} pending={pend} losses={ls} lossesC={lc} lossT={rv(l.loss(real=True))} lossF={rv(l.loss(real=False))}"


def execute(case, hook=None):
    """returns (lines, impl_outputs, learner).  `hook(event, learner, info)` for oracles."""
    rng = random.Random(case["seed"])
    lo, hi = case["bounds"]
    rec = Recorder(LOSSES[case["loss"]]())
    raw = make_fn(case["fn"], rng)

    def f(x):
        return raw(x, (2 * (x - lo) / (hi - lo)) - 1)
    l = adaptive.Learner1D(f, bounds=(lo, hi), loss_per_interval=rec)
    l._recompute_losses_factor = case["factor"]
    lines = [f"l1 new {fb(lo)} {fb(hi)} {fb(case['factor'])} {fb(l._dx_eps)} {rec.nth_neighbors}"]
    outs = ["ok " + obs(l)]
    outstanding = []
    stats = {}

    def emit(line, out):
        if rec.new:
            lines.append("l1 oracle " + ";".join(rec.new))
            outs.append("ok")
            rec.new = []
        lines.append(line)
        outs.append(out)

    def bounds_fixed():
        return all(b in l.data or b in l.pending_points for b in (lo, hi))

    for _ in range(case["nops"]):
        r = rng.random()
        known = list(l.data)
        info = {}
        if r < 0.28:
            n, c = rng.choice([0, 1, 1, 2, 3, 4, 7, 12]), rng.random() < 0.7
            pts, imps = l.ask(n, tell_pending=c)
            if c:
                outstanding += [p for p in pts if p not in outstanding]
            emit(f"l1 ask {n} {int(c)}", f"pts={','.join(rv(p) for p in pts)} imps={','.join(rv(i) for i in imps)} " + obs(l))
            info = {"op": "ask", "n": n, "commit": c, "pts": pts, "imps": imps}
        elif r < 0.62:
            if outstanding and rng.random() < 0.75:
                x = outstanding.pop(rng.randrange(len(outstanding)))
            else:
                x = rand_x(rng, lo, hi, known)
                stats["tell_unsuggested"] = stats.get("tell_unsuggested", 0) + 1
            y = f(x)
            l.tell(x, y)
            emit(f"l1 tell {fb(x)} {fval(y)}", "ok " + obs(l))
            info = {"op": "tell", "x": x}
        elif r < 0.68 and known:
            x = rng.choice(known)
            y = f(x) if rng.random() < 0.5 else f(x) + 1.0
            l.tell(x, y)
            emit(f"l1 tell {fb(x)} {fval(y)}", "ok " + obs(l))
            info = {"op": "retell", "x": x}
        elif r < 0.70 and outstanding:
            # a result the learner refuses (None / not a number): tell raises, the caller goes on - nothing may have changed
            x = outstanding[rng.randrange(len(outstanding))]
            try:
                l.tell(x, None if rng.random() < 0.5 else "failed")
                refused = False
            except (TypeError, ValueError):
                refused = True
            stats["refused_tell"] = stats.get("refused_tell", 0) + int(refused)
            if not refused:   # accepted: the model cannot follow, end the history here
                break
            info = {"op": "refused_tell", "x": x}
            if hook:
                hook(l, info)
            continue
        elif r < 0.78:
            x = rand_x(rng, lo, hi, known)
            l.tell_pending(x)
            if x not in l.data and x not in outstanding:
                outstanding.append(x)
            emit(f"l1 tell_pending {fb(x)}", "ok " + obs(l))
            info = {"op": "tell_pending", "x": x}
        elif r < 0.85:
            l.remove_unfinished()
            outstanding.clear()
            emit("l1 remove_unfinished", "ok " + obs(l))
            info = {"op": "remove"}
        else:
            k = rng.choice([1, 2, 3, 5, 9])
            xs = []
            for _ in range(k):
                if outstanding and rng.random() < 0.6:
                    xs.append(outstanding.pop(rng.randrange(len(outstanding))))
                else:
                    xs.append(rand_x(rng, lo, hi, known))
            xs = list(dict.fromkeys(x for x in xs if x not in l.data))  # fresh distinct points
            redo = None
            if known and rng.random() < 0.2:
                redo = rng.choice(known)  # an already known point with a different value: first value must win
                xs.append(redo)
            if not xs:
                continue
            force = rng.random() < 0.5
            batch = force or (len(xs) > 0.5 * len(l.data) and len(xs) > 2)
            if batch and not bounds_fixed() and not case.get("allow_unfixed_batch", False):
                force, batch = False, (len(xs) > 0.5 * len(l.data) and len(xs) > 2)
                if batch:
                    xs = xs[:2]
            ys = [f(x) + (1.0 if x == redo else 0.0) for x in xs]
            if (force or (len(xs) > 0.5 * len(l.data) and len(xs) > 2)) and not bounds_fixed():
                stats["batch_before_bounds_fixed"] = stats.get("batch_before_bounds_fixed", 0) + 1
            l.tell_many(xs, ys, force=force)
            emit(f"l1 tell_many {int(force)} " + ";".join(f"{fb(x)}:{fval(y)}" for x, y in zip(xs, ys)), "ok " + obs(l))
            info = {"op": "tell_many", "xs": xs, "batch": force or (len(xs) > 2)}
            stats["batch"] = stats.get("batch", 0) + int(bool(info["batch"]))
        if hook:
            hook(l, info)
    return lines, outs, l, stats
