"""Common machinery of the checks: lake build, axiom audit, model driver, verdict, evidence.

Every check is `harness/props/cXX.py` exposing `run(ctx)`; `./check Cxx --tier T`
creates the context and calls it.  See DESIGN.md sections 1, 3, 4.
"""
from __future__ import annotations

import fcntl
import hashlib
import json
import os
import random
import re
import subprocess
import sys
import time
from pathlib import Path

VERIF = Path(__file__).resolve().parent.parent
LEAN = VERIF / "lean"
REPO = Path(os.environ.get("VERIF_REPO", "/repo"))
OUT = VERIF / "out"  # run-time products (replays, scratch); git-ignored
ALLOWED_AXIOMS = {"propext", "Classical.choice", "Quot.sound"}
FORBIDDEN = re.compile(
    r"\b(sorry|admit|native_decide|bv_decide|implemented_by|unsafe)\b|^\s*axiom\s|maxHeartbeats\s+0\b"
)

if str(REPO) not in sys.path:
    sys.path.insert(0, str(REPO))


def _clean(out: str) -> str:
    return "\n".join(l for l in out.splitlines() if "conda.cli.condarc" not in l)


def sh(cmd, cwd=None, timeout=3600, inp=None):
    t0 = time.time()
    try:
        p = subprocess.run(
            cmd, cwd=cwd, input=inp, capture_output=True, text=True, timeout=timeout
        )
        return p.returncode, _clean(p.stdout), _clean(p.stderr), time.time() - t0
    except subprocess.TimeoutExpired as e:
        return 124, (e.stdout or b"").decode() if isinstance(e.stdout, bytes) else (e.stdout or ""), "timeout", time.time() - t0


class LakeLock:
    def __enter__(self):
        OUT.mkdir(exist_ok=True)
        self.f = open(OUT / ".lake.lock", "w")
        fcntl.flock(self.f, fcntl.LOCK_EX)
        return self

    def __exit__(self, *a):
        fcntl.flock(self.f, fcntl.LOCK_UN)
        self.f.close()


def lake_build(targets, timeout=3000):
    """Build lake targets (module names).  Returns (ok, log)."""
    with LakeLock():
        rc, out, err, dt = sh(["lake", "build", *targets], cwd=LEAN, timeout=timeout)
    log = out + "\n" + err
    return rc == 0, log


def strip_comments(text: str) -> str:
    # remove nested block comments and line comments of Lean
    res, depth, i, n = [], 0, 0, len(text)
    while i < n:
        if text.startswith("/-", i):
            depth += 1
            i += 2
        elif text.startswith("-/", i) and depth > 0:
            depth -= 1
            i += 2
        elif depth > 0:
            if text[i] == "\n":
                res.append("\n")
            i += 1
        elif text.startswith("--", i):
            while i < n and text[i] != "\n":
                i += 1
        else:
            res.append(text[i])
            i += 1
    return "".join(res)


def import_closure(modules):
    """source files of our own modules reachable from `modules` via `import`"""
    seen, todo = {}, list(modules)
    while todo:
        m = todo.pop()
        if m in seen or not (m.startswith("AdaptiveModel") or m.startswith("AdaptiveProofs")):
            continue
        f = LEAN / (m.replace(".", "/") + ".lean")
        if not f.exists():
            continue
        seen[m] = f
        for line in f.read_text().splitlines():
            mm = re.match(r"\s*import\s+([\w.]+)", line)
            if mm:
                todo.append(mm.group(1))
    return seen


def text_scan(modules):
    """Forbidden tokens (outside comments) in every source file the modules depend on."""
    hits = []
    for m, p in sorted(import_closure(modules).items()):
        body = strip_comments(p.read_text())
        for ln, line in enumerate(body.splitlines(), 1):
            if FORBIDDEN.search(line):
                hits.append(f"{p.relative_to(LEAN)}:{ln}: {line.strip()[:120]}")
    return hits


def audit(modules, timeout=1800):
    """`#print axioms`-equivalent for every theorem of the given Props modules.
    Returns dict name -> list of axioms, or None if the audit itself failed."""
    OUT.mkdir(exist_ok=True)
    src = "import AdaptiveProofs.AuditTool\n" + "".join(f"import {m}\n" for m in modules)
    src += "".join(f"#audit_module {m}\n" for m in modules)
    f = OUT / f"audit_{os.getpid()}.lean"
    f.write_text(src)
    try:
        rc, out, err, dt = sh(["lake", "env", "lean", str(f)], cwd=LEAN, timeout=timeout)
    finally:
        f.unlink(missing_ok=True)
    if rc != 0:
        return None, out + err
    res = {}
    for line in out.splitlines():
        if line.startswith("AUDIT "):
            name, _, axs = line[6:].partition("|")
            res[name.strip()] = axs.split()
    return res, out


class Proof:
    def __init__(self):
        self.build_ok = False
        self.log = ""
        self.theorems = {}
        self.bad = []  # theorems with disallowed axioms
        self.scan_hits = []
        self.modules = []
        self.broken = []  # human-readable names of what broke
        self.wall = 0.0

    @property
    def ok(self):
        return self.build_ok and not self.bad and not self.scan_hits and bool(self.theorems)


def prove(modules, extra_targets=(), leanchecker=False) -> Proof:
    """Build the Props modules, audit axioms, scan sources."""
    t0 = time.time()
    pr = Proof()
    pr.modules = list(modules)
    ok, log = lake_build(["AdaptiveProofs.AuditTool", *modules, *extra_targets])
    pr.build_ok, pr.log = ok, log
    if not ok:
        errs = [l for l in log.splitlines() if l.startswith("error:")]
        pr.broken = [f"lake build: {e[:300]}" for e in errs[:20]] or ["lake build failed"]
        pr.wall = time.time() - t0
        return pr
    pr.scan_hits = text_scan(modules)
    if pr.scan_hits:
        pr.broken += [f"forbidden token: {h}" for h in pr.scan_hits]
    thms, alog = audit(modules)
    if thms is None:
        pr.broken.append("axiom audit failed: " + alog[-500:])
        pr.wall = time.time() - t0
        return pr
    pr.theorems = thms
    for name, axs in thms.items():
        extra = [a for a in axs if a not in ALLOWED_AXIOMS]
        if extra:
            pr.bad.append((name, extra))
            pr.broken.append(f"theorem {name} depends on {extra}")
    if leanchecker and pr.ok:
        rc, out, err, dt = sh(["lake", "env", "leanchecker", *modules], cwd=LEAN, timeout=3000)
        pr.leanchecker = {"rc": rc, "wall_s": round(dt, 1), "tail": (out + err)[-300:]}
        if rc != 0:
            pr.broken.append("leanchecker rejected: " + (out + err)[-300:])
            pr.build_ok = False
    pr.wall = time.time() - t0
    return pr


def run_driver(lines, timeout=1800):
    """Pipe protocol lines to the Lean model driver; returns the output lines."""
    ok, log = lake_build(["AdaptiveModel"])
    if not ok:
        raise DriverError("model library does not build:\n" + log[-2000:])
    inp = "\n".join(lines) + "\n"
    rc, out, err, dt = sh(["lake", "env", "lean", "--run", "Driver.lean"], cwd=LEAN, timeout=timeout, inp=inp)
    if rc != 0:
        raise DriverError(f"driver exited {rc}: {err[-2000:]}")
    res = out.splitlines()
    if len(res) != len(lines):
        raise DriverError(f"driver returned {len(res)} lines for {len(lines)} inputs: {err[-500:]}")
    return res


class DriverError(Exception):
    pass


# ---------------------------------------------------------------- floats <-> bits
import struct


def f2b(x: float) -> int:
    return struct.unpack(">Q", struct.pack(">d", float(x)))[0]


def b2f(b: int) -> float:
    return struct.unpack(">d", struct.pack(">Q", int(b)))[0]


# ---------------------------------------------------------------- context
class Ctx:
    def __init__(self, prop_id, tier, seed, replay=None):
        self.prop_id = prop_id
        self.tier = tier
        self.seed = seed
        self.replay = replay
        self.rng = random.Random(f"{prop_id}-{seed}")
        self.t0 = time.time()
        self.thorough = tier == "thorough"

    def n(self, quick, thorough):
        return thorough if self.thorough else quick


class Corr:
    """Result of a correspondence run (model vs implementation)."""

    def __init__(self, name):
        self.name = name
        self.cases = 0
        self.ops = 0
        self.disagreements = []  # dicts with case, index, impl, model
        self.distribution = {}
        self.samples = []
        self.error = None  # infrastructure error text
        self.distinct = set()

    @property
    def ok(self):
        return not self.disagreements and self.error is None and self.cases > 0

    def count(self, key, k=1):
        self.distribution[key] = self.distribution.get(key, 0) + k


_BITS = re.compile(r"#(\d+)")
_SPLIT = re.compile(r"([ ,:;=()\[\]|])")


def canon_bits(line: str) -> str:
    """`#<64-bit pattern>` (model output) -> python float repr"""
    return _BITS.sub(lambda m: repr(b2f(int(m.group(1)))), line)


def float_cmp(a: str, b: str, rtol=1e-9, atol=1e-12):
    """token-wise comparison; tokens that are floats on both sides are compared with tolerance.
    Returns 'eq', 'drift' (only float tokens differ, within tolerance) or 'ne'."""
    if a == b:
        return "eq"
    ta, tb = _SPLIT.split(a), _SPLIT.split(b)
    if len(ta) != len(tb):
        return "ne"
    drift = False
    for x, y in zip(ta, tb):
        if x == y:
            continue
        try:
            fx, fy = float(x), float(y)
        except ValueError:
            return "ne"
        if fx == fy or (fx != fx and fy != fy):
            continue
        if abs(fx - fy) <= atol + rtol * max(abs(fx), abs(fy)):
            drift = True
            continue
        return "ne"
    return "drift" if drift else "eq"


def _driver_shards(cases, shards, timeout=3000):
    """run the cases through `shards` driver processes in parallel (cases are independent:
    every case starts with a `new` line); returns the concatenated output lines"""
    from concurrent.futures import ThreadPoolExecutor
    ok, log = lake_build(["AdaptiveModel"])
    if not ok:
        raise DriverError("model library does not build:\n" + log[-2000:])
    n = len(cases)
    shards = max(1, min(shards, n))
    bounds = [(n * k // shards, n * (k + 1) // shards) for k in range(shards)]

    def one(b):
        lines = [l for c in cases[b[0]:b[1]] for l in c["lines"]]
        if not lines:
            return []
        rc, out, err, dt = sh(["lake", "env", "lean", "--run", "Driver.lean"], cwd=LEAN, timeout=timeout,
                              inp="\n".join(lines) + "\n")
        if rc == 124:
            raise DriverError(f"model driver did not finish within {timeout} s (the model left the states it agrees with the code on)")
        if rc != 0:
            raise DriverError(f"driver exited {rc}: {err[-2000:]}")
        res = out.splitlines()
        if len(res) != len(lines):
            raise DriverError(f"driver returned {len(res)} lines for {len(lines)} inputs: {err[-500:]}")
        return res

    with ThreadPoolExecutor(shards) as ex:
        parts = list(ex.map(one, bounds))
    return [l for p in parts for l in p]


def lockstep(corr: Corr, cases, canon_model=None, cmp=None, shards=1, timeout=3000):
    """cases: list of dicts {'lines': [...], 'impl': [...], 'meta': …}.  Runs all lines of
    all cases through the driver and diffs line by line."""
    try:
        if shards > 1:
            outs = _driver_shards(cases, shards, timeout)
        else:
            outs = run_driver([l for c in cases for l in c["lines"]])
    except DriverError as e:
        corr.error = str(e)
        return corr
    pos = 0
    for ci, c in enumerate(cases):
        n = len(c["lines"])
        mo = outs[pos : pos + n]
        if canon_model:
            mo = [canon_model(x) for x in mo]
        pos += n
        corr.cases += 1
        corr.ops += n
        corr.distinct.add(hashlib.sha1("\n".join(c["lines"]).encode()).hexdigest())
        for k, (a, b) in enumerate(zip(c["impl"], mo)):
            if cmp is not None:
                r = cmp(a, b)
                if r == "drift":
                    corr.count("float_drift_within_tolerance")
                if r != "ne":
                    continue
            if a != b:
                if len(corr.disagreements) < 50:
                    corr.disagreements.append(
                        {"case": ci, "index": k, "line": c["lines"][k][:2000], "impl": a[:4000], "model": b[:4000],
                         "lines": (c["lines"][: k + 1] if sum(map(len, c["lines"][: k + 1])) < 200000 else None),
                         "meta": c.get("meta")}
                    )
                break
    return corr


CASE_TIMEOUT = int(os.environ.get("VERIF_CASE_TIMEOUT", "900"))


class CaseTimeout(Exception):
    """a generated case did not finish on the real code within CASE_TIMEOUT seconds (cases take seconds): the code under
    test does not terminate on that input - a failing input, reported by ./check as a violation with the case as replay"""

    def __init__(self, fn_name, items):
        super().__init__(f"{len(items)} case(s) of {fn_name} did not finish within {CASE_TIMEOUT} s")
        self.fn_name, self.items = fn_name, items


class _Alarm(Exception):
    pass


def _guarded(arg):
    import signal
    fn, x = arg

    def on_alarm(signum, frame):
        raise _Alarm()

    old = signal.signal(signal.SIGALRM, on_alarm)
    signal.alarm(CASE_TIMEOUT)
    try:
        return ("ok", fn(x))
    except _Alarm:
        return ("timeout", x)
    finally:
        signal.alarm(0)
        signal.signal(signal.SIGALRM, old)


def pmap(fn, items, procs=None):
    """process-parallel map (fork) for running the real code on many generated cases; every case runs under a watchdog"""
    import multiprocessing as mp
    procs = procs or min(16, os.cpu_count() or 1)
    args = [(fn, x) for x in items]
    if procs <= 1 or len(items) < 4:
        res = [_guarded(a) for a in args]
    else:
        ctx = mp.get_context("fork")
        with ctx.Pool(procs) as pool:
            res = pool.map(_guarded, args, chunksize=max(1, len(items) // (procs * 4)))
    late = [r[1] for r in res if r[0] == "timeout"]
    if late:
        raise CaseTimeout(getattr(fn, "__qualname__", str(fn)), late)
    return [r[1] for r in res]


# ---------------------------------------------------------------- known findings
def load_known(prop_id):
    p = VERIF / "known_findings.json"
    if not p.exists():
        return []
    data = json.loads(p.read_text())
    return [e for e in data.get("findings", []) if e.get("property") == prop_id]


def write_replay(prop_id, payload) -> Path:
    d = OUT / "replays" / prop_id
    d.mkdir(parents=True, exist_ok=True)
    blob = json.dumps(payload, indent=1, sort_keys=True, default=str)
    h = hashlib.sha1(blob.encode()).hexdigest()[:12]
    p = d / f"{h}.json"
    p.write_text(blob)
    return p


def conclude(ctx: Ctx, proof: Proof | None, corrs, failures, *, level="proof", rule="",
             samples=None, evaluations=0, distinct=0, explanation="", assumptions=(),
             trusted=(), extra=None, partial=()):
    """Verdict logic of DESIGN.md section 4.  `failures`: list of dicts with keys
    clause, signature, detail, replay (a JSON-able reproduction on the real code)."""
    prop = ctx.prop_id
    known = load_known(prop)
    printed = set()
    new = {}
    known_hit = {}
    for f in failures:
        sig = f["signature"]
        match = None
        for k in known:
            if k.get("status") == "finding" and k["signature"] == sig:
                match = k
                break
        if match:
            known_hit.setdefault(sig, match)
        else:
            new.setdefault(sig, f)
    for sig, k in known_hit.items():
        print(f"KNOWN-FINDING: property={prop} {k['text']}")
    violations = 0
    replays = []
    for sig, f in list(new.items())[:5]:
        p = write_replay(prop, {"property": prop, "kind": "failing-input", **f})
        print(f"VIOLATION property={prop} replay={p}")
        print(f"  clause={f['clause']} signature={sig}\n  {f['detail'][:400]}")
        replays.append(str(p))
        violations += 1
    corrs = list(corrs or [])
    broken = []
    if proof is not None and not proof.ok:
        broken += proof.broken or ["proof obligations not discharged"]
    for c in corrs:
        if not c.ok:
            if c.error:
                broken.append(f"correspondence {c.name}: infrastructure: {c.error[:300]}")
            for d in c.disagreements[:3]:
                broken.append(
                    f"correspondence {c.name}: case {d['case']} op {d['index']} `{d['line']}`: "
                    f"impl `{d['impl'][:200]}` model `{d['model'][:200]}`"
                )
    if not violations and broken:
        p = write_replay(prop, {
            "property": prop, "kind": "broken-proof-or-correspondence",
            "no_longer_checks": broken,
            "disagreements": [d for c in corrs for d in c.disagreements[:3]],
            "proof_log_tail": (proof.log[-3000:] if proof is not None and not proof.build_ok else ""),
        })
        print(f"VIOLATION property={prop} replay={p} no-failing-input-found")
        for b in broken[:6]:
            print("  " + b[:400])
        replays.append(str(p))
        violations += 1
    # ---------------- evidence
    cov = {
        "evaluations": int(evaluations),
        "distinct_nontrivial": int(distinct),
        "rule": rule,
        "samples": (samples or [])[:5],
        "explanation": explanation,
        "trusted_base": list(trusted),
        "correspondence": [
            {"name": c.name, "cases": c.cases, "ops": c.ops, "disagreements": len(c.disagreements),
             "distinct_cases": len(c.distinct), "distribution": c.distribution, "error": c.error}
            for c in corrs
        ],
        "traces_validated_against_impl": sum(c.cases for c in corrs),
        "known_findings_printed": sorted(known_hit),
        "partial_theorems": list(partial),
        "replays": replays,
    }
    if proof is not None:
        nob = len(proof.theorems)
        cov.update({
            "obligations": nob if nob else max(1, len(proof.broken)),
            "discharged": (nob - len(proof.bad)) if proof.ok or nob else 0,
            "checker_cmd": "cd lean && lake build " + " ".join(proof.modules)
                           + " && lake env lean <#audit_module of the same modules>",
            "theorems": {k: v for k, v in sorted(proof.theorems.items())},
            "proof_broken": proof.broken,
            "proof_wall_s": round(proof.wall, 1),
        })
        if not proof.build_ok:
            cov["discharged"] = 0
        if hasattr(proof, "leanchecker"):
            cov["leanchecker"] = proof.leanchecker
    if extra:
        cov.update(extra)
    ev = {
        "property_id": prop,
        "tier": ctx.tier,
        "seed": int(ctx.seed),
        "level": level,
        "coverage": cov,
        "assumptions": list(assumptions),
        "wall_s": round(time.time() - ctx.t0, 2),
        "violations": violations,
    }
    evdir = Path(os.environ.get("VERIF_EVIDENCE_DIR", VERIF / "evidence"))  # redirected only when trying seeded changes
    evdir.mkdir(exist_ok=True, parents=True)
    (evdir / f"{prop}.json").write_text(json.dumps(ev, indent=1, default=str) + "\n")
    print(f"[{prop}] tier={ctx.tier} seed={ctx.seed} proof_ok={proof.ok if proof else None} "
          f"corr_ok={[c.ok for c in corrs]} failures={len(failures)} known={len(known_hit)} "
          f"violations={violations} wall={ev['wall_s']}s")
    return 1 if violations else 0


COMMON_TRUSTED = [
    "Lean 4.33.0 kernel (leanchecker re-check in the thorough tier)",
    "axioms allowed: propext, Classical.choice, Quot.sound (audited per theorem on every run)",
    "harness/core.py verdict logic, the line-protocol driver glue (Driver.lean, AdaptiveModel/Drv/*)",
    "correspondence = differential testing of model vs /repo on generated histories (coverage in this file)",
]
