"""Deterministic driving of the real BlockingRunner / AsyncRunner under an explicit schedule.

No source hooks: `adaptive.runner.concurrent` / `adaptive.runner.asyncio` are replaced (inside
this process only) by namespaces whose `wait` completes exactly the futures the schedule names,
the executor hands out inert futures, the learner is wrapped in a recording proxy.
Produces, per run: the event lines for the Lean runner model, the real per-event call trace and
public runner state (canonical text), and a structured record for the python property oracles.
"""
from __future__ import annotations

import asyncio
import concurrent.futures as cf
import inspect
import types

import adaptive
import adaptive.runner as ar

REAL_CF = cf
REAL_ASYNCIO = asyncio


class EvalError(Exception):
    pass


# what a failing evaluation raises: the property speaks of evaluations that raise, whatever the exception class (a TimeoutError of
# the user's function is not a time-out of the executor; on Python >= 3.11 concurrent.futures.TimeoutError IS the builtin one)
class EvalTimeoutError(EvalError, TimeoutError):
    pass


class EvalValueError(EvalError, ValueError):
    pass


class EvalKeyError(EvalError, KeyError):
    pass


class EvalOSError(EvalError, OSError):
    pass


EXC = {"eval": EvalError, "timeout": EvalTimeoutError, "plain_timeout": TimeoutError, "value": EvalValueError, "key": EvalKeyError,
       "os": EvalOSError}
_exc_cls = EvalError


def set_exc(name):
    global _exc_cls
    _exc_cls = EXC[name or "eval"]


class NoPoints(BaseException):
    """the learner gave no points and nothing is in flight while the goal is unmet: the real
    BlockingRunner would spin and AsyncRunner would fail in asyncio.wait([]); outside the properties"""


def value_of(label: int) -> int:
    return (label * 37 + 11) % 101 - 50


class Labels:
    """points -> small integers, by value"""

    def __init__(self):
        self.d = {}
        self.pts = []

    def key(self, p):
        try:
            hash(p)
            return ("h", p)
        except TypeError:
            return ("r", repr(p))

    def __call__(self, p):
        k = self.key(p)
        if k not in self.d:
            self.d[k] = len(self.pts)
            self.pts.append(p)
        return self.d[k]


class Rec:
    """event lines + per-event real calls and summaries"""

    def __init__(self):
        self.events = []
        self.cur = None
        self.runner = None
        self.labels = Labels()
        self.flat = []  # all calls in order, structured (for the oracles)
        self.snaps = []  # structured snapshots at wait points

    def begin(self, line):
        self.flush()
        self.cur = {"line": line, "calls": []}

    def call(self, tok, rec=None):
        if self.cur is None:
            self.cur = {"line": "run ???", "calls": []}
        self.cur["calls"].append(tok)
        if rec is not None:
            self.flat.append(rec)

    def summary(self):
        r = self.runner
        if r is None:
            return "pending= retry= tb= failed="
        L = self.labels
        pend = ",".join(f"{getattr(f, 'idx', '?')}:{L(p)}" for f, p in r.pending_points)
        retry = ",".join(f"{L(p)}:{n}" for p, n in r.to_retry)
        tb = ",".join(str(L(p)) for p, _ in r.tracebacks)
        failed = ",".join(str(i) for i in sorted(r.failed))
        return f"pending={pend} retry={retry} tb={tb} failed={failed}"

    def flush(self):
        if self.cur is not None:
            self.cur["summary"] = self.summary()
            self.events.append(self.cur)
            self.cur = None

    def lines(self):
        return [e["line"] for e in self.events]

    def outs(self):
        return ["calls=" + ",".join(e["calls"]) + " " + e["summary"] for e in self.events]


class LearnerProxy:
    """records the calls the runner makes to the learner"""

    def __init__(self, learner, rec: Rec, ask_hook=None):
        object.__setattr__(self, "_l", learner)
        object.__setattr__(self, "_rec", rec)
        object.__setattr__(self, "_ask_hook", ask_hook)

    def __getattr__(self, name):
        return getattr(object.__getattribute__(self, "_l"), name)

    def __setattr__(self, name, v):
        setattr(self._l, name, v)

    def ask(self, n, tell_pending=True):
        pts, imps = self._l.ask(n, tell_pending)
        if self._ask_hook:
            pts, imps = self._ask_hook(n, pts, imps)
        labs = [self._rec.labels(p) for p in pts]
        self._rec.begin("run asked " + (",".join(map(str, labs)) or "-"))
        self._rec.call(f"ask:{n}:[{';'.join(map(str, labs))}]", ("ask", n, labs))
        return pts, imps

    def tell(self, x, y):
        self._rec.call(f"tell:{self._rec.labels(x)}:{y}", ("tell", self._rec.labels(x), y))
        return self._l.tell(x, y)

    def remove_unfinished(self):
        self._rec.call("remove", ("remove",))
        return self._l.remove_unfinished()


class InertFuture(cf.Future):
    def __init__(self, idx, rec, sched):
        super().__init__()
        self.idx = idx
        self._rec = rec
        self._sched = sched
        self.cancel_asked = False

    def __hash__(self):
        return self.idx

    def __eq__(self, o):
        return self is o

    def cancel(self):
        if not self.cancel_asked and self._rec.blocking:
            self._rec.call(f"cancel:{self.idx}", ("cancel", self.idx))
        self.cancel_asked = True
        if self.done():
            ok = super().cancel()
        elif self._rec.blocking and not self._sched.cancellable(self.idx):
            ok = False  # "running": cannot be cancelled, will complete
        else:
            ok = super().cancel()
        if ok:
            self._rec.flat.append(("cancel_ok", self.idx))
        return ok


class InertExecutor(cf.Executor):
    def __init__(self, rec, sched):
        self.rec = rec
        self.sched = sched
        self.futs = []
        self.args = []

    def submit(self, fn, *args, **kw):
        idx = len(self.futs)
        f = InertFuture(idx, self.rec, self.sched)
        self.futs.append(f)
        self.args.append(args[0] if args else None)
        lab = self.rec.labels(args[0])
        self.rec.call(f"submit:{idx}:{lab}", ("submit", idx, lab))
        return f

    def shutdown(self, wait=True, **kw):
        pass


class Schedule:
    """seeded decisions; every decision is recorded so a run replays from (seed, config)"""

    def __init__(self, rng, cfg):
        self.rng = rng
        self.cfg = cfg
        self.nwaits = 0
        self.attempts = {}

    def pick_done(self, idxs):
        """nonempty ordered subset of in-flight futures + outcome each"""
        r = self.rng
        k = 1 if r.random() < 0.55 else r.randint(1, len(idxs))
        chosen = r.sample(idxs, k)
        return chosen

    def outcome(self, label):
        a = self.attempts.get(label, 0)
        self.attempts[label] = a + 1
        if self.rng.random() < self.cfg["pfail"]:
            return "fail"
        return "ok"

    def cancel_now(self):
        self.nwaits += 1
        return (not self.cfg["blocking"]) and self.cfg.get("cancel_at") == self.nwaits

    def cancellable(self, idx):
        return self.rng.random() < self.cfg.get("pcancellable", 0.5)


def complete(fut, label, outcome):
    if outcome == "ok":
        fut.set_result(value_of(label))
    else:
        fut.set_exception(_exc_cls(f"boom at label {label}"))


def tok_done(items):
    return ",".join(f"{i}:ok:{value_of(l)}" if o == "ok" else f"{i}:fail" for i, l, o in items) or "-"


# ---------------------------------------------------------------- blocking
def run_blocking(make_learner, cfg, rng, ask_hook=None, sched=None):
    rec = Rec()
    rec.blocking = True
    sched = sched or Schedule(rng, cfg)
    ex = InertExecutor(rec, sched)
    learner = make_learner()
    proxy = LearnerProxy(learner, rec, ask_hook)
    state = {"iters": 0}

    def goal(l):
        b = bool(cfg["goal"](learner, state))
        state["iters"] += 1
        rec.begin(f"run goal {int(b)}")
        rec.call(f"goal:{int(b)}", ("goal", b))
        return b

    def wait(futures, timeout=None, return_when=cf.ALL_COMPLETED):
        futures = list(futures)
        if return_when == cf.FIRST_COMPLETED:
            rec.snaps.append({"inflight": len(futures), "at": len(rec.flat)})
            if not futures:
                raise NoPoints()
            early = [f for f in futures if f.done()]
            if early:
                # evaluations that finished right after the previous wait had returned: a real wait returns them at once
                items = [(f.idx, rec.labels(ex.args[f.idx]), "ok" if f.exception() is None else "fail") for f in early]
                rec.begin("run done " + tok_done(items))
                rec.flat.append(("done", items))
                return early, [f for f in futures if f not in early]
            chosen = sched.pick_done([f.idx for f in futures])
            items = []
            for i in chosen:
                lab = rec.labels(ex.args[i])
                o = sched.outcome(lab)
                complete(ex.futs[i], lab, o)
                items.append((i, lab, o))
            rec.begin("run done " + tok_done(items))
            rec.flat.append(("done", items))
            done = [ex.futs[i] for i in chosen]
            rest = [f for f in futures if f not in done]
            if rest and cfg.get("plate", 0.0) and sched.rng.random() < cfg["plate"]:
                # ... and one more evaluation finishes just after this wait has returned (it is done, but the runner has not seen
                # it: if the runner stops now, it is an outstanding evaluation that can be neither cancelled nor dropped)
                f = sched.rng.choice(rest)
                lab = rec.labels(ex.args[f.idx])
                complete(f, lab, sched.outcome(lab))
                rec.flat.append(("late", f.idx))
            return done, rest
        # exit: wait for everything that could not be cancelled
        for f in futures:
            if not f.done():
                lab = rec.labels(ex.args[f.idx])
                complete(f, lab, sched.outcome(lab))
        order = list({f for f in futures if not f.cancelled() and f.done()})  # same construction as the runner's
        items = [(f.idx, rec.labels(ex.args[f.idx]), "ok" if f.exception() is None else "fail") for f in order]
        rec.begin("run remaining " + tok_done(items))
        rec.flat.append(("remaining", items))
        return set(futures), set()

    ns = types.SimpleNamespace(**{k: getattr(cf, k) for k in dir(cf) if not k.startswith("__")})
    ns.wait = wait

    class Traced(ar.BlockingRunner):
        def _run(self):
            rec.runner = self
            return super()._run()

    saved = ar.concurrent
    ar.concurrent = ns
    err = None
    try:
        rec.begin(f"run new {cfg['ntasks']} {cfg['retries']} {int(cfg['raise_if'])} 1 {int(cfg['log'])}")
        try:
            Traced(proxy, goal=goal, executor=ex, ntasks=cfg["ntasks"], log=cfg["log"],
                   retries=cfg["retries"], raise_if_retries_exceeded=cfg["raise_if"])
        except RuntimeError as e:
            if "harness:" in str(e):
                raise
            err = e
    finally:
        ar.concurrent = saved
    rec.flush()
    status = "finished" if err is None else "failed"
    return finish(rec, learner, ex, status, err, cfg)


# ---------------------------------------------------------------- async
def run_async(make_learner, cfg, rng, ask_hook=None, coroutine=False, sched=None):
    rec = Rec()
    rec.blocking = False
    sched = sched or Schedule(rng, cfg)
    ex = InertExecutor(rec, sched)
    learner = make_learner()
    loop = asyncio.new_event_loop()
    inner = {}  # task -> (future, label) for coroutine functions
    state = {"iters": 0}
    coro_futs = []

    if coroutine:
        async def afn(x):
            fut = loop.create_future()
            inner[asyncio.current_task()] = fut
            return await fut
        learner.function = afn
    proxy = LearnerProxy(learner, rec, ask_hook)

    def goal(l):
        b = bool(cfg["goal"](learner, state))
        state["iters"] += 1
        rec.begin(f"run goal {int(b)}")
        rec.call(f"goal:{int(b)}", ("goal", b))
        return b

    async def wait(futures, timeout=None, return_when=asyncio.ALL_COMPLETED):
        futures = list(futures)
        if return_when == asyncio.FIRST_COMPLETED:
            rec.snaps.append({"inflight": len(futures), "at": len(rec.flat)})
            if not futures:
                raise NoPoints()
            await REAL_ASYNCIO.sleep(0)  # let freshly created tasks start
            if sched.cancel_now():
                rec.begin("run cancel")
                rec.flat.append(("cancel_event",))
                runner_box[0].cancel()
                await REAL_ASYNCIO.sleep(0)
                raise RuntimeError("harness: cancellation was not delivered")
            chosen = sched.pick_done([f.idx for f in futures])
            items = []
            byidx = {f.idx: f for f in futures}
            for i in chosen:
                lab = rec.labels(ex.args[i])
                o = sched.outcome(lab)
                if coroutine:
                    f = inner[byidx[i]]
                    if o == "ok":
                        f.set_result(value_of(lab))
                    else:
                        f.set_exception(_exc_cls(f"boom at label {lab}"))
                else:
                    complete(ex.futs[i], lab, o)
                items.append((i, lab, o))
            done = [byidx[i] for i in chosen]
            await REAL_ASYNCIO.wait(done)
            rec.begin("run done " + tok_done(items))
            rec.flat.append(("done", items))
            return done, [f for f in futures if f not in done]
        rec.begin("run remaining -")
        rec.flat.append(("remaining", []))
        if futures and cfg.get("double_cancel") and not state.get("second_cancel") and \
                any(c[0] == "cancel_event" for c in rec.flat):
            # a second cancel() while the runner is still waiting for the evaluations it could not cancel
            state["second_cancel"] = True
            rec.flat.append(("cancel_event2",))
            runner_box[0].cancel()
            await REAL_ASYNCIO.sleep(0)
        if futures:
            await REAL_ASYNCIO.wait(futures)
        return set(futures), set()

    ns = types.SimpleNamespace(**{k: getattr(asyncio, k) for k in dir(asyncio) if not k.startswith("__")})
    ns.wait = wait
    runner_box = [None]

    class Traced(ar.AsyncRunner):
        def _submit(self, x):
            if coroutine:
                idx = len(ex.futs)
                ex.futs.append(None)
                ex.args.append(x)
                lab = rec.labels(x)
                rec.call(f"submit:{idx}:{lab}", ("submit", idx, lab))
                fut = super()._submit(x)
            else:
                fut = super()._submit(x)
                idx = len(ex.futs) - 1
            fut.idx = idx
            orig = fut.cancel

            def cancel(*a, **k):
                if not getattr(fut, "cancel_asked", False):
                    rec.call(f"cancel:{idx}", ("cancel", idx))
                    fut.cancel_asked = True
                return orig(*a, **k)
            fut.cancel = cancel
            return fut

        async def _run(self):
            rec.runner = self
            return await super()._run()

    saved = ar.asyncio
    ar.asyncio = ns
    err = None
    status = None
    try:
        rec.begin(f"run new {cfg['ntasks']} {cfg['retries']} {int(cfg['raise_if'])} 0 {int(cfg['log'])}")
        kw = {} if coroutine else {"executor": ex}
        r = Traced(proxy, goal=goal, ntasks=cfg["ntasks"], log=cfg["log"], retries=cfg["retries"],
                   raise_if_retries_exceeded=cfg["raise_if"], ioloop=loop, **kw)
        runner_box[0] = r
        try:
            loop.run_until_complete(r.task)
        except asyncio.CancelledError:
            pass
        except RuntimeError as e:
            if "harness:" in str(e):
                raise
            err = e
        status = r.status()
    finally:
        ar.asyncio = saved
        try:
            loop.run_until_complete(loop.shutdown_asyncgens())
        finally:
            loop.close()
    rec.flush()
    return finish(rec, learner, ex, status, err, cfg)


def finish(rec, learner, ex, status, err, cfg):
    r = rec.runner
    L = rec.labels
    lines = rec.lines()
    outs = rec.outs()
    stat = status
    e = err
    if status == "failed" and e is None and r is not None and hasattr(r, "task"):
        e = r.task.exception()
    if status == "failed" and e is not None:
        named = [i for i, p in enumerate(L.pts) if f'"learner.function({p})"' in str(e).split("See the traceback")[0]]
        stat = "failed:" + (str(named[0]) if len(named) == 1 else "?")
        err = e
    lines.append("run status")
    log = ""
    if r is not None and r.log is not None:
        log = ",".join(f"ask:{e[1]}" if e[0] == "ask" else f"tell:{L(e[1])}:{e[2]}" for e in r.log)
    outs.append(f"status={stat} log={log}")
    return {"lines": lines, "impl": outs, "rec": rec, "learner": learner, "runner": r,
            "status": status, "err": err, "cfg": cfg, "executor": ex}
