"""Factories, history generators and canonical observations for all real learner types.

Shared by the checks that quantify over learner types (C09, C10, C13, C18 …).
"""
from __future__ import annotations

import math
import operator

import numpy as np

import adaptive
from adaptive.learner.learner1D import curvature_loss_function, triangle_loss, uniform_loss


def canon(o):
    """hashable, exactly comparable form of points / values / containers"""
    if isinstance(o, (bool, np.bool_)):
        return bool(o)
    if isinstance(o, (int, np.integer)):
        return int(o)
    if isinstance(o, (float, np.floating)):
        f = float(o)
        return "nan" if f != f else (f + 0.0).hex()  # -0.0 and 0.0 are the same dict key / set element
    if isinstance(o, np.ndarray):
        return tuple(canon(x) for x in o.tolist())
    if isinstance(o, (tuple, list)):
        return tuple(canon(x) for x in o)
    if isinstance(o, (set, frozenset)):
        return tuple(sorted((canon(x) for x in o), key=repr))
    if isinstance(o, dict):
        return tuple(sorted(((canon(k), canon(v)) for k, v in o.items()), key=repr))
    if o is None or isinstance(o, str):
        return o
    return repr(o)


def f1(x):
    return math.sin(3 * x) + 0.3 * x * x + (0.5 if x > 0.25 else 0.0)


def f1_vec(x):
    # components with different offsets and ranges: the largest per-component range (2) differs from the range over all
    # components together (about 13)
    return np.array([math.sin(3 * x), 10.0 + x * x, (1.0 if x > 0.1 else -1.0) - 2.0])


def f2(xy):
    x, y = xy
    return math.exp(-(x * x + y * y) * 3) + 0.2 * x


def f3(xyz):
    x, y, z = xyz
    return x * y + math.sin(2 * z)


def fseed(seed):
    return ((seed * 2654435761) % 1000) / 1000.0 - 0.5


def fseedx(seed_x):
    seed, x = seed_x
    return math.sin(2 * x) + (((seed * 2654435761 + 12345) % 1000) / 1000.0 - 0.5) * 0.3


def finteg(x):
    return math.exp(-30 * x * x) + (0.0 if x < 0.3 else 0.2)


SEQ = list(range(100, 112))


class Kind:
    def __init__(self, name, make, fn, rand_point=None, supports_foreign=True, discard=True):
        self.name, self.make, self.fn, self.rand_point = name, make, fn, rand_point
        self.supports_foreign = supports_foreign
        self.discard = discard


def _rp1(rng):
    return rng.choice([rng.uniform(-1, 1), round(rng.uniform(-1, 1), 1), -1.0, 1.0, 0.0])


def _rp2(rng):
    return (rng.choice([rng.uniform(-1, 1), round(rng.uniform(-1, 1), 1)]),
            rng.choice([rng.uniform(-1, 1), round(rng.uniform(-1, 1), 1)]))


def _rp3(rng):
    return tuple(round(rng.uniform(-1, 1), 2) for _ in range(3))


def _rp2b(rng):
    return (rng.choice([rng.uniform(0.2, 1.3), round(rng.uniform(0.2, 1.3), 1)]),
            rng.choice([rng.uniform(-0.7, 0.4), round(rng.uniform(-0.7, 0.4), 1)]))


def _rp4(rng):
    return tuple(round(rng.uniform(-1, 1), 2) for _ in range(4))


def f4(p):
    return math.exp(-sum(x * x for x in p)) + 0.1 * p[0]


def _nd_curvature():
    from adaptive.learner.learnerND import curvature_loss_function as nd_curv
    return nd_curv()


KINDS = {
    "l1d": Kind("l1d", lambda: adaptive.Learner1D(f1, bounds=(-1.0, 1.0)), f1, _rp1),
    "l1d_curv": Kind("l1d_curv", lambda: adaptive.Learner1D(f1, bounds=(-1.0, 1.0), loss_per_interval=curvature_loss_function()), f1, _rp1),
    "l1d_tri": Kind("l1d_tri", lambda: adaptive.Learner1D(f1, bounds=(-1.0, 1.0), loss_per_interval=triangle_loss), f1, _rp1),
    "l1d_uni": Kind("l1d_uni", lambda: adaptive.Learner1D(f1, bounds=(-1.0, 1.0), loss_per_interval=uniform_loss), f1, _rp1),
    "l1d_vec": Kind("l1d_vec", lambda: adaptive.Learner1D(f1_vec, bounds=(-1.0, 1.0)), f1_vec, _rp1),
    "lnd2": Kind("lnd2", lambda: adaptive.LearnerND(f2, bounds=[(-1.0, 1.0), (-1.0, 1.0)]), f2, _rp2),
    "lnd3": Kind("lnd3", lambda: adaptive.LearnerND(f3, bounds=[(-1.0, 1.0)] * 3), f3, _rp3),
    # (bounds that are not symmetric about the origin: mid points and un-scaling are not exact there)
    "l2d": Kind("l2d", lambda: adaptive.Learner2D(f2, bounds=[(0.2, 1.3), (-0.7, 0.4)]), f2, _rp2b),
    "lnd4": Kind("lnd4", lambda: adaptive.LearnerND(f4, bounds=[(-1.0, 1.0)] * 4), f4, _rp4),
    "lnd2_curv": Kind("lnd2_curv", lambda: adaptive.LearnerND(f2, bounds=[(-1.0, 1.0), (-1.0, 1.0)],
                                                              loss_per_simplex=_nd_curvature()), f2, _rp2),
    "avg": Kind("avg", lambda: adaptive.AverageLearner(fseed, atol=0.01, rtol=0.05), fseed, lambda rng: rng.randrange(0, 40)),
    "avg1d": Kind("avg1d", lambda: adaptive.AverageLearner1D(fseedx, bounds=(-1.0, 1.0), min_samples=3, max_samples=12),
                  fseedx, lambda rng: (rng.randrange(0, 8), round(rng.uniform(-1, 1), 1))),
    "seq": Kind("seq", lambda: adaptive.SequenceLearner(operator.neg, SEQ), lambda p: -p[1],
                lambda rng: (lambda i: (i, SEQ[i]))(rng.randrange(len(SEQ)))),
    "integ": Kind("integ", lambda: adaptive.IntegratorLearner(finteg, bounds=(-1.0, 1.0), tol=1e-6), finteg, None,
                  supports_foreign=False, discard=False),
}
BASE_KINDS = list(KINDS)


def wrap_kind(kind: Kind, wrapper: str) -> Kind:
    if wrapper == "ds":
        pick = operator.itemgetter("y")
        mk = lambda: adaptive.DataSaver(kind.make(), arg_picker=pick)
        k = Kind("ds:" + kind.name, mk, lambda p: {"y": kind.fn(p), "extra": canon(p)}, kind.rand_point,
                 kind.supports_foreign, kind.discard)
        k.pick = pick
        k.inner = kind
        return k
    raise ValueError(wrapper)


def loss_of(l, real):
    try:
        return canon(l.loss(real=real))
    except Exception as e:
        return "exc:" + type(e).__name__


def data_of(l):
    d = l.data
    return canon(dict(d))


def observe(l):
    """public observables shared by every learner"""
    return {
        "data": data_of(l),
        "pending": canon(set(canon(p) for p in l.pending_points)),
        "npoints": int(l.npoints),
        "lossT": loss_of(l, True),
        "lossF": loss_of(l, False),
    }


def gen_ops(rng, kind: Kind, nops):
    """kind-independent description of a history; resolved against the live learner"""
    ops = []
    for _ in range(nops):
        r = rng.random()
        if r < 0.30:
            ops.append(("ask", rng.choice([0, 1, 1, 2, 3, 5, 8]), True))
        elif r < 0.40:
            ops.append(("ask", rng.choice([0, 1, 2, 4, 7]), False))
        elif r < 0.75:
            ops.append(("tell_asked", rng.randrange(1 << 30)))
        elif r < 0.82 and kind.supports_foreign:
            ops.append(("tell_new", rng.randrange(1 << 30)))
        elif r < 0.87:
            ops.append(("retell", rng.randrange(1 << 30), rng.random() < 0.5))
        elif r < 0.92 and kind.supports_foreign:
            ops.append(("tell_pending", rng.randrange(1 << 30)))
        elif r < 0.96:
            ops.append(("remove",))
        else:
            ops.append(("tell_many_asked", rng.randrange(1 << 30), rng.choice([2, 3, 5])))
    return ops
