"""Real AverageLearner1D histories in lock-step with lean/AdaptiveModel/Avg1DFull.lean (prefix `a1f`).

Recorded oracles handed to the model before every operation:
  * the loss function (wrapped `loss_per_interval`, as in harness/l1d_drive.py);
  * scipy.stats.t.ppf(1 - alpha, df) per df;
  * corrections of `sqrt` / `hypot`: the model evaluates Float.sqrt(v) and Float.sqrt(a*a+b*b); where
    the code's `(sum(...)/(n-1)/n) ** 0.5` (python's compensated sum, pow) or `math.hypot` returned a
    different double, the code's value is sent for exactly that argument, after checking it is within
    1e-9 relative of the model's (this is the only place a tolerance enters; everything else is compared
    bit for bit).
`np.mean(ys)` is a left fold for fewer than 8 values; larger batches are cut until numpy's pairwise
sum and the model's left fold agree bit for bit (the generator's choice, counted in the statistics).
"""
from __future__ import annotations

import math
import random

import numpy as np
import scipy.stats

import adaptive
from adaptive.learner import average_learner1D as a1mod
from adaptive.learner import learner1D as l1
from harness.core import f2b
from harness.l1d_drive import Recorder, fb, rv

BOUNDS = [(-1.0, 1.0), (0.0, 1e-3), (1000.0, 1007.0), (0.0, 1.0)]
LOSSES = {
    "default": lambda: l1.default_loss,
    "uniform": lambda: l1.uniform_loss,
    "triangle": lambda: l1.triangle_loss,
    "curvature": lambda: l1.curvature_loss_function(),
    # grows when the y-scale grows: the re-computation loop over the live container then revisits / skips entries
    "inverse": lambda: (lambda xs, ys: (xs[1] - xs[0]) / (1e-3 + abs(ys[1] - ys[0]))),
}


class Oracles:
    """everything the model cannot compute: recorded while the real code runs"""

    def __init__(self, alpha):
        self.alpha = alpha
        self.tq_new, self.sq_new, self.hy_new = {}, {}, {}
        self.sq_all, self.tq_all = {}, {}
        self.collision = False
        self.tolerance_fail = None
        self.n_sqrt = self.n_sqrt_corr = self.n_hypot = self.n_hypot_corr = 0
        self.real_ppf = scipy.stats.t.ppf
        self.last_t = None

    def ppf(self, q, df, *a, **k):
        v = self.real_ppf(q, df, *a, **k)
        self.last_t = (int(df), float(v))
        return v

    def hypot(self, a, b):
        v = math.hypot(a, b)
        a, b = float(a), float(b)
        model = math.sqrt(a * a + b * b)
        self.n_hypot += 1
        if f2b(model) != f2b(v):
            self.n_hypot_corr += 1
            if not abs(model - v) <= 1e-9 * max(abs(model), abs(v)):
                self.tolerance_fail = f"hypot({a!r},{b!r}) = {v!r}, sqrt(a*a+b*b) = {model!r}"
            self.hy_new[(f2b(a), f2b(b))] = float(v)
        return v

    def wrap_calc(self, learner):
        orig = learner._calc_error_in_mean

        def calc(ys, y_avg, n):
            ys = list(ys)
            e = orig(ys, y_avg, n)
            df, t = self.last_t
            # the code's own intermediate values (same expressions, same types => same doubles)
            var = sum((y - y_avg) ** 2 for y in ys) / (n - 1)
            s_py = float((var / n) ** 0.5)
            if f2b(float(t * s_py)) != f2b(float(e)) or df != n - 1:
                raise RuntimeError("harness: cannot reproduce _calc_error_in_mean")
            # the model's argument of sqrt: left fold, IEEE + - * /
            m = float(y_avg)
            acc = 0.0
            for y in ys:
                acc = acc + (float(y) - m) * (float(y) - m)
            v = acc / float(n - 1) / float(n)
            model = math.sqrt(v)
            self.n_sqrt += 1
            kv = f2b(v)
            if self.sq_all.setdefault(kv, s_py) != s_py:
                self.collision = True
            if self.tq_all.setdefault(df, t) != t:
                self.collision = True
            self.tq_new[df] = t
            if f2b(model) != f2b(s_py):
                self.n_sqrt_corr += 1
                if not abs(model - s_py) <= 1e-9 * max(abs(model), abs(s_py)):
                    self.tolerance_fail = f"sqrt: code {s_py!r} vs model {model!r} for ys={ys} mean={m!r}"
                self.sq_new[kv] = s_py
            return e

        learner._calc_error_in_mean = calc

    def flush(self, rec):
        """the `oracle` line for everything recorded since the last flush (None if nothing)"""
        if not (rec.new or self.tq_new or self.sq_new or self.hy_new or self.sq_all):
            return None
        line = "a1f oracle " + " ".join([
            ";".join(rec.new) or "-",
            ",".join(f"{k}={fb(v)}" for k, v in self.tq_new.items()) or "-",
            ",".join(f"{k}={fb(v)}" for k, v in self.sq_new.items()) or "-",
            ",".join(f"{a}/{b}={fb(v)}" for (a, b), v in self.hy_new.items()) or "-",
        ])
        rec.new = []
        self.tq_new, self.sq_new, self.hy_new = {}, {}, {}
        self.sq_all = {}     # the model's sqrt corrections are replaced by every oracle line: a clash needs ONE operation
        return line


def watch_live_loop(l, stats):
    """statistics only: how often the re-computation loop over the LIVE `losses` container visits an
    entry twice (and therefore skips another one)"""
    base = type(l.losses)

    class Watched(base):
        def __reversed__(self):
            seen = set()
            stats["rescale_loops"] = stats.get("rescale_loops", 0) + 1
            for iv in base.__reversed__(self):
                if iv in seen:
                    stats["rescale_loop_revisits"] = stats.get("rescale_loop_revisits", 0) + 1
                seen.add(iv)
                yield iv

    l.losses.__class__ = Watched


def obs(l):
    data = ",".join(f"{rv(x)}:{rv(y)}" for x, y in l.data.items())
    xs = sorted(l._data_samples)
    err = ",".join(f"{rv(x)}:{rv(l.error[x])}" for x in xs)
    resc = ",".join(f"{rv(x)}:{rv(v)}" for x, v in l.rescaled_error.items())
    ns = ",".join(f"{rv(x)}:{int(n)}" for x, n in l._number_samples.items())
    smp = ",".join(f"{rv(x)}:" + ";".join(f"{int(s)}~{rv(y)}" for s, y in l._data_samples[x].items()) for x in xs)
    under = ",".join(rv(x) for x in sorted(l._undersampled_points))
    pend = ",".join(f"{int(s)}@{rv(x)}" for s, x in sorted(l.pending_points))
    ls = ",".join(f"{rv(a)}:{rv(b)}:{rv(v)}" for (a, b), v in l.losses.items())
    lc = ",".join(f"{rv(a)}:{rv(b)}:{rv(v)}" for (a, b), v in l.losses_combined.items())
    return (f"data={data} err={err} resc={resc} ns={ns} smp={smp} under={under} pend={pend} "
            f"losses={ls} lossesC={lc} lossT={rv(l.loss(real=True))} lossF={rv(l.loss(real=False))}")


def gen_case(rng, nops):
    return {
        "seed": rng.randrange(1 << 30), "nops": nops,
        "bounds": rng.choice(BOUNDS), "loss": rng.choice(list(LOSSES)),
        "delta": rng.choice([0.05, 0.2, 0.2, 0.5, 1.0]),
        "alpha": rng.choice([0.005, 0.005, 0.05, 0.2]),
        "neighbor_sampling": rng.choice([0.3, 0.3, 0.5, 1.0]),
        "min_samples": rng.choice([1, 2, 2, 3, 4, 6]),
        "max_samples": rng.choice([6, 10, 25, 10 ** 6]),
        "min_error": rng.choice([0.0, 0.0, 0.0, 0.01, 0.2]),
        "fn": rng.choice(["smooth", "step", "peak", "const"]),
        "noise": rng.choice(["none", "gauss", "gauss", "hetero", "dyadic", "big"]),
        "factor": rng.choice([2, 2, 1]),
        "style": rng.choice(["driven", "driven", "runner", "mixed", "tells"]),
    }


def make_value(case, rng):
    lo, hi = case["bounds"]
    a, b = rng.uniform(0.5, 3), rng.uniform(-1, 1)
    fk, nk = case["fn"], case["noise"]

    def g(u):
        if fk == "smooth":
            return math.sin(a * u) + b * u
        if fk == "step":
            return (1.0 if u > b * 0.5 else -0.5) + 0.1 * u
        if fk == "peak":
            return 1.0 / (0.05 + (u - b) ** 2)
        return 0.75

    def value(x):
        u = 2 * (x - lo) / (hi - lo) - 1
        y = g(u)
        if nk == "none":
            return y
        if nk == "gauss":
            return y + rng.gauss(0, 0.1)
        if nk == "hetero":
            return y + rng.gauss(0, 0.02 + 0.5 * abs(u))
        if nk == "big":
            return y + rng.gauss(0, 3.0) * (10.0 if rng.random() < 0.05 else 1.0)
        if nk == "dyadic":       # multiples of 1/64: sums are exact, equal errors (ties) happen
            return round(y * 8) / 8 + rng.randrange(-8, 9) / 64.0
        raise ValueError(nk)
    return value


def naive_mean(ys):
    acc = 0.0
    for y in ys:
        acc = acc + float(y)
    return acc / float(len(ys))


def cut_batch(l, x, items, stats):
    """items: list of (seed, y) for abscissa x (distinct seeds).  Cut until np.mean of what
    tell_many_at_point averages equals the model's left fold bit for bit (always the case below 8 values,
    signed zeros aside)."""
    items = list(items)
    while items:
        ys = [y for _, y in (items[1:] if x not in l.data else items)]
        if not ys or f2b(float(np.mean(np.array(ys)))) == f2b(naive_mean(ys)):
            return items
        stats["batch_cut_for_pairwise_sum"] = stats.get("batch_cut_for_pairwise_sum", 0) + 1
        items.pop()
    return items


def execute(case, hook=None):
    """returns dict(lines, impl, stats, skipped, fails).  `hook(learner, info)` after every op (oracles)."""
    rng = random.Random(case["seed"])
    lo, hi = case["bounds"]
    rec = Recorder(LOSSES[case["loss"]]())
    orc = Oracles(case["alpha"])
    value = make_value(case, rng)
    stats = {}
    saved_ppf, saved_hypot = scipy.stats.t.ppf, a1mod.hypot
    scipy.stats.t.ppf = orc.ppf
    a1mod.hypot = orc.hypot
    try:
        l = adaptive.AverageLearner1D(
            lambda sx: 0.0, bounds=(lo, hi), loss_per_interval=rec, delta=case["delta"], alpha=case["alpha"],
            neighbor_sampling=case["neighbor_sampling"], min_samples=case["min_samples"],
            max_samples=case["max_samples"], min_error=case["min_error"])
        l._recompute_losses_factor = case["factor"]
        orc.wrap_calc(l)
        watch_live_loop(l, stats)
        branch = []
        more, newp = l._ask_for_more_samples, l._ask_for_new_point

        def more_w(x, n):
            branch.append("under" if len(l._undersampled_points) else "resample")
            return more(x, n)

        def newp_w(n):
            branch.append("new")
            return newp(n)
        l._ask_for_more_samples, l._ask_for_new_point = more_w, newp_w

        lines = [f"a1f new {fb(lo)} {fb(hi)} {fb(case['factor'])} {fb(l._dx_eps)} {rec.nth_neighbors} {fb(case['delta'])} "
                 f"{fb(case['min_error'])} {case['min_samples']} {case['max_samples']} {fb(case['neighbor_sampling'])}"]
        outs = ["ok " + obs(l)]

        def emit(line, out):
            o = orc.flush(rec)
            if o:
                lines.append(o)
                outs.append("ok")
            lines.append(line)
            outs.append(out)

        grid = [lo + (hi - lo) * k / 16.0 for k in range(17)]
        outstanding = []
        style = case["style"]
        # "driven": only what the learner asked for is told (out of order, singly or batched): the learner's own
        # dynamics reach the re-sampling and new-point branches of ask
        p_ask = {"driven": 0.34, "runner": 0.34, "mixed": 0.25, "tells": 0.12}[style]
        p_follow = {"driven": 1.0, "runner": 0.9, "mixed": 0.6, "tells": 0.3}[style]

        def pick_point():
            """a (seed, x) to tell: mostly what the learner asked for, out of order"""
            if outstanding and rng.random() < p_follow:
                return outstanding.pop(rng.randrange(len(outstanding)))
            stats["tell_unsuggested"] = stats.get("tell_unsuggested", 0) + 1
            x = rng.choice(grid) if rng.random() < 0.7 else rng.uniform(lo, hi)
            if l.data and rng.random() < 0.5:
                x = rng.choice(list(l.data))
            return (rng.randrange(0, 12), x)

        for _ in range(case["nops"]):
            r = rng.random()
            info = {}
            if style == "driven" and not outstanding:
                r = 0.0
            elif style == "driven" and p_ask + 0.38 <= r < p_ask + 0.53:
                r = p_ask + 0.1        # no re-tells, foreign pending marks or discards: plain tells instead
            if r < p_ask:
                n, c = rng.choice([1, 1, 2, 3, 5]), rng.random() < 0.8
                under_before = set(l._undersampled_points)
                state_before = {"under": under_before, "ndata": len(l.data),
                                "resc": list(l.rescaled_error.items()), "ns": dict(l._number_samples),
                                "data": dict(l.data)}
                del branch[:]
                pts, imps = l.ask(n, tell_pending=c)
                br = branch[0]
                stats["branch:" + br] = stats.get("branch:" + br, 0) + 1
                if c:
                    outstanding += [p for p in pts if p not in outstanding]
                choice = fb(pts[0][1]) if br == "under" else "-"
                emit(f"a1f ask {n} {int(c)} {choice}",
                     f"branch={br} pts={','.join(f'{int(s)}@{rv(x)}' for s, x in pts)} imps={','.join(rv(i) for i in imps)} " + obs(l))
                info = {"op": "ask", "n": n, "pts": pts, "branch": br, "before": state_before}
            elif r < p_ask + 0.38:
                seed, x = pick_point()
                y = value(x)
                l.tell((seed, x), y)
                emit(f"a1f tell {seed} {fb(x)} {fb(y)}", "ok " + obs(l))
                info = {"op": "tell", "told": [((seed, x), y)]}
            elif r < p_ask + 0.43 and l.data:
                x = rng.choice(list(l.data))          # a sample that already has a value, other value: ignored
                seed = rng.choice(list(l._data_samples[x]))
                y = value(x) + 1.0
                l.tell((seed, x), y)
                emit(f"a1f tell {seed} {fb(x)} {fb(y)}", "ok " + obs(l))
                info = {"op": "retell", "told": []}
            elif r < p_ask + 0.49:
                seed, x = rng.randrange(0, 12), (rng.choice(grid) if rng.random() < 0.6 or not l.data else rng.choice(list(l.data)))
                l.tell_pending((seed, x))
                if (seed, x) not in outstanding and not (x in l._data_samples and seed in l._data_samples[x]):
                    outstanding.append((seed, x))
                emit(f"a1f tell_pending {seed} {fb(x)}", "ok " + obs(l))
                info = {"op": "tell_pending"}
            elif r < p_ask + 0.53:
                l.remove_unfinished()
                outstanding.clear()
                emit("a1f remove_unfinished", "ok " + obs(l))
                info = {"op": "remove"}
            elif r < p_ask + 0.60:
                # tell_many_at_point with fresh seeds
                x = rng.choice(list(l.data)) if l.data and rng.random() < 0.6 else rng.choice(grid)
                if style == "driven":
                    x = rng.choice(outstanding)[1]
                have = set(l._data_samples.get(x, {}))
                mine = [p for p in outstanding if p[1] == x and p[0] not in have]
                k = rng.choice([2, 3, 5, 9, 14])
                seeds = [s for s, _ in mine][:k]
                fresh = [s for s in range(60) if s not in have and s not in seeds]
                if style != "driven":
                    seeds += rng.sample(fresh, min(len(fresh), max(0, k - len(seeds))))
                if not seeds:
                    continue
                items = cut_batch(l, x, [(s, value(x)) for s in seeds], stats)
                if not items:
                    continue
                for s, _ in items:
                    if (s, x) in outstanding:
                        outstanding.remove((s, x))
                l.tell_many_at_point(x, dict(items))
                emit(f"a1f tell_many_at {fb(x)} {','.join(str(s) for s, _ in items)} {','.join(fb(y) for _, y in items)}",
                     "ok " + obs(l))
                info = {"op": "tell_many_at", "told": [((s, x), y) for s, y in items]}
            else:
                # tell_many: several abscissae, one or several samples each, interleaved
                k = rng.choice([1, 2, 3, 5, 8])
                pts = []
                for _ in range(k):
                    if style == "driven" and not outstanding:
                        break
                    p = pick_point()
                    if rng.random() < 0.4 and style != "driven":
                        pts += [(s, p[1]) for s in rng.sample(range(12, 40), rng.choice([1, 2, 3]))]
                    pts.append(p)
                # distinct (seed, x), none with a value yet (batches double count otherwise: outside the property)
                pts = [p for p in dict.fromkeys(pts) if not (p[1] in l._data_samples and p[0] in l._data_samples[p[1]])]
                rng.shuffle(pts)
                per_x = {}
                for s, x in pts:
                    per_x.setdefault(x, []).append((s, value(x)))
                flat = []
                for x, items in per_x.items():
                    flat += [((s, x), y) for s, y in (cut_batch(l, x, items, stats) if len(items) > 1 else items)]
                if not flat:
                    continue
                order = {p: i for i, p in enumerate(pts)}
                flat.sort(key=lambda t: order[t[0]])
                for p, _ in flat:
                    if p in outstanding:
                        outstanding.remove(p)
                l.tell_many([p for p, _ in flat], [y for _, y in flat])
                emit("a1f tell_many " + ";".join(f"{s}:{fb(x)}:{fb(y)}" for (s, x), y in flat), "ok " + obs(l))
                info = {"op": "tell_many", "told": flat}
            stats["op:" + info.get("op", "?")] = stats.get("op:" + info.get("op", "?"), 0) + 1
            if hook:
                hook(l, info)
        stats["sqrt_calls"], stats["sqrt_corrections"] = orc.n_sqrt, orc.n_sqrt_corr
        stats["hypot_calls"], stats["hypot_corrections"] = orc.n_hypot, orc.n_hypot_corr
        stats["rescaled_error_popped_states"] = int(len(l.rescaled_error) < len(l.data))
        return {"lines": lines, "impl": outs, "stats": stats, "learner": l,
                "skipped": "oracle_key_collision" if orc.collision else None,
                "tolerance_fail": orc.tolerance_fail}
    finally:
        scipy.stats.t.ppf, a1mod.hypot = saved_ppf, saved_hypot
