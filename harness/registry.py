"""Which properties are claimed, at which level (source of MANIFEST.json)."""
T = "Lean 4 theorem over a model + lock-step correspondence with /repo"
CHECKS = {
    "C17": {
        "level": "proof",
        "text": "Kernel-checked theorems over all op lists for the SequenceLearner model (partition invariant, ask order, "
                "no repeat between discards, done/loss/result); model tied to the real class by lock-step correspondence "
                "on seeded and exhaustive-small histories; python oracle of the statement finds replays.",
        "design_ref": "DESIGN.md section 6 C17",
        "note": "Trusted: Lean kernel, axioms propext/Classical.choice/Quot.sound, hand model Seq.lean tied by differential "
                "testing, sortedcontainers ordering. Tells carry index < len(sequence).",
        "technique": T,
    },
}
CHECKS["C14"] = {
    "level": "proof",
    "text": "Kernel-checked theorems for every assignment of success/OSError/process-death to the file-system "
            "primitives of utils.save (destination in {old,new}, result semantics, loadability, missing/empty load is a no-op); "
            "the real save is run under every enumerated fault (OSError injection, real os._exit in a forked child) and "
            "compared with the model primitive by primitive.",
    "design_ref": "DESIGN.md section 6 C14",
    "note": "Trusted: Lean kernel, standard axioms, hand model SaveFs.lean tied by exhaustive fault enumeration; POSIX rename "
            "atomicity, cloudpickle/gzip round trip, os.path.exists never raises.",
    "technique": T,
}
CHECKS["C18"] = {
    "level": "proof",
    "text": "Kernel-checked theorems, generic over every wrapped learner model, every picker and every op list: the wrapped "
            "learner's state equals the child's run on picked values, asks return the same points, extra_data holds the last "
            "full result of exactly the told points and survives _get_data/_set_data. Tie: lock-step DataSaver(SequenceLearner); "
            "search: twin runs for all wrapped real learner types incl. save/load, pickle, copy_from.",
    "design_ref": "DESIGN.md section 6 C18",
    "note": "Trusted: Lean kernel, standard axioms, hand model DataSaver.lean tied by differential testing; cloudpickle round trip. "
            "Batched tells through the wrapper are outside the property's quantifier (see DESIGN.md).",
    "technique": T,
}
_RUNNER_NOTE = ("Trusted: Lean kernel, standard axioms, hand model Runner.lean tied by call-by-call differential testing under "
                "deterministic schedules (shims for concurrent.futures.wait / asyncio.wait, inert futures); real executors' "
                "thread/process behaviour and asyncio internals are not modelled; exceptions raised by learner/goal out of scope.")
CHECKS["C05"] = {
    "level": "proof",
    "text": "Kernel-checked theorems over every configuration and every event list (all learners, goals, completion orders, "
            "cancellation points): legal tells, in-flight bound and refill, clean exit. Real Blocking/Async runners (executor and "
            "coroutine functions) are driven by seeded and exhaustive-small schedules and compared with the model call by call. Search also on "
            "real runtimes, deterministic: AsyncRunner with coroutine functions on a real event loop (nothing it started still runs when it stops; a "
            "cancellation that coincides with a completion stops it) and with a real ThreadPoolExecutor that has fewer workers than ntasks (no "
            "queued evaluation starts after the learner was told to discard its unfinished points).",
    "design_ref": "DESIGN.md section 6 C05", "note": _RUNNER_NOTE, "technique": T,
}
CHECKS["C06"] = {
    "level": "proof",
    "text": "Kernel-checked theorems for every assignment of success/failure to evaluations: at most retries+1 evaluations per "
            "point, retries scheduled before new points, at most one tell and none after exhaustion, characterisation of "
            "`failed` and of the raised error. Same correspondence with failure outcomes; trace oracles on the real runners.",
    "design_ref": "DESIGN.md section 6 C06", "note": _RUNNER_NOTE, "technique": T,
}
CHECKS["C19"] = {
    "level": "proof",
    "text": "Kernel-checked: with logging and no failures the log is the projection of the call trace, every logged ask has "
            "n>=1, and replay-then-discard equals the original learner for every deterministic learner whose tell commutes "
            "with remove_unfinished (proved for the SequenceLearner model). Real runners with log=True replayed on fresh learners.",
    "design_ref": "DESIGN.md section 6 C19", "note": _RUNNER_NOTE, "technique": T,
}
CHECKS["C16"] = {
    "level": "proof",
    "text": "Kernel-checked theorems over ordered fields for the AverageLearner model (moments, variance identity, corrected sample "
            "std, loss formula, std and loss non-negative, loss antitone in the number of requested points hence loss(real=False) <= loss(real=True), fresh seeds incl. pigeonhole for the set-iteration branch), the AverageLearner1D sampling model "
            "(value = mean, counts, Student-t error, batch = single, under-sampled set tracked and served) and the COMPLETE "
            "AverageLearner1D model Avg1DFull.lean (Learner1D loss machinery, distances, rescaled errors, all three branches of ask): "
            "for every state the ask rule (under-sampled member / largest rescaled error above delta and below max_samples / "
            "Learner1D's new point), for every history rescaled_error sorted with rescaled_error[x] = error[x] / min neighbouring "
            "distance, distances and running means current, sampling part = the sampling model (statistics carry over); the inherited loss tables "
            "(Props/C16Loss.lean): in every reachable state their keys are exactly the neighbouring pairs of data / data + pending abscissae, both "
            "stay in container order and loss() is their head entry; a re-sample recomputes every interval whose loss depends on the changed mean "
            "(nn = 1 included). The VALUES are exact only under a guard: the three AverageLearner1D rescale loops iterate the live container, and a "
            "custom loss that grows with the output scale leaves a stale entry (two kernel-checked counterexamples, replayed on the real class; no "
            "shipped loss grows with the scale, outside this property). For losses that do not grow with the output scale and do not depend on the "
            "scale on constant values (ScaleMonotone, FlatScaleFree: uniform and every default-loss shape g(dx, |dy|/scale)) the live loop visits "
            "every key and the stored losses ARE exact after every history of in-bounds tells (c16l_values_exact; one remaining hypothesis FlatHist "
            "- scale 0 implies all means equal - is now PROVED as an invariant, c16l_values_exact', for mappings of tell_many_at_point with distinct "
            "seeds, which a Python dict always has; triangle and curvature loss shapes are covered too). Same "
            "definitions run at Float in lock-step with the real learners (full model: bit for bit incl. both loss tables, "
            "rescaled_error in container order, ask points/improvements/branch); statistics, rescaled errors and the ask rule "
            "re-derived on the real objects. One recorded finding (literal 'goes to an abscissa with fewer than min_samples' reading).",
    "design_ref": "DESIGN.md section 6 C16",
    "note": "Trusted: Lean kernel, standard axioms, hand models Avg.lean/Avg1D.lean/Avg1DFull.lean (on L1D.lean) tied by differential "
            "testing (first two: 1e-7 relative on floats; full model: exact, with recorded corrections of sqrt/hypot checked to 1e-9 "
            "relative where python's compensated sum/pow/math.hypot differ by ulps), scipy.stats.t.ppf and the loss function as recorded "
            "oracles, sqrt law sqrt(x)^2=x, sortedcontainers tie order. Not proved: values of the inherited loss tables of "
            "AverageLearner1D (lock-step only; its re-computation loops iterate the live container).",
    "technique": T,
}

_L1D_NOTE = ("Trusted: Lean kernel, standard axioms, hand model L1D.lean tied BIT-EXACTLY (data, pending, both loss tables in container "
             "order, both losses, ask results) to Learner1D on generated histories with the loss function as recorded oracle; "
             "sortedcontainers semantics; IEEE rounding outside the theorems (ordered fields).")
CHECKS["C01"] = {
    "level": "proof",
    "text": "Kernel-checked over every ordered field, EVERY loss function with any number of neighbouring intervals, every op "
            "list with points in bounds (batched tells need NOT wait for the end points any more since the repo fix 1cb5cb1 - stronger than "
            "the property's proviso; tell, tell_pending, tell_many both paths, remove_unfinished, ask): (1) one loss per neighbouring pair, both containers in "
            "ItemSortedDict order; (2) VALUE INVARIANT: each stored loss is the loss function on the data held now at an output "
            "scale between the last full recomputation and the current one, never more than the factor out of date; exact with "
            "factor 1; (3) each piece cut out by pending points has the proportional share, infinite exactly where no evaluated "
            "point exists on one side; (4) HEADLINE: the reported loss is the loss-function value of an interval maximal in rounded, "
            "infinity-aware loss among all neighbouring pairs; infinite iff a bound is unknown / no interval / the head is infinite. "
            "Tie: bit-exact lock-step. Search: every stored loss recomputed from learner.data at every admissible output range.",
    "design_ref": "DESIGN.md section 6 C01 and 10.2", "note": _L1D_NOTE, "technique": T,
}
CHECKS["C02"] = {
    "level": "proof",
    "text": "Kernel-checked for every state reachable by a history with points in bounds (incl. batched tells before the end points "
            "are known, since the repo fix 1cb5cb1), every loss function and request size: ask returns exactly n distinct in-domain points none of which is "
            "evaluated or pending; missing bounds first; empty learner samples uniformly; the rest are equal subdivisions of pairwise "
            "different intervals between neighbouring known points; greedy water-filling is optimal for every monotone rounding "
            "(proved for the concrete loop: for every non-negative loss function the allocation ask computes is optimal, c02_allocation_optimal_nonneg). Tie: bit-exact "
            "lock-step of ask results. Search: freshness/equal parts/single-move/brute-force optimality on every reached state.",
    "design_ref": "DESIGN.md section 6 C02", "note": _L1D_NOTE, "technique": T,
}
CHECKS["C15"] = {
    "level": "proof",
    "text": "Kernel-checked, generic over all lawful children, all child counts, strategies, strategy switches and op lists: the "
            "caches (real/expected losses, suggestions) are current in every reachable state, hence loss(real) is the largest child "
            "loss for both flags; tells reach exactly the labelled child; every handed-out point is the labelled child's own current "
            "proposal and becomes pending there only; the four strategy rules (argmin of known+pending, rotation, largest offered "
            "improvement, largest expected loss); a non-committing ask is a no-op. Tie: lock-step with BalancingLearner over "
            "SequenceLearner children; search: clause oracles over Sequence/Average/Learner1D children with cloned reference children.",
    "design_ref": "DESIGN.md section 6 C15",
    "note": "Trusted: Lean kernel, standard axioms, hand model Balancing.lean tied by differential testing; children abstracted by "
            "the laws Lawful/RealLossStable (exact non-committing ask and restore; discards do not change real loss); python max()/np.argmin "
            "first-wins semantics. Four defects found here were repaired by fix: commits (see known_findings.json).",
    "technique": T,
}
CHECKS["C09"] = {
    "level": "proof",
    "text": "Kernel-checked per model: for Learner1D, SequenceLearner, AverageLearner, AverageLearner1D (complete model), DataSaver over "
            "any learner and BalancingLearner over lawful children, ask(n, False) returns the very state it was given (hence data, "
            "pending, losses and all later answers are unchanged) and the points of ask(n, True), whose state is tell_pending folded "
            "over them. LearnerND / IntegratorLearner (utils.restore snapshot): the roll-back half is proved on the models of C04 / C07 "
            "(state as given, also when the request raises; same points and error class as the committing ask), the committing half "
            "is left to the twin oracle (listed as partial). Learner2D: bookkeeping model L2D.lean (data, pending, suggestion stack; candidates of _fill_stack as oracle) "
            "in bit-exact lock-step with the real class: ask never changes data; ask(n, False) returns the committing answer, leaves pending EXACTLY unchanged for "
            "every oracle (since the repair e806eb2), is a complete no-op when it fails (state equality; repair 844d031) and rewrites the stack exactly as "
            "characterised (the recorded stack finding, now a theorem with kernel-checked witnesses). Search: twin learners over 22 kinds, one "
            "receiving extra non-committing asks twice (incl. requests that cannot be served and raise, and requests larger than "
            "Learner2D's suggestion stack); every observable and every later answer compared exactly. The recorded Learner2D stack "
            "mechanism is recognised exactly (stack after the call = the candidates a committing ask of a deep copy produces, not "
            "consumed); a stack rewritten in any other way is not neutralised and its later answers are reported.",
    "design_ref": "DESIGN.md section 6 C09",
    "note": "Trusted: Lean kernel, standard axioms; the models are tied to the code by the lock-step runs of C01/C02/C04/C07/C15/C16/C17/C18; "
            "utils.restore (deepcopy of __dict__) is an exact snapshot. Three defects found here were repaired by fix: commits.",
    "technique": T,
}
CHECKS["C10"] = {
    "level": "proof",
    "text": "Kernel-checked per model: Learner1D, SequenceLearner, AverageLearner (Props/C10.lean) - re-telling a known point is a no-op "
            "(also with a different value for the first-value learners, also after the point was marked pending again), no pending "
            "point has data in ANY history, no point is stored twice, data = first/last told value, committed asks pending until told, "
            "remove_unfinished empties the pending set and equalises both losses; LearnerND, IntegratorLearner and the complete "
            "AverageLearner1D (Props/C10More.lean, on the models of C04 / C07 / C16) - data = the distinct told points, point count, "
            "told => not pending, asked => pending until told or discarded, re-tell no-op, discard; where a clause is false of model and "
            "code the kernel-checked counterexample stands next to the theorem, which then carries the explicit hypothesis. Learner2D "
            "(L2D.lean: data, pending set, suggestion stack; the candidates of _fill_stack as oracle; bit-exact lock-step with the real class "
            "in this check): data = the value told last, npoints = distinct told points, an in-bounds told point leaves pending and stack, "
            "points of a committing ask are pending afterwards and until told or discarded (no hypothesis on the geometry since the repairs "
            "e806eb2 / 844d031), remove_unfinished empties pending and re-queues the unevaluated corners. Search: shadow bookkeeping over 21 learner kinds incl. wrappers, retries (re-marked told points), abscissae "
            "of the integrator told before they were handed out.",
    "design_ref": "DESIGN.md section 6 C10",
    "note": "Trusted: Lean kernel, standard axioms; models tied to the code by the lock-step checks C01/C02/C04/C07/C15/C16/C17/C18. "
            "Defects found here were repaired by fix: commits; recorded findings: AverageLearner1D re-issues evaluated seeds, the "
            "integrator hands out an abscissa that was told before it was asked.",
    "technique": T,
}
CHECKS["C13"] = {
    "level": "proof",
    "text": "Kernel-checked per model: data round trips _set_data(_get_data()) (DataSaver incl. extra_data over any child, "
            "AverageLearner moments, SequenceLearner, Learner1D) and RESTORE-BISIMILARITY for Learner1D with exact recomputation and for "
            "AverageLearner: after a history that ends with no pending points the restored learner and the original agree on every "
            "observable (both loss tables, loss(), ask(n) for every n) after EVERY common continuation of asks, tells, batches, pending "
            "marks and discards (l1d_restore_bisimilar, l1d_same_content_bisimilar, avg_restore_bisimilar; the 'no pending points' "
            "proviso is necessary - kernel-checked counterexamples). Learner2D (L2D.lean, restores in the bit-exact lock-step of this check): a file / "
            "copy_from restore returns the same data (keys, values, order) and is the original with its suggestion stack replaced by the "
            "unevaluated corners - equal to the original exactly when the original's stack is that corner stack (restoreFile_eq_self_iff; the "
            "recorded stack finding is the kernel-checked witness Ex.file_restore_drops_stack); a pickle of a learner without pending points "
            "is the SAME state, hence agrees on every later answer (l2d_pickle_same_future). LearnerND / IntegratorLearner / AverageLearner1D "
            "have no model of their persistence: there the deciding part is the search (listed as partial). Search: real save/load (gzip on/off), "
            "pickle, cloudpickle, copy_from for 19 learner kinds after histories ending with no pending points (incl. very early saves); "
            "data exactly, loss and next asks exactly (pickles) or to 1e-9 (file/copy).",
    "design_ref": "DESIGN.md section 6 C13",
    "note": "Trusted: Lean kernel, standard axioms; cloudpickle/gzip byte formats; models tied to the code by the lock-step checks. "
            "Recorded findings: Learner2D's suggestion stack is not carried by file / copy_from restores; the integrator's loss sum "
            "differs in the last bit after unpickling. The former Learner1D finding (restore with an unevaluated bound) is repaired (1cb5cb1).",
    "technique": T,
}
CHECKS["C11"] = {
    "level": "proof",
    "text": "Kernel-checked: SequenceLearner — any order of the same tells gives the same state; AverageLearner — same moments, data "
            "set, mean/std/loss and next suggestions; Learner1D with exact recomputation (factor 1), every loss function with any "
            "number of neighbours, scalar or vector values: the state is a FUNCTION OF (data, pending) along valid histories — "
            "permuted single tells, one batch through either tell_many path, and arbitrary histories with pending points that end "
            "with the same data and pending set agree in both loss tables (as lists, in container order), loss(real) and ask(n) for "
            "all n. With the default factor 2 the statement is false of code and model (kernel-checked counterexample; recorded "
            "finding). (Learner2D's bookkeeping, although not named by the property: permuted tells of distinct points give the same data map, "
            "pending set and stack - l2d_tells_order_irrelevant.) Search: real point sets re-told in all permutations (<= 5) / random orders / "
            "batches, with pending points, also with end points that are pending instead of known.",
    "design_ref": "DESIGN.md section 6 C11", "note": _L1D_NOTE, "technique": T,
}
CHECKS["C12"] = {
    "level": "proof",
    "text": "Kernel-checked over ordered fields for ARBITRARY positive input and output factors, every loss function (needing only: "
            "insensitive to a common factor on values that are all equal), every nn, every history: each Learner1D operation "
            "commutes with scaling, the rescaled learner chooses exactly the scaled points with the same improvements and reports "
            "the same losses. LearnerND: its point choice in a triangle (Choose.lean, tied bit for bit to choose_point_in_simplex in C20) "
            "is proved equivariant under a common factor on all axes with the transform diag(1/width) rescaled accordingly, and under translation "
            "(lnd_choose2_*); the N-D primitives (volume, circumsphere, in-simplex test) are homogeneous (C20). The bit-for-bit clause for IEEE "
            "doubles / powers of two and the LearnerND bookkeeping clause are decided by the paired run on the real code (partial: rounding outside "
            "the theorems). Search: "
            "paired real learners, factors 2^k, k in [-30, 30], compared bit for bit at every step; generic factors to 1e-6.",
    "design_ref": "DESIGN.md section 6 C12", "note": _L1D_NOTE + " One LearnerND defect found here was repaired by a fix: commit; recorded findings: absolute log-det cut, ulp-level differences, a tie between equal sub-simplex priorities broken by the (scale dependent) iteration order of a set of float tuples.", "technique": T,
}
CHECKS["C20"] = {
    "level": "proof",
    "text": "Kernel-checked theorems over every ordered field about Lean definitions that harness/translate.py regenerates "
            "from the repository's source on every run (fast_norm, fast_det 2x2/3x3 = Matrix.det, 2-D/3-D circumcentre "
            "equidistant + unique + radius, in-triangle test = barycentric coordinates in [0,1] / convex combination, "
            "Heron = Gram determinant = |det|/2, volume = |det|/d!, 1-D uniform/default/triangle losses, linspace; invariance "
            "under translation, relabelling, rigid motions, homogeneity; sanity of the tolerances read from the live modules); on top of the "
            "generated circumcentre and in-triangle test the hand model Choose.lean of learnerND.choose_point_in_simplex for triangles: result = "
            "centroid or midpoint of a longest edge in transformed coordinates, a convex combination of the vertices, centroid iff the circumcentre "
            "passes the eps-test (eps = 0: iff not obtuse), equivariance; and Prims2.lean / Props/C20More.lean: Learner2D triangle area (= |det|/2 = "
            "nd_volume2, relabelling, rigid motions, degree 2), uniform loss, choose_point_in_triangle (centroid or first longest edge's midpoint, "
            "convex combination, the badness threshold), triangle-surface loss (Gram determinant / 4), 1-D resolution cut-offs (0 / inf / loss with "
            "the code's strictness) and curvature loss (degrees 2, 1, 1), LearnerND default_loss on a 2-D domain (area of the embedded triangle "
            "via the Cayley-Menger determinant), orientation (antisymmetric, translation invariant, sign of the determinant above the cut, NOT "
            "scale invariant: kernel-checked witness with the exact double exp(-50) - the recorded finding). "
            "Tie: the same definitions evaluated at Float agree bit for bit (<= 4 ulp where libm hypot is involved) with the "
            "real functions on seeded inputs. Search: exact Fraction re-computation of every primitive's meaning incl. the "
            "numpy general-dimension branches, N-D/2-D losses and quadrature constants, dims 1-5.",
    "design_ref": "DESIGN.md section 6 C20",
    "note": "Trusted: Lean kernel, standard axioms, harness/translate.py (python subset -> Lean, kernel table for "
            "sqrt/abs/array/broadcasting/hypot/pdist/factorial) and the constants dump; sqrt assumed to satisfy "
            "0<=x -> 0<=sqrt x and sqrt x * sqrt x = x (Real.sqrt does); IEEE rounding outside the theorems. General-dimension "
            "numpy branches, N-D/2-D loss functions and integrator_coeffs are modelled-not-verified (exact oracle only). "
            "Non-degenerate inputs. Six functions raise for every input under the installed NumPy/SciPy and are listed as "
            "environmental in the evidence.",
    "technique": "Lean 4 theorems over definitions translated from /repo on every run + bit-level correspondence with /repo",
}
CHECKS["C07"] = {
    "level": "proof",
    "text": "Kernel-checked theorems over the bookkeeping model of IntegratorLearner, for every number type, every oracle for the abscissae and for "
            "the numeric outcome of complete_process, all parameters and every history of tell (any abscissa) / ask (any size, committing or rolled "
            "back) / tie re-ordering: no abscissa is pushed or handed out twice; a foreign abscissa is rejected with the state unchanged; no "
            "AssertionError/KeyError site of the learner is reachable (nested abscissae: hypothesis, discharged for the real Clenshaw-Curtis node "
            "tables dumped from integrator_coeffs on every run - index map k -> 2k proved by kernel evaluation); in every reachable state every "
            "non-empty done_leaves is a cut of its interval's subtree (full: invariant of the done-leaves walk incl. revived intervals, split, "
            "refine, remove; recursive and path formulation), its intervals are contiguous from a to b under split's midpoint relation, the "
            "approximating intervals span the constructor's bounds; the fuel of the model's tree recursions is never exhausted; igral/err are the "
            "sums over the approximating intervals. Tie: bit-exact lock-step of ask results, complete_process call order, approximating intervals, "
            "npoints, pending, done(), igral/err, error class. Search: the property's clauses on the real learner after every operation; "
            "regression corpus of four repaired defects.",
    "design_ref": "DESIGN.md section 6 C07",
    "note": "Trusted: Lean kernel, standard axioms, hand model Integ.lean tied by differential testing with everything numeric as a "
            "recorded oracle (harness/integ_drive.py wrappers), constants ns/ndiv_max asserted at run time, SortedSet(key=rdepth) order, "
            "tie order after a rolled-back ask taken from the code (relational); node tables: harness/integ_tables.py (asserts "
            "_Interval.points = (a+b)/2 + (b-a)*xi/2 elementwise). Reading: the partition clause applies whenever the set "
            "of approximating intervals is non-empty. Histories stop at the first divergence / NaN error estimate.",
    "technique": T,
}
CHECKS["C08"] = {
    "level": "other",
    "text": "Partial. (1) Kernel-checked real-analysis skeleton (Mathlib intervalIntegral): adjacent pieces from a to b and per-piece "
            "validity of the local estimate imply |int f - igral| <= err, and with done()'s disjunct err < |igral|*tol <= max(err, tol*|igral|) "
            "(integ_global_bound_partial and corollaries). (2) The exact coefficient tables of integrator_coeffs.py, dumped from the live "
            "module on every run (harness/integ_tables.py -> Gen/QuadTables.lean) and proved by exact kernel computation: legendre(34) is "
            "orthogonal with int P_n^2 = 2/(2n+1) (also as a real integral) and equals Bonnet's recursion; the node tables xi are "
            "antisymmetric, nested, sorted, from -1 to 1; newton(n) = (X^2-1) U_(n-2)/2^(n-2) and vanishes at every -cos(k pi/(n-1)) "
            "(Mathlib Chebyshev U); the exact integrals behind b_def; eps/min_sep/hint/ndiv_max. Validity of Gonnet's estimator, the "
            "floating-point tables (V, V_inv, T_left/right, alpha, gamma, sqrt factor of b_def) and floating point are NOT proved: covered "
            "by testing - 8 closed-form families (poly <=12, exp, sin, Lorentzian, Gaussian, inverse-sqrt end-point singularity with "
            "f(a)=inf, kink, jump) x seeded parameters, tol 1e-10..1e-3, sequential and shuffled/partial delivery, "
            "|igral-exact| <= max(err, tol*|exact|)+1e-13 when done(); differential igral/err vs adaptive/tests/algorithm_4.py for equal "
            "evaluation counts (capped reference runs and truncated loop counts); table oracle on the live module incl. comparison with the "
            "reference's own tables.",
    "design_ref": "DESIGN.md section 6 C08",
    "note": "Trusted: Lean kernel, standard axioms; harness/integ_tables.py (dump of exact Fractions / dyadic doubles, read back and "
            "lock-stepped through the driver against the live legendre/newton/scalar_product); closed forms via math.erf/atan/expm1 and "
            "exact rationals; algorithm_4.py as reference. Differential disagreements after either implementation has dropped an interval "
            "(different too-narrow rules: the reference lacks abs() and tests stale points) are counted in the evidence, not failed. That the "
            "doubles xi are the correctly rounded cosines is not proved (residual bound only).",
    "technique": "Lean 4 theorems (real-analysis skeleton with hypothesis = estimator validity; kernel computations over tables dumped "
                 "from the live module) + closed-form oracle + differential testing vs reference implementation",
}
CHECKS["C03"] = {
    "level": "proof",
    "text": "Kernel-checked for ALL answers of the geometric predicates (locate_point, get_reduced_simplex, orientation, "
            "_simplex_is_almost_flat, point_in_cicumcircle and the work-list pop order are inputs of the model), all hints a caller "
            "may pass and all insertion sequences: vertex_to_simplices and simplices agree and every simplex is dim+1 distinct "
            "in-range vertices in every reachable state; add_point reports exactly the simplices it removed and created (interior "
            "and hull-extension path); every ValueError branch leaves the triangulation unchanged; no KeyError/IndexError; plus the "
            "algebraic core of 'the pieces tile the simplex' (signed and unsigned volume split, dimension 2 and 3). Of the geometric "
            "half, CONSERVATION OF VOLUME by the cavity retriangulation is proved in dimension 2 and 3 (interior cancellation over the "
            "removed simplices, added = hole faces ++ [pt] for the model, added volume = removed volume) under three explicit "
            "hypotheses about truthful geometry (opposite sides of shared facets, star-shaped cavity, non-degenerate removed simplices); "
            "in dimension 2 the last two are now DERIVED: the Delaunay cavity is star-shaped w.r.t. the new point (pencil-of-circles "
            "argument with the polynomial in-circle predicate, bridged to the implementation's centre/radius test at eps = 0), the "
            "work-list loop asks every neighbour of a deleted simplex (bowyer_watson_neighbours_asked), so truthful in-circle answers + "
            "a locally Delaunay, genuine triangulation around the cavity give area conservation of an accepted interior insertion "
            "(bowyer_watson_truthful_preserves_area_2d), and the same in dimension 3 with the pencil of spheres through a face "
            "(Props/C03Dim3.lean: cavity_star_shaped_3d, bowyer_watson_truthful_preserves_volume_3d, bridge to circumsphere3 at eps = 0); "
            "the rest (facets in <= 2 simplices, every vertex used, hull extension, Delaunay) stays the visible, unproved "
            "tiles_hull_statement (index clause: tiles_hull_partial); all of it is audited exactly on the real object after every "
            "insertion, where it fails on degenerate/anisotropic inputs (known findings). Tie: exact lock-step of "
            "simplices, vertex_to_simplices and add_point's return value with every predicate call recorded and consumed.",
    "design_ref": "DESIGN.md section 6 C03",
    "note": "Trusted: Lean kernel, standard axioms, hand model Tri.lean tied by differential testing (dims 2-4; random / lattice / "
            "centroid-midpoint / co-spherical / near-degenerate point sets; with and without hint; diagonal metrics up to ratio 100); "
            "SciPy's initial Delaunay and, for the 3-D/4-D hull volume, ConvexHull facets accepted only after an exact check; the "
            "tiling itself is tested exactly, not proved. Findings: relative eps of point_in_cicumcircle, holes left by skipped "
            "slivers, duplicates located in a foreign simplex within eps (see known_findings.json); repaired: cancellation in "
            "fast_2d_point_in_simplex and in the N-D circumsphere for point sets far from the origin.",
    "technique": T,
}
CHECKS["C04"] = {
    "level": "proof",
    "text": "Kernel-checked theorems over every oracle environment and every op list for the LearnerND bookkeeping model "
            "(LND.lean; triangulation, loss, volumes, chosen point as oracles): keys of _losses = simplices (given exact "
            "(deleted, added) reports), vertices = evaluated points, loss() = max, corners first, queue in SortedKeyList order, "
            "queue complete and sound (every live key has an entry; every entry of a current simplex carries the current "
            "(sub)loss = vol(sub)/vol(simplex)*loss), pop returns a live entry of maximal priority, with nothing pending ask "
            "refines a simplex of maximal loss and reports that loss. lnd_ask_fresh (points distinct, not evaluated, not pending) "
            "is proved under the state-level hypothesis ChooseFresh (violated by the real code: known finding); the unconditional "
            "lnd_ask_fresh_statement stays a stated Prop. In dimension 2 the geometric side conditions are DERIVED from the modelled point choice "
            "(Choose.lean) and barycentric test: the chosen point is the centroid or the midpoint of a longest edge in normalised coordinates, "
            "is accepted by point_in_simplex for its simplex and for the owning simplex, and lies in a rectangular domain (ChooseGeom2.lean; "
            "lnd_*_dim2), and the two remaining state-level side conditions are INVARIANTS of reachable states (sub-triangulation vertices "
            "accepted by their owner; all vertices in the domain) for histories whose told points lie in the domain (Props/C04Reach.lean: "
            "lnd_*_reach; the guard is necessary - kernel-checked history with an out-of-domain tell, same as the Python). Tie: real LearnerND in bit-exact lock-step (2-D/3-D, rect/ConvexHull, 3 losses, "
            "scalar/vector, runner-like interleavings, non-committing asks, discards). Search: the clauses of C04 on the real "
            "learner after every op with exact rational geometry (incl. every pending point rebound by a tell subdivides every "
            "new simplex it lies in); every history is then replayed on a fresh learner with NOTHING observed in between (no "
            "loss(), no read of tri) and every answer of ask must be the observed run's, or meet the clauses on the observed "
            "state (lazy creation of the triangulation).",
    "design_ref": "DESIGN.md section 6 C04",
    "note": "Trusted: Lean kernel, standard axioms, hand model LND.lean tied by differential testing, the monkeypatch recorder, "
            "CPython round(x,8) reproduced from bit patterns. Hypotheses: truthful combinatorics of the (sub)triangulations "
            "(C03), ChooseGeom (truthful choose / point_in_simplex / sub-triangulation insert) and AskNew (the chosen point has no value; "
            "derived from ChooseLocal + DataBound) for completeness, the former ghost flag is now a theorem (lnd_chosen_subdivided, lnd_ghost_true); remove_unfinished covered since fix e79ba45. Known findings: pending point on "
            "a hull face re-proposed (ValueError), degenerate triangulation for 1e6-aspect boxes, a sub-simplex piece below the "
            "triangulation's flatness threshold is not created (deficit ~4e-7 of the volume), overlapping sub-simplices in boxes of aspect ratio >= 100 "
            "(the in-circle band of C03; confirmed per case by a shadow run without the band).",
    "technique": T,
}
_PENDING = "machinery for this property is not built yet in this commit (work in progress; see DESIGN.md section 9)"
NOT_APPLICABLE = {f"C{i:02d}": _PENDING for i in range(1, 21) if f"C{i:02d}" not in CHECKS}
