"""Which properties are claimed, at which level (source of MANIFEST.json)."""
T = "Lean 4 theorem over a model + lock-step correspondence with /repo"
CHECKS = {
    "C17": {
        "level": "proof",
        "text": "Kernel-checked theorems over all op lists for the SequenceLearner model (partition invariant, ask order, "
                "no repeat between discards, done/loss/result); model tied to the real class by lock-step correspondence "
                "on seeded and exhaustive-small histories; python oracle of the statement finds replays.",
        "design_ref": "DESIGN.md section 6 C17",
        "note": "Trusted: Lean kernel, axioms propext/Classical.choice/Quot.sound, hand model Seq.lean tied by differential "
                "testing, sortedcontainers ordering. Tells carry index < len(sequence).",
        "technique": T,
    },
}
_PENDING = "machinery for this property is not built yet in this commit (work in progress; see DESIGN.md section 9)"
NOT_APPLICABLE = {f"C{i:02d}": _PENDING for i in range(1, 21) if f"C{i:02d}" not in CHECKS}
