"""C05 with a REAL thread pool: AsyncRunner, executor-based (plain `def`) function, `ThreadPoolExecutor(workers)` with FEWER
workers than `ntasks` - so that some of the submitted evaluations wait in the executor's queue - and `shutdown_executor=True`.

Every evaluation blocks on its own `threading.Event`; the scenario releases them one at a time and, after every release,
WAITS for the state it expects (the released evaluation has returned, the freed worker has picked up the next queued
evaluation, the runner has told the result) before it does anything else.  So the history is deterministic given `cfg`:
nothing that is CHECKED depends on the wall clock (the clock only bounds the waits; a bound that is hit is reported as
clause "harness_timeout", never as a property failure).

When the runner stops (goal reached, or `runner.cancel()` after `cancel_after` completed evaluations) the learner is told to
discard its unfinished points, the evaluations that can be cancelled are cancelled, the others are awaited, and only then the
executor is shut down.  From that moment on no worker may START an evaluation: what was still queued has been cancelled.

Checked (all on one lock-protected event log; see `_check`):
  evaluation_started_after_stop  no "start" after the learner was told to discard its unfinished points
                                 (`learner.remove_unfinished`), nor after the runner's task was done (done-callback)
  told_once                      every told point was handed out by `learner.ask`, is told once, with the value f returned,
                                 and its evaluation had returned before
  pending_discarded_at_exit      `learner.pending_points` is empty at the end
  goal_or_cancel                 not cancelled: status "finished" and the goal holds;  cancelled: status "cancelled"
  inflight_bound                 at every `ask`: handed out - told <= ntasks (and handed out - returned <= ntasks)
"""
from __future__ import annotations

import asyncio
import concurrent.futures as cf
import threading
import time
import warnings

_SPIN = 0.0002       # granularity of the (bounded) synchronous waits
_SYNC_BOUND = 10.0   # seconds - bound of one synchronous wait
_POLLS = 10000       # bound of one asynchronous wait (x 1 ms)
_GATE_BOUND = 30.0   # an evaluation never blocks longer than this (safety net; reported as harness_timeout)


class _Timeout(Exception):
    pass


def scenario(cfg):
    """cfg: workers (1|2), ntasks (workers+1..5), stop (goal: npoints), cancel_after (None | number of completed evaluations
    after which runner.cancel() is called), learner ('l1d' | 'seq'), pick ('first' | 'last': which of the running evaluations
    is released next; default 'first')"""
    warnings.simplefilter("ignore")
    import adaptive  # lazily: the harness sets sys.path before calling

    workers, ntasks, stop = cfg["workers"], cfg["ntasks"], cfg["stop"]
    cancel_after, pick = cfg.get("cancel_after"), cfg.get("pick", "first")

    lock = threading.Lock()
    log = []            # ("ask", keys) ("tell", key, y) ("start", key) ("end", key) ("discard",) ("shutdown",) ("task_done",)
    gates = {}          # key -> threading.Event of the evaluation that is currently blocked
    st = {"release_all": False, "gate_timeout": False, "cancel_issued": False}
    out = {"cfg": cfg, "fail": None, "status": None, "started": 0, "finished": 0}

    def value(x):
        return 0.5 * float(x) + 1.0

    def count(kind):
        with lock:
            return sum(1 for e in log if e[0] == kind)

    def release_all():
        with lock:
            st["release_all"] = True
            for ev in gates.values():
                ev.set()

    def f(x):  # runs in a worker thread
        ev = threading.Event()
        with lock:
            log.append(("start", x))
            gates[x] = ev
            if st["release_all"]:
                ev.set()
        if not ev.wait(_GATE_BOUND):
            st["gate_timeout"] = True
        with lock:
            gates.pop(x, None)
            log.append(("end", x))
        return value(x)

    class Pool(cf.ThreadPoolExecutor):
        def shutdown(self, wait=True, **kw):
            # The runner shuts the pool down with wait=True FROM the event loop: whatever is still running must be let go
            # here (nothing else could release it: the loop is blocked), and whatever a worker starts from now on is
            # recorded and returns at once.
            with lock:
                log.append(("shutdown",))
            release_all()
            return super().shutdown(wait=wait, **kw)

    if cfg["learner"] == "seq":
        learner = adaptive.SequenceLearner(f, [0.25 * i - 1.0 for i in range(stop + ntasks + 4)])
        key = lambda p: p[1]  # noqa: E731  (points are (index, value); f receives the value)
    else:
        learner = adaptive.Learner1D(f, bounds=(-1.0, 1.0))
        key = lambda p: p  # noqa: E731
    _ask, _tell, _discard = learner.ask, learner.tell, learner.remove_unfinished

    def ask(n, tell_pending=True):
        pts, li = _ask(n, tell_pending)
        with lock:
            log.append(("ask", tuple(key(p) for p in pts)))
        return pts, li

    def tell(x, y):
        with lock:
            log.append(("tell", key(x), y))
        return _tell(x, y)

    def remove_unfinished():
        with lock:
            log.append(("discard",))
        return _discard()

    learner.ask, learner.tell, learner.remove_unfinished = ask, tell, remove_unfinished
    goal = lambda l: l.npoints >= stop  # noqa: E731

    def snapshot():
        with lock:
            asked = [k for e in log if e[0] == "ask" for k in e[1]]
            started = [e[1] for e in log if e[0] == "start"]
            ended = [e[1] for e in log if e[0] == "end"]
        return asked, started, ended

    def sync_wait(cond, what):
        """block the LOOP thread (so that the runner cannot move) until the worker threads have reached the expected state"""
        t0 = time.monotonic()
        while not cond():
            if time.monotonic() - t0 > _SYNC_BOUND:
                raise _Timeout(what)
            time.sleep(_SPIN)

    def settle():
        # no evaluation has been cancelled so far, the queue is FIFO: min(workers, handed out - returned) are running
        def ok():
            asked, started, ended = snapshot()
            return len(started) - len(ended) == min(workers, len(asked) - len(ended))
        sync_wait(ok, "workers did not pick up the queued evaluations")

    async def poll(cond, what):
        for i in range(_POLLS):
            if cond():
                return
            await asyncio.sleep(0 if i < 20 else 0.001)
        raise _Timeout(what)

    loop = asyncio.new_event_loop()
    ex = Pool(workers)
    box = {}

    def on_done(_task):
        with lock:
            log.append(("task_done",))

    async def main():
        runner = adaptive.AsyncRunner(learner, goal=goal, executor=ex, ntasks=ntasks, ioloop=loop, shutdown_executor=True)
        box["runner"] = runner
        runner.task.add_done_callback(on_done)
        await poll(lambda: count("ask") > 0 or runner.task.done(), "the runner never asked")
        completed = 0
        for _ in range(stop + ntasks + 8):
            if runner.task.done() or count("discard"):
                break  # stopped (goal reached): what was queued is being cancelled, nothing more to release
            settle()
            if cancel_after is not None and completed >= cancel_after:
                st["cancel_issued"] = True
                out["queued_at_cancel"] = len(snapshot()[0]) - len(snapshot()[1])
                runner.cancel()
                break
            asked, started, ended = snapshot()
            running = [k for k in asked if k in started and k not in ended]  # in the order in which they were handed out
            if not running:
                raise _Timeout("nothing is running although the runner has not stopped")
            k = running[0] if pick == "first" else running[-1]
            n_end, n_start, queued = len(ended), len(started), len(asked) - len(started)
            with lock:
                gates[k].set()
            # the evaluation returns; the freed worker takes the next queued evaluation (if any) BEFORE the loop goes on
            sync_wait(lambda: count("end") == n_end + 1 and count("start") == n_start + (1 if queued else 0),
                      "released evaluation did not return / freed worker did not take the next queued evaluation")
            completed += 1
            await poll(lambda: count("tell") >= completed or runner.task.done(), "the runner never told the result")
        await poll(lambda: runner.task.done(), "the runner's task never finished")
        # the task is done: let everything go, let the loop settle
        release_all()
        for _ in range(20):
            await asyncio.sleep(0)

    try:
        try:
            loop.run_until_complete(main())
        except _Timeout as e:
            out["fail"] = ("harness_timeout", str(e))
        except Exception as e:  # noqa: BLE001
            out["fail"] = ("real_threads_exception", f"{type(e).__name__}: {e}")
    finally:
        release_all()
        try:
            runner = box.get("runner")
            if runner is not None and not runner.task.done():
                runner.cancel()
            for t in asyncio.all_tasks(loop):
                t.cancel()
            for _ in range(5):
                loop.run_until_complete(asyncio.sleep(0))
        except BaseException:  # noqa: BLE001
            pass
        try:
            cf.ThreadPoolExecutor.shutdown(ex, wait=True, cancel_futures=True)  # joins the worker threads
        finally:
            try:
                loop.run_until_complete(asyncio.sleep(0))
            except BaseException:  # noqa: BLE001
                pass
            loop.close()

    runner = box.get("runner")
    if runner is not None and runner.task.done():
        out["status"] = runner.status()
    with lock:
        final = list(log)
    out["started"] = sum(1 for e in final if e[0] == "start")
    out["finished"] = sum(1 for e in final if e[0] == "end")
    out["asked"] = sum(len(e[1]) for e in final if e[0] == "ask")
    out["told"] = sum(1 for e in final if e[0] == "tell")
    out["npoints"] = learner.npoints
    if out["fail"] is None and st["gate_timeout"]:
        out["fail"] = ("harness_timeout", "an evaluation was never released")
    if out["fail"] is None and runner is not None:
        out["fail"] = _check(cfg, final, learner, runner, st, value, goal)
    return out


def _check(cfg, log, learner, runner, st, value, goal):
    ntasks, workers = cfg["ntasks"], cfg["workers"]
    how = "cancelled" if st["cancel_issued"] else "goal reached"
    head = (f"AsyncRunner(ThreadPoolExecutor({workers}), ntasks={ntasks}, shutdown_executor=True, {cfg['learner']}, "
            f"goal npoints>={cfg['stop']}, {how})")
    # (1) nothing starts once the runner has stopped
    told_keys = [e[1] for e in log if e[0] == "tell"]
    for marker, text in (("discard", "the learner had been told to discard its unfinished points"),
                         ("task_done", "the runner's task was done")):
        idx = [i for i, e in enumerate(log) if e[0] == marker]
        if not idx:
            continue
        late = [e[1] for e in log[idx[0]:] if e[0] == "start"]
        if late:
            return ("evaluation_started_after_stop",
                    f"{head}: {len(late)} evaluation(s) {late[:4]} were STARTED after {text} (told: {len(told_keys)}, started "
                    f"before: {sum(1 for e in log[:idx[0]] if e[0] == 'start')}); they were queued in the executor when the "
                    f"runner stopped and were neither cancelled nor consumed")
    if runner.status() in ("finished", "cancelled") and sum(1 for e in log if e[0] == "ask") and \
            not any(e[0] == "discard" for e in log):
        return ("pending_discarded_at_exit", f"{head}: learner.remove_unfinished() was never called")
    # (2) told once, handed out before, value right, evaluation over
    asked, ended, seen = set(), set(), set()
    for e in log:
        if e[0] == "ask":
            dup = [k for k in e[1] if k in asked]
            if dup:
                return ("told_once", f"{head}: point(s) {dup[:3]} handed out twice")
            asked.update(e[1])
        elif e[0] == "end":
            ended.add(e[1])
        elif e[0] == "tell":
            k, y = e[1], e[2]
            if k not in asked or k in seen or k not in ended or y != value(k):
                return ("told_once", f"{head}: tell({k}, {y}): handed out {k in asked}, told before {k in seen}, "
                                     f"evaluation returned {k in ended}, expected value {value(k)}")
            seen.add(k)
    # (5) never more than ntasks in flight
    n_asked = n_told = n_ended = 0
    for e in log:
        if e[0] == "ask":
            n_asked += len(e[1])
            if n_asked - n_told > ntasks or n_asked - n_ended > ntasks:
                return ("inflight_bound", f"{head}: after an ask {n_asked} points are handed out, {n_told} told, "
                                          f"{n_ended} evaluations returned: more than ntasks={ntasks} in flight")
        elif e[0] == "tell":
            n_told += 1
        elif e[0] == "end":
            n_ended += 1
    # (4) goal or cancellation
    status = runner.status()
    if st["cancel_issued"]:
        if status != "cancelled":
            return ("goal_or_cancel", f"{head}: runner.cancel() was called after {n_told} results, status() is {status!r}")
    elif status != "finished" or not goal(learner):
        return ("goal_or_cancel", f"{head}: status() is {status!r}, npoints={learner.npoints}")
    # (3) pending points discarded
    if learner.pending_points:
        return ("pending_discarded_at_exit", f"{head}: pending points left after the runner stopped: "
                                             f"{sorted(learner.pending_points)[:4]}")
    return None


def gen(rng, n):
    cfgs = []
    cancels = [None, 0, None, 1, None, 3]
    for i in range(n):
        workers = 1 + i % 2
        cfgs.append({"workers": workers, "ntasks": rng.randint(workers + 1, 5), "stop": rng.randint(2, 8),
                     "cancel_after": cancels[(i // 2) % 6], "learner": rng.choice(["l1d", "seq"]),
                     "pick": rng.choice(["first", "last"])})
    return cfgs


if __name__ == "__main__":
    import collections
    import hashlib
    import random
    import sys

    import adaptive

    t0 = time.time()
    nthreads = threading.active_count()
    results = [scenario(c) for c in gen(random.Random(int(sys.argv[1]) if len(sys.argv) > 1 else 5), 60)]
    print("adaptive:", adaptive.__file__)
    print("status:", dict(collections.Counter(r["status"] for r in results)))
    fails = [r for r in results if r["fail"]]
    print("failures:", dict(collections.Counter(r["fail"][0] for r in fails)))
    for r in fails[:5]:
        print("  ", r["cfg"], "\n     ", r["fail"])
    digest = hashlib.sha1(repr([(r["cfg"], r["fail"], r["status"], r["started"], r["finished"], r["asked"], r["told"])
                                for r in results]).encode()).hexdigest()[:12]
    print(f"digest {digest}  threads left {threading.active_count() - nthreads}  {time.time() - t0:.2f}s")
