"""Drive the real LearnerND and record, by monkeypatching only, every oracle answer the Lean model
(lean/AdaptiveModel/LND.lean) needs: the triangulation's answers, sub-triangulation updates, loss values,
volumes, chosen points, random bootstrap points.  Points cross the protocol as ids, simplices as tuples of
vertex indices, doubles as 64-bit patterns.

`execute(case, hook)` runs one seeded history; `hook(learner, info)` is called around every operation (the
C04 search oracle lives in lnd_oracles.py).
"""
from __future__ import annotations

import math
import random
import traceback
import warnings

import numpy as np
import scipy.spatial

import adaptive.learner.learnerND as M
from adaptive.learner.learnerND import LearnerND
from adaptive.learner.triangulation import Triangulation
from harness.core import f2b

_REC = None  # the recorder of the learner currently driven (one per process at a time)


def dots(t):
    return ".".join(str(int(i)) for i in t) if len(t) else "-"


def sxs(simps):
    l = sorted(tuple(int(i) for i in s) for s in simps)
    return "/".join(dots(s) for s in l) if l else "-"


class Rec:
    def __init__(self, learner):
        self.l = learner
        self.ids = {}
        self.coords = []
        self.tab = {}
        self.new = []
        self.conflicts = []
        self.nrand = 0
        self.uord_cur = None
        self.stats = {}
        self.concrete = []  # the concrete operations of the history, for the unobserved replay (blind_replay)

    def count(self, k, n=1):
        self.stats[k] = self.stats.get(k, 0) + n

    def pid(self, pt):
        key = tuple(float(x) for x in pt)
        i = self.ids.get(key)
        if i is None:
            i = len(self.coords)
            self.ids[key] = i
            self.coords.append(key)
            self.rec("in", str(i), int(bool(self.l.inside_bounds(key))))
        return i

    def pts(self, tri, simplex):
        return tuple(self.pid(tri.vertices[int(i)]) for i in simplex)

    def rec(self, kind, key, val):
        k = (kind, str(key))
        val = str(val)
        old = self.tab.get(k)
        if old == val:
            return
        if old is not None:
            self.conflicts.append((kind, str(key), old, val))
        self.tab[k] = val
        self.new.append((kind, str(key), val))

    def flush(self):
        by = {}
        for kind, key, val in self.new:
            by.setdefault(kind, []).append(f"{key}={val}")
        self.new = []
        return [f"lnd oracle {kind} {';'.join(recs)}" for kind, recs in by.items()]


def install():
    """idempotent monkeypatches; all of them are transparent unless a recorder is active for the learner"""
    if getattr(M, "_verif_lnd_patched", False):
        return
    M._verif_lnd_patched = True

    orig_init = Triangulation.__init__

    def t_init(self, coords):
        orig_init(self, coords)
        if len(self.vertices) == self.dim + 1:
            self._verif_init = frozenset(self.simplices)

    Triangulation.__init__ = t_init

    orig_try = LearnerND._try_adding_pending_point_to_simplex

    def try_adding(self, point, simplex):
        r = _REC
        if r is None or self is not r.l:
            return orig_try(self, point, simplex)
        tri = self._tri
        p = r.pid(point)
        spts = r.pts(tri, simplex)
        inside = bool(tri.point_in_simplex(point, simplex))
        r.rec("pis", f"{p}@{dots(spts)}", int(inside))
        if r.uord_cur is not None and p not in r.uord_cur:
            r.uord_cur.append(p)
        if not inside:
            return orig_try(self, point, simplex)
        st = self._subtriangulations.get(simplex)
        verts = tuple(r.pid(v) for v in st.vertices) if st is not None else spts
        key = f"{dots(verts)}@{p}"
        try:
            res = orig_try(self, point, simplex)
        except (ValueError, RuntimeError):
            st2 = self._subtriangulations.get(simplex)
            if st is None and st2 is not None:
                r.rec("ssimps", dots(spts), sxs(getattr(st2, "_verif_init", st2.simplices)))
            r.rec("sadd", key, "raise")
            raise
        st2 = self._subtriangulations[simplex]
        if st is None:
            r.rec("ssimps", dots(spts), sxs(getattr(st2, "_verif_init", ())))
            r.count("subtri_created")
        r.rec("sadd", key, f"{sxs(res[0])}|{sxs(res[1])}")
        r.rec("ssimps", dots(verts + (p,)), sxs(st2.simplices))
        return res

    LearnerND._try_adding_pending_point_to_simplex = try_adding

    orig_usl = LearnerND._update_subsimplex_losses

    def usl(self, simplex, new_subsimplices):
        r = _REC
        if r is not None and self is r.l:
            tri = self._tri
            r.rec("vol", dots(r.pts(tri, simplex)), f2b(tri.volume(simplex)))
            st = self._subtriangulations.get(simplex)
            if st is not None:
                for ss in new_subsimplices:
                    r.rec("vol", dots(tuple(r.pid(st.vertices[int(i)]) for i in ss)), f2b(st.volume(ss)))
        return orig_usl(self, simplex, new_subsimplices)

    LearnerND._update_subsimplex_losses = usl

    orig_cl = LearnerND._compute_loss

    def compute_loss(self, simplex):
        res = orig_cl(self, simplex)
        r = _REC
        if r is not None and self is r.l:
            r.rec("loss", f"{dots(r.pts(self._tri, simplex))}@{f2b(float(self._output_multiplier))}", f2b(res))
        return res

    LearnerND._compute_loss = compute_loss

    orig_choose = M.choose_point_in_simplex

    def choose(simplex, transform=None):
        res = orig_choose(simplex, transform=transform)
        r = _REC
        if r is not None:
            r.rec("ch", dots(tuple(r.pid(v) for v in simplex)), r.pid(tuple(res)))
        return res

    M.choose_point_in_simplex = choose

    orig_tri = LearnerND.tri.fget

    def tri_get(self):
        r = _REC
        if r is None or self is not r.l or self._tri is not None:
            return orig_tri(self)
        n = len(self.data)
        # `_update_losses` (called by the getter) needs the recorder to know the new simplices first
        res = orig_tri(self)
        r.rec("tinit", n, int(res is not None))
        if res is not None:
            r.rec("tsimps", n, sxs(res.simplices))
            r.count("tri_created")
        return res

    LearnerND.tri = property(tri_get)

    orig_add = Triangulation.add_point

    def add_point(self, point, simplex=None, transform=None):
        r = _REC
        if r is None or self is not r.l._tri:
            return orig_add(self, point, simplex, transform)
        n = len(self.vertices)
        try:
            res = orig_add(self, point, simplex, transform)
        except (ValueError, RuntimeError):
            r.rec("tadd", n, "raise")
            raise
        r.rec("tadd", n, f"{sxs(res[0])}|{sxs(res[1])}")
        r.rec("tsimps", n + 1, sxs(self.simplices))
        if simplex is None:
            r.count("add_point_without_hint")
        if not res[0]:
            r.count("hull_extension_only")
        return res

    Triangulation.add_point = add_point

    orig_loc = Triangulation.locate_point

    def locate_point(self, point):
        res = orig_loc(self, point)
        r = _REC
        if r is not None and self is r.l._tri:
            r.rec("loc", f"{len(self.vertices)}@{r.pid(point)}", dots(res))
        return res

    Triangulation.locate_point = locate_point

    orig_ul = LearnerND._update_losses

    def update_losses(self, to_delete, to_add):
        r = _REC
        if r is None or self is not r.l:
            return orig_ul(self, to_delete, to_add)
        r.uord_cur = []
        try:
            return orig_ul(self, to_delete, to_add)
        finally:
            if r.uord_cur:
                r.rec("uord", len(self._tri.vertices), dots(r.uord_cur))
                r.count("pending_points_rebound", len(r.uord_cur))
            r.uord_cur = None

    LearnerND._update_losses = update_losses

    orig_rand = LearnerND._ask_point_without_known_simplices

    def ask_rand(self):
        res = orig_rand(self)
        r = _REC
        if r is not None and self is r.l:
            r.rec("rand", r.nrand, r.pid(res[0]))
            r.nrand += 1
            r.count("random_bootstrap_point")
        return res

    LearnerND._ask_point_without_known_simplices = ask_rand

    orig_rec = LearnerND._recompute_all_losses

    def recompute(self):
        r = _REC
        if r is not None and self is r.l:
            r.count("recompute_all_losses")
        return orig_rec(self)

    LearnerND._recompute_all_losses = recompute


# ---------------------------------------------------------------------------- configurations
FUNCS = {
    "smooth": lambda p: math.exp(-3 * sum(x * x for x in p)) + 0.3 * p[0],
    "peak": lambda p: 1.0 / (0.02 + sum((x - 0.1) ** 2 for x in p)),
    "const": lambda p: 2.5,
    "linear": lambda p: 1000.0 * p[0] - 3.0 * p[-1],
    "tiny": lambda p: 1e-9 * math.sin(5 * p[0]) + 7.0,
}


def value_of(case, p):
    q = [(x - a) / (b - a) * 2 - 1 for x, (a, b) in zip(p, case["bbox"])]  # function of normalised coordinates
    v = FUNCS[case["fn"]](q)
    if case["vdim"] == 1:
        return v
    return [v * (0.5 + k) + k * q[0] for k in range(case["vdim"])]


def make_domain(case):
    if case["domain"] == "rect":
        return [tuple(b) for b in case["bounds"]]
    # (the hull may be given by a point cloud: `cloud` holds additional points inside the hull, which are no corners)
    return scipy.spatial.ConvexHull(np.array(list(case["hull"]) + list(case.get("cloud", [])), dtype=float))


def make_learner(case):
    loss = {"default": M.default_loss, "uniform": M.uniform_loss, "std": M.std_loss}[case["loss"]]
    l = LearnerND(lambda p: value_of(case, p), make_domain(case), loss_per_simplex=loss)
    return l


def gen_case(rng, nops):
    dim = rng.choice([2, 2, 2, 3, 3])
    domain = rng.choice(["rect", "rect", "rect", "hull"])
    case = {"seed": rng.randrange(1 << 30), "nops": nops, "dim": dim, "domain": domain,
            "loss": rng.choice(["default", "default", "uniform", "uniform", "std"]), "vdim": rng.choice([1, 1, 2, 3]),
            "fn": rng.choice(["smooth", "smooth", "peak", "const", "linear", "tiny"]),
            "discard": rng.random() < 0.3}
    if domain == "rect":
        case["bounds"] = [rng.choice([(-1.0, 1.0), (0.0, 1.0), (-3.0, 5.0), (0.0, 0.25), (10.0, 50.0)]) for _ in range(dim)]
        if rng.random() < 0.2:  # a domain far from the origin compared with its size (the property is translation invariant)
            case["bounds"] = [rng.choice([(1000.0, 1001.0), (200.0, 201.0), (-512.0, -511.0), (0.0, 1.0), (1000.0, 1004.0)])
                              for _ in range(dim)]
        if dim == 3 and rng.random() < 0.04:  # extreme aspect ratio (the triangulation's flatness test is not scale-aware)
            case["bounds"] = [(0.0, 1e-3), (10.0, 1e3), (0.0, 1.0)]
        case["bbox"] = case["bounds"]
    else:
        if dim == 2:
            pts = rng.choice([
                [(0, 0), (2, 0), (3, 1.5), (1, 3), (-1, 1.5)],
                [(0, 0), (4, 0), (2, 3)],
                [(-1, -1), (1, -1), (2, 0), (1, 1), (-1, 1), (-2, 0)],
            ])
        else:
            pts = rng.choice([
                [(0, 0, 0), (1, 0, 0), (0, 1, 0), (0, 0, 1)],
                [(1, 0, 0), (-1, 0, 0), (0, 1, 0), (0, -1, 0), (0, 0, 1), (0, 0, -1)],
                [(0, 0, 0), (2, 0, 0), (2, 2, 0), (0, 2, 0), (1, 1, 1.5)],
            ])
        case["hull"] = [tuple(float(x) for x in p) for p in pts]
        if rng.random() < 0.4:
            # a hull built from a cloud: strict convex combinations of the corners are inside, not corners of the domain
            cloud = []
            for _ in range(rng.choice([1, 3, 6])):
                w = [rng.uniform(0.1, 1.0) for _ in case["hull"]]
                tot = sum(w)
                cloud.append(tuple(sum(wi * p[j] for wi, p in zip(w, case["hull"])) / tot for j in range(dim)))
            case["cloud"] = cloud
        arr = np.array(case["hull"])
        case["bbox"] = [(float(a), float(b)) for a, b in zip(arr.min(axis=0), arr.max(axis=0))]
    return case


def random_inside(l, case, rng, lattice=False):
    for _ in range(200):
        if lattice:
            p = tuple(a + (b - a) * rng.randrange(0, 9) / 8 for a, b in case["bbox"])
        else:
            p = tuple(rng.uniform(a, b) for a, b in case["bbox"])
        if l.inside_bounds(p):
            return p
    return None


def far_from_known(l, p, case, tol=1e-6):
    """the generator never tells two different points closer than 1e-6 of the domain size (a near-duplicate of
    a vertex is a malformed input for the triangulation, outside the property's quantifier)"""
    for q in list(l.data) + list(l.pending_points):
        if q != p and all(abs(x - y) <= tol * (b - a) for x, y, (a, b) in zip(p, q, case["bbox"])):
            return False
    return True


def where_of(e):
    tb = traceback.extract_tb(e.__traceback__)
    fr = [f for f in tb if "/adaptive/" in f.filename]
    site = fr[-1] if fr else tb[-1]
    chain = [f.name for f in fr]
    return f"{site.filename.split('/')[-1]}:{site.name}", chain


def observe(l, r, pre=""):
    v = l.loss()
    keys = sxs(l._losses)
    pend = ",".join(map(str, sorted(r.pid(p) for p in l.pending_points)))
    return f"ok{pre} loss=#{f2b(float(v))} keys={keys} pending={pend} npoints={l.npoints}"


LAST_CONCRETE = []


def execute(case, hook=None, record=True):
    """run the history of `case` on the real learner.  Returns (lines, outs, learner, stats, error) where
    error = None or dict(op, type, msg, where, chain, discarded) for an exception raised by the learner"""
    global _REC
    warnings.simplefilter("ignore")
    install()
    rng = random.Random(case["seed"])
    l = make_learner(case)
    r = Rec(l)
    _REC = r
    try:
        global LAST_CONCRETE
        LAST_CONCRETE = r.concrete
        return _execute(case, rng, l, r, hook)
    finally:
        _REC = None


def _execute(case, rng, l, r, hook):
    lines, outs = [], []
    stats = r.stats
    err = None
    bnd = [r.pid(p) for p in l._bounds_points]
    lines += r.flush()
    outs += ["ok"] * len(lines)
    lines.append(f"lnd new {case['dim']} {f2b(float(l._recompute_losses_factor))} {','.join(map(str, bnd))}")
    outs.append(observe(l, r))
    outstanding = []
    discarded = False
    max_pts = 34 if case["dim"] == 2 else 26

    def emit(line, fn, kind):
        nonlocal err
        info = {"op": kind, "line": line, "discarded": discarded}
        if hook:
            hook(l, info, "before")
        nrand0 = r.nrand
        try:
            pre = fn()
        except Exception as e:  # noqa: BLE001 - every exception of the learner is an observable outcome
            where, chain = where_of(e)
            err = {"op": kind, "type": type(e).__name__, "msg": str(e)[:80], "where": where, "chain": chain,
                   "discarded": discarded, "line": line}
            flushed = r.flush()
            lines.extend(flushed)
            outs.extend(["ok"] * len(flushed))
            lines.append(line)
            outs.append("raise:" + ("TriangulationError" if isinstance(e, (ValueError, RuntimeError)) else type(e).__name__))
            return False
        if kind == "ask_nocommit":
            r.nrand = nrand0
        flushed = r.flush()  # includes what loss() below needs only if it creates the triangulation: flush twice
        out = observe(l, r, pre or "")
        flushed += r.flush()
        lines.extend(flushed)
        outs.extend(["ok"] * len(flushed))
        lines.append(line)
        outs.append(out)
        stats["op:" + kind] = stats.get("op:" + kind, 0) + 1
        if hook:
            info["result"] = getattr(emit, "result", None)
            hook(l, info, "after")
        return True

    if case.get("script"):
        # scripted history (corpus of minimised findings): explicit ops instead of seeded choices
        for op in case["script"]:
            if op[0] == "ask":
                n, commit = int(op[1]), bool(op[2])

                def do(n=n, commit=commit):
                    r.concrete.append(["ask", n, commit, None])
                    pts, imps = l.ask(n, tell_pending=commit)
                    r.concrete[-1][3] = (list(pts), list(imps))
                    emit.result = (pts, imps, commit)
                    if commit:
                        outstanding.extend(p for p in pts if p not in outstanding)
                    return f" pts={','.join(str(r.pid(p)) for p in pts)} imps={','.join('#' + str(f2b(float(i))) for i in imps)}"

                ok = emit(f"lnd ask {n} {int(commit)}", do, "ask" if commit else "ask_nocommit")
            elif op[0] == "tell":
                p = tuple(float(x) for x in op[1])
                if p in outstanding:
                    outstanding.remove(p)
                ok = tell_one(case, l, r, emit, p, "tell")
            elif op[0] == "tell_nth":
                p = outstanding.pop(int(op[1]))
                ok = tell_one(case, l, r, emit, p, "tell")
            elif op[0] == "tell_all":
                batch = list(outstanding)
                outstanding.clear()
                ok = True
                for p in batch:
                    ok = tell_one(case, l, r, emit, p, "tell")
                    if not ok:
                        break
            elif op[0] == "remove_unfinished":
                def do():
                    nonlocal discarded
                    r.concrete.append(["remove_unfinished"])
                    l.remove_unfinished()
                    outstanding.clear()
                    discarded = True

                ok = emit("lnd remove_unfinished", do, "remove_unfinished")
            else:
                raise ValueError(op)
            if not ok:
                break
        stats["conflicts"] = len(r.conflicts)
        stats["points"] = l.npoints
        return lines, outs, l, stats, err
    if case["nops"] and case.get("bootstrap", rng.random() < 0.25):
        # all corners handed out at once and completed in a random order (possibly all but one): the first refinement is
        # asked for with exactly the points of the first triangulation known
        nb = len(l._bounds_points)

        def do(n=nb):
            r.concrete.append(["ask", n, True, None])
            pts, imps = l.ask(n, tell_pending=True)
            r.concrete[-1][3] = (list(pts), list(imps))
            emit.result = (pts, imps, True)
            outstanding.extend(p for p in pts if p not in outstanding)
            return f" pts={','.join(str(r.pid(p)) for p in pts)} imps={','.join('#' + str(f2b(float(i))) for i in imps)}"

        ok = emit(f"lnd ask {nb} 1", do, "ask")
        rng.shuffle(outstanding)
        keep = rng.choice([0, 0, 1])
        while ok and len(outstanding) > keep:
            ok = tell_one(case, l, r, emit, outstanding.pop(), "tell")
    for _ in range(case["nops"]):
        if err:
            break
        x = rng.random()
        total = l.npoints + len(l.pending_points)
        if x < 0.36 and total < max_pts:
            n = rng.choice([1, 1, 2, 2, 3, 4, 6])
            commit = rng.random() < 0.7

            def do(n=n, commit=commit):
                r.concrete.append(["ask", n, commit, None])
                pts, imps = l.ask(n, tell_pending=commit)
                r.concrete[-1][3] = (list(pts), list(imps))
                emit.result = (pts, imps, commit)
                if commit:
                    for p in pts:
                        if p not in outstanding:
                            outstanding.append(p)
                return f" pts={','.join(str(r.pid(p)) for p in pts)} imps={','.join('#' + str(f2b(float(i))) for i in imps)}"

            ok = emit(f"lnd ask {n} {int(commit)}", do, "ask" if commit else "ask_nocommit")
        elif x < 0.74:
            if not outstanding:
                continue
            rng.shuffle(outstanding)
            k = rng.randrange(1, len(outstanding) + 1)
            batch, rest = outstanding[:k], outstanding[k:]
            outstanding[:] = rest
            ok = True
            for p in batch:
                ok = tell_one(case, l, r, emit, p, "tell")
                if not ok:
                    break
        elif x < 0.84 and total < max_pts:
            p = random_inside(l, case, rng, lattice=rng.random() < 0.35)
            if p is None or p in l.data or not far_from_known(l, p, case):
                continue
            ok = tell_one(case, l, r, emit, p, "tell_unsuggested")
        elif x < 0.88 and total < max_pts:
            p = random_inside(l, case, rng)
            if p is None or p in l.data or p in l.pending_points or not far_from_known(l, p, case):
                continue

            def do(p=p):
                r.concrete.append(["tell_pending", p])
                l.tell_pending(p)
                outstanding.append(p)

            ok = emit(f"lnd tell_pending {r.pid(p)}", do, "tell_pending")
        elif x < 0.895 and l.data:
            p = rng.choice(list(l.data))  # a retry: an evaluated point is marked pending again - ignored by the learner (f204e85)

            def do(p=p):
                r.concrete.append(["tell_pending", p])
                l.tell_pending(p)

            ok = emit(f"lnd tell_pending {r.pid(p)}", do, "tell_pending_known")
        elif x < 0.91 and l.data:
            p = rng.choice(list(l.data))  # re-tell of a known point with another value: ignored by the learner
            ok = tell_one(case, l, r, emit, p, "retell", value=12345.0 if case["vdim"] == 1 else [12345.0] * case["vdim"])
        elif x < 0.95 and case["discard"]:
            def do():
                nonlocal discarded
                r.concrete.append(["remove_unfinished"])
                l.remove_unfinished()
                outstanding.clear()
                discarded = True

            ok = emit("lnd remove_unfinished", do, "remove_unfinished")
        else:
            ok = emit("lnd loss", lambda: None, "loss")
        if not ok:
            break
    stats["conflicts"] = len(r.conflicts)
    stats["points"] = l.npoints
    return lines, outs, l, stats, err


def blind_replay(case, concrete):
    """the same concrete operations on a fresh learner with NOTHING observed in between (no loss(), no read of `tri`, no
    recorder): yields (index of the ask among the asks, result or exception) for every ask, and stops at the first
    exception.  The property quantifies over all ask/tell interleavings, the ones without a loss() call included."""
    global _REC
    assert _REC is None
    warnings.simplefilter("ignore")
    l = make_learner(case)
    k = 0
    for op in concrete:
        try:
            if op[0] == "ask":
                pts, imps = l.ask(op[1], tell_pending=op[2])
                yield k, (list(pts), list(imps)), l
                k += 1
            elif op[0] == "tell":
                l.tell(op[1], op[2])
            elif op[0] == "tell_pending":
                l.tell_pending(op[1])
            elif op[0] == "remove_unfinished":
                l.remove_unfinished()
        except Exception as e:  # noqa: BLE001
            yield k, e, l
            return


def tell_one(case, l, r, emit, p, kind, value=None):
    v = value_of(case, p) if value is None else value
    vmin, vmax = float(np.min(v)), float(np.max(v))

    def do():
        r.concrete.append(["tell", p, v])
        l.tell(p, v)

    return emit(f"lnd tell {r.pid(p)} {f2b(vmin)} {f2b(vmax)}", do, kind)


def _rect(bounds, **kw):
    c = {"seed": 0, "nops": 0, "dim": len(bounds), "domain": "rect", "loss": "default", "vdim": 1, "fn": "smooth",
         "discard": False, "bounds": [tuple(map(float, b)) for b in bounds]}
    c["bbox"] = c["bounds"]
    c.update(kw)
    return c


def _hull(pts, **kw):
    c = {"seed": 0, "nops": 0, "dim": len(pts[0]), "domain": "hull", "loss": "default", "vdim": 1, "fn": "smooth",
         "discard": False, "hull": [tuple(map(float, p)) for p in pts]}
    arr = np.array(c["hull"])
    c["bbox"] = [(float(a), float(b)) for a, b in zip(arr.min(axis=0), arr.max(axis=0))]
    c.update(kw)
    return c


# minimised histories of the recorded findings, regressions of repaired ones (expect="pass") and one plain run; they
# are driven first in every run, in lock-step
CORPUS = [
    _rect([(-1, 1), (-1, 1)], name="plain_sequential", expect="pass",
          script=[op for _ in range(14) for op in (["ask", 1, 1], ["tell_all"])]),
    _rect([(-1, 1), (-1, 1)], name="pending_point_on_hull_face", loss="uniform", fn="const",
          script=[["ask", 4, 1], ["tell", (0, -0.5)], ["tell", (0, 0.5)], ["tell", (-0.8, 0)], ["ask", 2, 1],
                  ["tell", (0.8, 0)], ["ask", 1, 1], ["ask", 1, 1], ["ask", 1, 1], ["ask", 1, 1]]),
    # regression for fix e79ba45 (remove_unfinished left the queue stale): these must PASS now
    _rect([(-1, 1), (-1, 1)], name="discard_after_pop", discard=True, expect="pass",
          script=[["ask", 4, 1], ["tell_all"], ["ask", 2, 1], ["remove_unfinished"], ["ask", 1, 1], ["tell_all"],
                  ["ask", 3, 1], ["remove_unfinished"], ["ask", 2, 0], ["ask", 2, 1], ["tell_all"], ["ask", 1, 1]]),
    _rect([(-1, 1), (-1, 1)], name="discard_then_wrong_simplex", loss="uniform", fn="const", discard=True, expect="pass",
          script=[["ask", 4, 1], ["tell_all"], ["tell", (0.5, 0.9)], ["ask", 1, 1], ["remove_unfinished"], ["ask", 1, 1]]),
    # a pending point on the edge shared by two NEW simplices must subdivide both (out-of-order completion, collinear points)
    _rect([(-1, 1), (-1, 1)], name="pending_point_on_shared_new_edge", loss="uniform", fn="const", expect="pass",
          script=[["ask", 4, 1], ["tell_all"], ["ask", 4, 1], ["tell_nth", 0], ["ask", 1, 1], ["tell_nth", 0], ["ask", 2, 1]]),
    _rect([(0, 1), (0, 1), (0, 1)], name="pending_point_on_shared_new_face_3d", loss="uniform", fn="const", expect="pass",
          script=[["ask", 8, 1], ["tell_all"], ["ask", 5, 1], ["tell_nth", 0], ["ask", 1, 1], ["tell_nth", 1], ["ask", 2, 1]]),
    # exactly dim+1 evaluated points and nothing pending when the first refinement is asked for (the triangulation is created
    # lazily: the unobserved replay of these histories reaches `_ask` before anything has read `tri`)
    _hull([(0, 0), (2, 0), (0.5, 1.5)], name="first_refinement_triangle_domain", loss="uniform", expect="pass",
          script=[["ask", 3, 1], ["tell_nth", 2], ["tell_nth", 0], ["tell_nth", 0], ["ask", 1, 0], ["ask", 2, 1], ["tell_all"], ["ask", 1, 1]]),
    _hull([(0, 0, 0), (1, 0, 0), (0, 2, 0), (0, 0, 3)], name="first_refinement_tetrahedron_domain", vdim=2, expect="pass",
          script=[["ask", 4, 1], ["tell_nth", 1], ["tell_nth", 2], ["tell_nth", 0], ["tell_nth", 0], ["ask", 1, 1], ["tell_all"], ["ask", 2, 1]]),
    _rect([(-1, 3), (0, 1)], name="first_refinement_three_corners_in", loss="uniform", expect="pass",
          script=[["ask", 4, 1], ["tell_nth", 3], ["tell_nth", 0], ["tell_nth", 0], ["ask", 1, 1], ["tell_all"], ["ask", 1, 1]]),
    # random bootstrap points (more points asked for than corners, before any triangulation exists), one of them evaluated,
    # everything else discarded, then the same request again: nothing handed out may be evaluated already
    _rect([(-1, 1), (-1, 1)], name="random_phase_discard_and_ask_again", discard=True, expect="pass",
          script=[["ask", 7, 1], ["tell_nth", 5], ["remove_unfinished"], ["ask", 7, 1], ["tell_nth", 6], ["remove_unfinished"], ["ask", 6, 1],
                  ["tell_all"], ["ask", 2, 1]]),
    _rect([(0, 1), (0, 2), (-1, 1)], name="random_phase_discard_and_ask_again_3d", discard=True, expect="pass", vdim=2,
          script=[["ask", 11, 1], ["tell_nth", 9], ["tell_nth", 9], ["remove_unfinished"], ["ask", 11, 1], ["tell_all"], ["ask", 2, 1]]),
    _rect([(0, 1e-3), (10, 1000), (0, 1)], name="box_aspect_1e6", fn="linear",
          script=[op for _ in range(26) for op in (["ask", 1, 1], ["tell_all"])]),
]
