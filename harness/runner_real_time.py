"""C19 with the goals that are built from time (duration_goal / end_time_goal): these exist only on a real clock, so a few
short REAL runs (thread pool, a function that sleeps) complement the deterministic schedules.  What is checked does not depend
on timing: the log is exactly the sequence of ask/tell calls the runner made, and replaying it on a fresh learner gives the
same data."""
from __future__ import annotations

import asyncio
import concurrent.futures as cf
import time
import warnings

import adaptive


def scenario(cfg):
    warnings.simplefilter("ignore")
    calls = []
    base = adaptive.LearnerND if cfg["learner"] == "lnd" else adaptive.Learner1D

    class Recording(base):
        def ask(self, n, tell_pending=True):
            calls.append(("ask", n))
            return super().ask(n, tell_pending)

        def tell(self, x, y):
            calls.append(("tell", x, y))
            super().tell(x, y)

    def f(x):
        time.sleep(cfg["sleep"])
        return float(x[0]) if isinstance(x, tuple) else float(x)

    bounds = [(-1.0, 1.0), (-1.0, 1.0)] if cfg["learner"] == "lnd" else (-1.0, 1.0)
    learner = Recording(f, bounds)
    out = {"cfg": cfg, "fail": None}
    ex = cf.ThreadPoolExecutor(cfg["ntasks"])
    try:
        if cfg["runner"] == "blocking":
            r = adaptive.BlockingRunner(learner, duration_goal=cfg["duration"], executor=ex, ntasks=cfg["ntasks"], log=True,
                                        shutdown_executor=False)
        else:
            loop = asyncio.new_event_loop()

            async def main():
                rr = adaptive.AsyncRunner(learner, duration_goal=cfg["duration"], executor=ex, ntasks=cfg["ntasks"], log=True,
                                          shutdown_executor=False, ioloop=loop)
                await rr.task
                return rr
            r = loop.run_until_complete(main())
            loop.close()
    except Exception as e:  # noqa: BLE001
        out["fail"] = ("real_time_exception", f"{type(e).__name__}: {e}")
        return out
    finally:
        ex.shutdown(wait=True)
    log = [tuple(e) for e in r.log]
    made = [c for c in calls]
    out["nlog"], out["nasks"] = len(log), sum(1 for c in made if c[0] == "ask")
    if [e[:2] if e[0] == "ask" else e for e in log] != made:
        extra = [e for e in log if e not in made][:3]
        out["fail"] = ("log_is_trace", f"{cfg['runner']} runner with duration_goal: the log ({len(log)} entries) is not the sequence "
                                       f"of calls made to the learner ({len(made)} calls); logged without a call: {extra}")
        return out
    fresh = base(f, bounds)
    try:
        adaptive.runner.replay_log(fresh, r.log)
    except Exception as e:  # noqa: BLE001
        out["fail"] = ("replay_raises", f"replaying the log of a {cfg['runner']} runner with duration_goal raised {type(e).__name__}: {e}")
        return out
    fresh.remove_unfinished()
    if dict(fresh.data) != dict(learner.data):
        out["fail"] = ("replay_data", "replaying the log gives other data than the run")
    return out


def gen(rng, n):
    return [{"runner": rng.choice(["blocking", "async"]), "learner": rng.choice(["l1d", "lnd"]), "ntasks": rng.choice([1, 2, 3]),
             "sleep": rng.choice([0.35, 0.7]), "duration": rng.choice([0.9, 1.5])} for _ in range(n)]
