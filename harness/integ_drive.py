"""Real IntegratorLearner histories in lock-step with lean/AdaptiveModel/Integ.lean.

The model is the bookkeeping only.  Everything numeric is recorded on the real code (monkeypatching inside this
process, /repo untouched) and handed to the model as tables before the operation that needs it:
  * `opts`: the abscissae `_Interval.points(depth)` of every interval (depths 0..3), keyed by (a, b, depth);
  * `ocp` : for every `complete_process(depth)` call: igral, force_split, remove, the error set by every
            `calc_err` call and the `div` of every `calc_ndiv` call it makes, keyed by (interval number, depth).
Intervals are numbered in creation order on both sides (first_ival = 0, the children of a split get the next two
numbers); on the python side an interval is identified by its path from the root, which survives the deep copy made
by `ask(n, tell_pending=False)`.
"""
from __future__ import annotations

import math
import random
import sys
import warnings

import numpy as np

from adaptive.learner import integrator_coeffs as coeff
from adaptive.learner import integrator_learner as il
from adaptive.learner.integrator_learner import DivergentIntegralError, IntegratorLearner, _Interval
from harness.core import f2b

NAN_BITS = f2b(float("nan"))
CUR = None  # the active Session (fork-parallel workers have one each)
FILL_LIMIT = 3000  # `_fill_stack` calls allowed inside one `ask` (the model's recursion budget is the same number)


class AskDoesNotReturn(Exception):
    """raised by the guard when one `ask` has called `_fill_stack` more than FILL_LIMIT times"""


def fb(x):
    return str(f2b(float(x) + 0.0))  # -0.0 and 0.0 are the same dict key


def path_of(iv):
    p = []
    while iv.parent is not None:
        p.append("0" if iv.parent.children[0] is iv else "1")
        iv = iv.parent
    return "".join(reversed(p))


_orig = {}


def install():
    """wrap the numeric methods once; the wrappers only record, they never change a result"""
    if _orig:
        return
    _orig["split"] = _Interval.split
    _orig["complete_process"] = _Interval.complete_process
    _orig["calc_err"] = _Interval.calc_err
    _orig["calc_ndiv"] = _Interval.calc_ndiv

    def split(self):
        res = _orig["split"](self)
        s = CUR
        if s is not None:
            p = path_of(self)
            for k, ch in enumerate(res):
                s.ids[p + str(k)] = len(s.ids)
                s.new_ivals.append(ch)
            s.stats["split"] = s.stats.get("split", 0) + 1
        return res

    def complete_process(self, depth):
        s = CUR
        if s is None:
            return _orig["complete_process"](self, depth)
        fr = {"iv": self, "id": s.ids[path_of(self)], "depth": depth, "errs": {}, "divs": {}, "fs": False, "rm": False,
              "raised": None, "kids": list(self.children)}
        s.frames.append(fr)
        s.cur = fr
        try:
            fs, rm = _orig["complete_process"](self, depth)
            fr["fs"], fr["rm"] = bool(fs), bool(rm)
            return fs, rm
        except BaseException as e:
            fr["raised"] = type(e).__name__
            raise
        finally:
            fr["igral"] = getattr(self, "igral", 0.0)
            s.cur = None

    def calc_err(self, c_old):
        r = _orig["calc_err"](self, c_old)
        s = CUR
        if s is not None and s.cur is not None:
            s.cur["errs"][id(self)] = float(self.err)
        return r

    def calc_ndiv(self):
        s = CUR
        if s is not None and s.cur is not None:
            with np.errstate(all="ignore"):
                div = bool(self.parent.c00 and self.c00 / self.parent.c00 > 2)
            s.cur["divs"][id(self)] = div
        return _orig["calc_ndiv"](self)

    _orig["fill"] = IntegratorLearner._fill_stack

    def fill(self):
        s = CUR
        if s is not None:
            s.fills += 1
            if s.fills > FILL_LIMIT:
                raise AskDoesNotReturn()
        return _orig["fill"](self)

    IntegratorLearner._fill_stack = fill
    _Interval.split = split
    _Interval.complete_process = complete_process
    _Interval.calc_err = calc_err
    _Interval.calc_ndiv = calc_ndiv


def close(a, b):
    if a == b or (math.isnan(a) and math.isnan(b)):
        return True
    return abs(a - b) <= 1e-9 * max(abs(a), abs(b))


def classify(e):
    if isinstance(e, AskDoesNotReturn):
        return "model_fuel"
    if isinstance(e, DivergentIntegralError):
        return "divergent"
    if isinstance(e, ValueError):
        return "value_error"
    if isinstance(e, RuntimeError):
        return "runtime_error"
    return "internal_error"


class Session:
    """a real learner plus the protocol lines / expected outputs of everything done to it"""

    def __init__(self, f, bounds, tol, max_ivals=1000):
        global CUR
        install()
        warnings.simplefilter("ignore")
        np.seterr(all="ignore")
        assert tuple(coeff.ns) == (5, 9, 17, 33) and coeff.ndiv_max == 20  # constants of the model
        self.f = f
        self.ids = {"": 0}
        self.new_ivals = []
        self.frames = []
        self.cur = None
        self.fills = 0
        self.stats = {}
        self.lines, self.outs = [], []
        self.handed = []
        self.exc = None  # last exception object (for signatures)
        self.fails = []  # property clauses violated on the real learner: (clause, signature, detail)
        self.seen = set()
        self.ever_estimate = False
        self.bounds = bounds
        self.nops = 0
        CUR = self
        self.l = IntegratorLearner(f, bounds, tol)
        self.l.max_ivals = max_ivals
        self.new_ivals.append(self.l.first_ival)
        self._oracle_lines()
        self.lines.append(f"integ new {fb(bounds[0])} {fb(bounds[1])} {fb(tol)} {fb(coeff.min_sep)} "
                          f"{fb(sys.float_info.max)} {fb(math.inf)} {max_ivals} {FILL_LIMIT}")
        self.outs.append("r=ok " + self.obs())

    # ------------------------------------------------------------------ oracle tables
    def _oracle_lines(self):
        if self.new_ivals:
            recs = []
            for iv in self.new_ivals:
                for d in range(4):
                    recs.append(f"{fb(iv.a)}:{fb(iv.b)}:{d}=" + ",".join(fb(x) for x in iv.points(d)))
            self.lines.append("integ opts " + ";".join(recs))
            self.outs.append("ok")
            self.new_ivals = []
        if self.frames:
            recs = []
            for fr in self.frames:
                iv = fr["iv"]
                se = fr["errs"].get(id(iv))
                cd = ",".join("1" if fr["divs"].get(id(c)) else "0" for c in fr["kids"]) or "-"
                ce = ",".join(str(NAN_BITS) if fr["errs"].get(id(c)) is None else fb(fr["errs"][id(c)]) for c in fr["kids"]) or "-"
                recs.append(f"{fr['id']}:{fr['depth']}={fb(fr['igral'])}/{int(fr['fs'])}/{int(fr['rm'])}/"
                            f"{str(NAN_BITS) if se is None else fb(se)}/{int(bool(fr['divs'].get(id(iv))))}/{cd}/{ce}")
                self.stats["cp"] = self.stats.get("cp", 0) + 1
                if fr["fs"]:
                    self.stats["force_split"] = self.stats.get("force_split", 0) + 1
                if fr["rm"]:
                    self.stats["remove"] = self.stats.get("remove", 0) + 1
                if any(fr["divs"].values()):
                    self.stats["div"] = self.stats.get("div", 0) + 1
            self.lines.append("integ ocp " + ";".join(recs))
            self.outs.append("ok")

    # ------------------------------------------------------------------ observables
    def idof(self, iv):
        return self.ids[path_of(iv)]

    def obs(self):
        l = self.l
        cp = ",".join(f"{fr['id']}:{fr['depth']}" for fr in self.frames)
        ai = l.first_ival.done_leaves
        if ai is None:
            return f"cp={cp} ai=none"
        byid = sorted(((self.idof(iv), iv) for iv in ai), key=lambda t: t[0])
        pairs = sorted((float(iv.a) + 0.0, float(iv.b) + 0.0) for iv in ai)
        ig = 0.0
        for _, iv in byid:
            ig = ig + float(iv.igral)
        if byid:
            er = 0.0
            for _, iv in byid:
                er = er + float(iv.err)
        else:
            er = math.inf
        ex = 0.0
        for _, iv in byid:
            if iv.removed:
                ex = ex + float(iv.err)
        t = abs(ig) * float(l.tol)
        done = er == 0 or er < t or (er - ex < t and t < ex) or not l.ivals
        pend = sorted(float(x) + 0.0 for x in l.pending_points)
        return (f"cp={cp} ai={','.join(f'#{f2b(a)}:#{f2b(b)}' for a, b in pairs)} npoints={l.npoints} "
                f"pending={','.join(f'#{f2b(x)}' for x in pend)} done={int(bool(done))} igral=#{f2b(ig)} err=#{f2b(er)} "
                f"nivals={len(l.ivals)} prio={len(l.priority_split)} stack={len(l._stack)}")

    def canonical_done(self):
        return self.obs().split(" done=")[1][0] == "1"

    # ------------------------------------------------------------------ operations
    def _run(self, line, call, fmt):
        global CUR
        CUR = self
        self.frames = []
        self.fills = 0
        self.exc = None
        try:
            res = call()
            r = "ok"
        except Exception as e:  # noqa: BLE001 - the error class is an observable
            res, r = None, classify(e)
            self.exc = e
        return r, res

    # ------------------------------------------------------------------ the property, evaluated on the real learner
    def fail(self, clause, detail, sig=None):
        if len(self.fails) < 5:
            self.fails.append((clause, sig or f"C07.{clause}", f"{detail} [op {self.nops}: {self.lines[-1][:60]}]"))

    def site(self):
        """exception type + innermost /repo frame of the last exception"""
        import traceback
        tb = traceback.extract_tb(self.exc.__traceback__)
        fr = next((f for f in reversed(tb) if "/adaptive/" in f.filename), tb[-1])
        return f"{type(self.exc).__name__}:{fr.name}:{(fr.line or '').strip()}"

    def dump(self):
        """everything the learner holds, in canonical form (for `left unchanged`)"""
        l = self.l
        ivs = {}
        todo = [l.first_ival]
        while todo:
            iv = todo.pop()
            ivs[self.idof(iv)] = (iv.depth, iv.depth_complete, iv.removed, iv.ndiv, f2b(iv.err), len(iv.data),
                                  None if iv.done_leaves is None else sorted(self.idof(j) for j in iv.done_leaves),
                                  [self.idof(c) for c in iv.children])
            todo += iv.children
        return (sorted((f2b(k), f2b(v)) for k, v in l.data.items()), sorted(f2b(x) for x in l.pending_points),
                [f2b(x) for x in l._stack], sorted(self.idof(i) for i in l.ivals), [self.idof(i) for i in l.priority_split],
                sorted((f2b(k), [self.idof(i) for i in v]) for k, v in l.x_mapping.items()), sorted(ivs.items()))

    def audit(self, r, kind, pts=()):
        self.nops += 1
        l = self.l
        if r == "internal_error":
            self.fail("no_internal_error", f"{kind} raised {self.exc!r}", "C07.no_internal_error:" + self.site())
            return
        if r == "model_fuel":
            self.fail("ask_returns", f"one ask called _fill_stack more than {FILL_LIMIT} times without returning",
                      f"C07.ask_returns:fill_stack_calls>{FILL_LIMIT}")
            return
        if kind == "tell" and r not in ("ok", "divergent"):
            self.fail("tell_accepts_own_abscissa", f"tell of a handed-out abscissa raised {self.exc!r}")
        if kind == "ask" and r not in ("ok", "runtime_error"):
            self.fail("ask_error_class", f"ask raised {self.exc!r}")
        for x in pts:
            if x in self.seen:
                self.fail("no_duplicate_abscissa", f"ask returned {x!r} a second time")
            self.seen.add(x)
            if not hasattr(self, "_first_rule_buf"):
                self._first_rule_buf = []
            if len(self._first_rule_buf) < 33:
                self._first_rule_buf.append(x)
                if len(self._first_rule_buf) == 33:
                    self.first_rule = list(self._first_rule_buf)
        ai = l.first_ival.done_leaves
        if ai is None:
            self.fail("estimate_defined", "first_ival.done_leaves is None")
            return
        if ai:
            self.ever_estimate = True
            iv = sorted(ai, key=lambda i: (float(i.a), float(i.b)))
            if float(iv[0].a) != float(self.bounds[0]) or float(iv[-1].b) != float(self.bounds[1]):
                self.fail("partition_covers_range", f"approximating intervals span [{iv[0].a}, {iv[-1].b}], range is {self.bounds}")
            for p, q in zip(iv, iv[1:]):
                if float(p.b) != float(q.a):
                    self.fail("partition_contiguous", f"({p.a}, {p.b}) is followed by ({q.a}, {q.b})")
                    break
            ig, er = math.fsum(float(i.igral) for i in ai), math.fsum(float(i.err) for i in ai)
            mag = math.fsum(abs(float(i.igral)) for i in ai)
            if not (close(float(l.igral), ig) or abs(float(l.igral) - ig) <= 1e-9 * mag):
                self.fail("igral_is_sum", f"igral {l.igral!r} but the intervals sum to {ig!r}")
            if not close(float(l.err), er):
                self.fail("err_is_sum", f"err {l.err!r} but the intervals sum to {er!r}")
        else:
            if self.ever_estimate:
                self.fail("partition_persists", "the set of approximating intervals became empty again")
            # "from the moment the first rule is complete": the first ask hands out the 33 abscissae of the whole range's
            # first rule before anything else; once all of them have values there must be an estimate
            first = getattr(self, "first_rule", None)
            if first is None and self.seen:
                pass
            if first and all(x in l.data for x in first):
                self.fail("partition_from_first_rule", "all 33 abscissae of the first rule have values but there is no approximating interval")
            if l.igral != 0 or l.err != math.inf:
                self.fail("igral_is_sum", f"no approximating interval but igral={l.igral!r} err={l.err!r}")

    def tell(self, x, y=None, foreign=False):
        if y is None:
            y = self.f(x)
        before = self.dump() if foreign else None
        r, _ = self._run(None, lambda: self.l.tell(x, y), None)
        self._oracle_lines()
        self.lines.append(f"integ tell {fb(x)}")
        self.outs.append(f"r={r} " + self.obs())
        self.stats["tell"] = self.stats.get("tell", 0) + 1
        if len(self.frames) >= 2:
            self.stats["multi_completion_tell"] = self.stats.get("multi_completion_tell", 0) + 1
        fr_by = {}
        for fr in self.frames:
            fr_by.setdefault(fr["id"], []).append(fr["depth"])
        if any(len(v) >= 2 for v in fr_by.values()):
            self.stats["two_depths_in_one_tell"] = self.stats.get("two_depths_in_one_tell", 0) + 1
        if foreign:
            self.nops += 1
            if r != "value_error":
                self.fail("foreign_rejected", f"tell({x!r}) of an abscissa of no interval gave {r} instead of ValueError")
            elif self.dump() != before:
                self.fail("foreign_leaves_unchanged", f"rejected tell({x!r}) changed the learner")
        else:
            self.audit(r, "tell")
        return r

    def ask(self, n, commit=True):
        saved = dict(self.ids) if not commit else None
        r, res = self._run(None, lambda: self.l.ask(n, tell_pending=commit), None)
        if saved is not None:
            self.ids = saved
        pts, imps = res if res is not None else ([], [])
        self._oracle_lines()
        self.lines.append(f"integ ask {n} {int(commit)}")
        self.outs.append(f"r={r} pts={','.join('#' + fb(x) for x in pts)} imps={','.join('#' + fb(v) for v in imps)} " + self.obs())
        self.stats["ask" if commit else "ask_nocommit"] = self.stats.get("ask" if commit else "ask_nocommit", 0) + 1
        if r != "ok":
            self.stats["ask_" + r] = self.stats.get("ask_" + r, 0) + 1
        if commit:
            self.handed += [float(x) for x in pts]
        else:
            self._xorder()
        self.audit(r, "ask", [float(x) for x in pts] if commit else ())
        return r, [float(x) for x in pts]

    def _xorder(self):
        """after the deep copy of a non-committing ask the order of equal-rdepth members of x_mapping[x] is
        address dependent: hand the model the order the code ended up with"""
        recs = []
        for x, ss in self.l.x_mapping.items():
            if len(ss) >= 2:
                ivs = list(ss)
                if any(p.rdepth == q.rdepth for p, q in zip(ivs, ivs[1:])):
                    recs.append(f"{fb(x)}=" + ",".join(str(self.idof(iv)) for iv in ivs))
        if recs:
            self.lines.append("integ xorder " + ";".join(recs))
            self.outs.append("ok")

    def cutcheck(self):
        """model-side evaluation of the cut property of every interval's done_leaves (decidable predicate of Integ.lean);
        the expected holder count comes from the real object"""
        todo, n = [self.l.first_ival], 0
        while todo:
            iv = todo.pop()
            n += bool(iv.done_leaves)
            todo += iv.children
        self.lines.append("integ cutcheck")
        self.outs.append(f"cut=1 holders={n}")

    def nan_err(self):
        return any(math.isnan(float(iv.err)) for iv in self.l.ivals)


# ---------------------------------------------------------------------------------- integrands
FAMILIES = ["smooth", "poly", "peak", "disc", "kink", "sing_end", "sing_in", "nonfinite", "osc", "zero", "diverge"]


def make_f(name, rng, bounds):
    a, b = bounds
    c = a + (b - a) * rng.uniform(0.05, 0.95)
    w = (b - a) * 10 ** rng.uniform(-5, -1)
    k = rng.uniform(0.5, 30) / (b - a)
    if name == "step03":  # fixed integrands of the regression corpus
        return lambda x: 1.0 if x > 0.3 else 0.0
    if name == "isqrt03":
        return lambda x: 1 / math.sqrt(abs(x - 0.3)) if x != 0.3 else math.inf
    if name == "three_peaks":  # constant + narrow peaks each seen by one rule only + a gentle smooth term on the left half
        peaks = [(0.8535533905932737, 3.0), (0.5366116523516815, 1.0), (0.9633883476483185, 1.0)]
        return lambda x: (1.0 + (1e-3 * (0.5 - x) ** 3 * math.exp(3 * x) if x < 0.5 else 0.0)
                          + sum(amp * math.exp(-(((x - x0) / 1e-6) ** 2)) for x0, amp in peaks))
    if name == "isqrt_left_end":
        return lambda x: 1 / math.sqrt(x - a) if x > a else math.inf
    if name == "smooth":
        return lambda x: math.exp(k * (x - c) / 8) + math.cos(k * x)
    if name == "poly":
        cs = [rng.uniform(-1, 1) for _ in range(rng.randint(1, 12))]
        return lambda x: sum(q * ((x - c) / (b - a)) ** j for j, q in enumerate(cs))
    if name == "peak":
        return lambda x: w / (w * w + (x - c) ** 2)
    if name == "disc":
        return lambda x: 1.0 if x > c else -0.5
    if name == "kink":
        return lambda x: abs(x - c)
    if name == "sing_end":
        return lambda x: 1 / math.sqrt(x - a) if x > a else math.inf
    if name == "sing_in":
        return lambda x: 1 / math.sqrt(abs(x - c)) if x != c else math.inf
    if name == "nonfinite":
        return lambda x: math.nan if abs(x - c) < w else (math.inf if abs(x - a) < w else math.sin(k * x))
    if name == "osc":
        return lambda x: math.sin(1 / (abs(x - c) + w))
    if name == "zero":
        return lambda x: 0.0
    if name == "diverge":
        return lambda x: 1 / abs(x - c) if x != c else math.inf
    raise ValueError(name)


BOUNDS = [(-1.0, 1.0), (0.0, 1.0), (0.0, 3.5), (-2000.0, 1000.0), (1e-3, 2e-3), (-1.0, 1.0), (2.0, 3.0)]


def make_session(meta):
    f = make_f(meta["family"], random.Random(meta["fseed"]), tuple(meta["bounds"]))
    s = Session(f, tuple(meta["bounds"]), meta["tol"], meta["max_ivals"])
    s.meta = dict(meta)
    s.hist = []
    return s


def run_history(seed, max_points):
    """one seeded runner-like history; returns the Session (protocol lines, expected outputs, abstract history)"""
    rng = random.Random(seed)
    meta = {"seed": seed, "family": rng.choice(FAMILIES), "bounds": rng.choice(BOUNDS), "tol": 10 ** rng.uniform(-10, -3),
            "max_ivals": rng.choice([1000, 1000, 1000, 3, 6, 12]), "fseed": rng.randrange(1 << 30)}
    s = make_session(meta)
    bounds = meta["bounds"]
    ntasks = rng.choice([1, 2, 4, 8, 16, 40])
    if rng.random() < 0.25:
        return _burst_history(s, rng, max_points)
    p_nocommit = rng.choice([0.0, 0.0, 0.1, 0.3])
    p_foreign = rng.choice([0.0, 0.05])
    out = []  # indices (into s.handed) handed out, not yet told
    stop = None
    for _ in range(100000):
        if len(s.handed) >= max_points and not out:
            break
        r = rng.random()
        if (r < 0.5 or not out) and len(s.handed) < max_points:
            n = rng.randint(1, ntasks) if rng.random() < 0.8 else rng.randint(1, 40)
            if rng.random() < p_nocommit:
                s.hist.append(["ask", n, 0])
                rr, _ = s.ask(n, commit=False)
                if rr in ("internal_error", "model_fuel"):
                    stop = rr
                    break
            k0 = len(s.handed)
            s.hist.append(["ask", n, 1])
            rr, pts = s.ask(n, commit=True)
            out += list(range(k0, len(s.handed)))
            if rr in ("internal_error", "model_fuel"):
                stop = rr
                break
            if rr == "runtime_error" and not out:
                stop = rr
                break
        elif out:
            if rng.random() < p_foreign:
                x = rng.uniform(*bounds)
                if x not in s.l.x_mapping:
                    s.hist.append(["foreign", x])
                    s.tell(x, 1.0, foreign=True)
                    s.stats["foreign_tell"] = s.stats.get("foreign_tell", 0) + 1
            rng.shuffle(out)
            k = rng.randint(1, len(out))
            for i in out[:k]:
                s.hist.append(["tell", i])
                rr = s.tell(s.handed[i])
                if rr in ("internal_error", "divergent"):
                    stop = rr
                    break
            out = out[k:]
            if stop:
                break
        if rng.random() < 0.04:
            s.cutcheck()
        if s.nan_err():
            stop = "nan_err"  # max() over a hash set with NaN keys depends on the set's iteration order
            break
        if s.canonical_done() and rng.random() < 0.3:
            stop = "done"
            break
    s.meta["stop"] = stop
    if stop not in ("internal_error", "model_fuel"):
        s.cutcheck()
    return s


def _burst_history(s, rng, max_points):
    """large requests, (almost) everything delivered before the next request: many intervals complete, get queued for
    a forced split, removed or pruned between two requests"""
    s.meta["mode"] = "burst"
    out, stop = [], None
    while len(s.handed) < max_points and not stop:
        n = rng.choice([20, 30, 40])
        k0 = len(s.handed)
        s.hist.append(["ask", n, 1])
        rr, _ = s.ask(n)
        out += list(range(k0, len(s.handed)))
        if rr != "ok":
            stop = rr
            break
        rng.shuffle(out)
        keep = rng.choice([0, 0, 3, 10])
        for i in out[:max(0, len(out) - keep)]:
            s.hist.append(["tell", i])
            rr = s.tell(s.handed[i])
            if rr != "ok":
                stop = rr
                break
        out = out[max(0, len(out) - keep):]
        if s.nan_err():
            stop = "nan_err"
        if rng.random() < 0.1:
            s.cutcheck()
    s.meta["stop"] = stop
    if stop not in ("internal_error", "model_fuel"):
        s.cutcheck()
    return s


def replay_history(meta, hist):
    """re-run an abstract history ([ask n commit] / [tell k] = k-th abscissa handed out / [foreign x]); entries that
    are not applicable (k not handed out yet, already told) are skipped, so any sub-list of a history is a history"""
    s = make_session(meta)
    told = set()
    stop = None
    for op in hist:
        if op[0] == "ask":
            rr, _ = s.ask(int(op[1]), commit=bool(op[2]))
        elif op[0] == "tell":
            k = int(op[1])
            if k >= len(s.handed) or k in told:
                continue
            told.add(k)
            rr = s.tell(s.handed[k])
        else:
            if op[1] in s.l.x_mapping:
                continue
            rr = s.tell(op[1], 1.0, foreign=True)
        s.hist.append(list(op))
        if rr in ("internal_error", "divergent", "model_fuel"):
            stop = rr
            break
    s.meta["stop"] = stop
    return s


def shrink(meta, hist, pred, budget=400):
    """delta debugging on the abstract history: drop chunks, then lower request sizes; `pred(session)` = still fails"""
    def ok(h):
        nonlocal budget
        budget -= 1
        try:
            return pred(replay_history(meta, h))
        except Exception:  # noqa: BLE001
            return False
    cur = list(hist)
    chunk = max(1, len(cur) // 2)
    while chunk >= 1 and budget > 0:
        i, changed = 0, False
        while i < len(cur) and budget > 0:
            cand = cur[:i] + cur[i + chunk:]
            if cand and ok(cand):
                cur, changed = cand, True
            else:
                i += chunk
        if not changed:
            chunk //= 2
    for i, op in enumerate(cur):
        while op[0] == "ask" and op[1] > 1 and budget > 0:
            cand = cur[:i] + [["ask", op[1] - 1, op[2]]] + cur[i + 1:]
            if ok(cand):
                cur, op = cand, cand[i]
            else:
                break
    return cur
