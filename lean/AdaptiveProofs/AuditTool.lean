import Lean
/-!
`#audit_module M` prints, for every theorem declared in module `M` (internal
auxiliary declarations excluded), one line
`AUDIT <name> | <axiom> <axiom> …`
The check script compares the axiom lists with the allowed set
{propext, Classical.choice, Quot.sound} and counts obligations from this output,
so the obligation count is measured from the compiled environment, not by hand.
-/
open Lean Elab Command

elab "#audit_module " id:ident : command => do
  let env ← getEnv
  let modName := id.getId
  let some idx := env.getModuleIdx? modName
    | throwError "unknown module {modName}"
  let decls := env.header.moduleData[idx.toNat]!.constNames
  for n in decls do
    if n.isInternalDetail then continue
    if (match n with | .str _ s => s.startsWith "eq_" || s.startsWith "match_" | _ => false) then continue
    match env.find? n with
    | some (.thmInfo _) =>
      let axs ← collectAxioms n
      let axs := axs.qsort (fun a b => a.toString < b.toString)
      IO.println s!"AUDIT {n} | {" ".intercalate (axs.toList.map toString)}"
    | _ => pure ()
