import AdaptiveProofs.Lemmas.PrimsDefs
import Mathlib.Tactic.Ring
import Mathlib.Tactic.LinearCombination
import Mathlib.Tactic.Linarith
import Mathlib.Tactic.FieldSimp
import Mathlib.Data.List.Basic
import Mathlib.Algebra.Order.Ring.Abs

/-!
Closed forms of the remaining generated primitives (`rfl` against the regenerated definitions) and
the algebra used by `Props/C20.lean`.
-/
set_option linter.unusedSectionVars false
namespace Prims
open Gen.Prims
variable {α : Type} [Field α] [LinearOrder α] [IsStrictOrderedRing α]

/-! ### point in triangle -/

/-- the code's `s` and `t` (computed relative to the first vertex since the repair of the absolute-coordinate
formula, `fix: fast_2d_point_in_simplex …`) -/
def pisS (px py p0x p0y p1x p1y p2x p2y : α) : α :=
  1 / (2 * (1 / 2 * ((p1x - p0x) * (p2y - p0y) - (p1y - p0y) * (p2x - p0x))))
    * ((p2y - p0y) * (px - p0x) - (p2x - p0x) * (py - p0y))
def pisT (px py p0x p0y p1x p1y p2x p2y : α) : α :=
  1 / (2 * (1 / 2 * ((p1x - p0x) * (p2y - p0y) - (p1y - p0y) * (p2x - p0x))))
    * ((p1x - p0x) * (py - p0y) - (p1y - p0y) * (px - p0x))

theorem pis_closed (px py p0x p0y p1x p1y p2x p2y eps : α) :
    fast_2d_point_in_simplex px py p0x p0y p1x p1y p2x p2y eps =
      if pisS px py p0x p0y p1x p1y p2x p2y < -eps ∨ pisS px py p0x p0y p1x p1y p2x p2y > 1 + eps then false
      else decide (pisT px py p0x p0y p1x p1y p2x p2y ≥ -eps ∧
                   pisS px py p0x p0y p1x p1y p2x p2y + pisT px py p0x p0y p1x p1y p2x p2y ≤ 1 + eps) :=
  rfl

theorem pis_iff (px py p0x p0y p1x p1y p2x p2y eps : α) :
    fast_2d_point_in_simplex px py p0x p0y p1x p1y p2x p2y eps = true ↔
      (-eps ≤ pisS px py p0x p0y p1x p1y p2x p2y ∧ pisS px py p0x p0y p1x p1y p2x p2y ≤ 1 + eps) ∧
      -eps ≤ pisT px py p0x p0y p1x p1y p2x p2y ∧
      pisS px py p0x p0y p1x p1y p2x p2y + pisT px py p0x p0y p1x p1y p2x p2y ≤ 1 + eps := by
  rw [pis_closed]
  split
  · rename_i h
    constructor
    · intro h'; exact absurd h' (by simp)
    · rintro ⟨⟨h1, h2⟩, _⟩
      rcases h with h | h
      · exact absurd h1 (not_le.mpr h)
      · exact absurd h2 (not_le.mpr h)
  · rename_i h
    rw [not_or, not_lt, not_lt] at h
    simp only [decide_eq_true_eq, ge_iff_le]
    exact ⟨fun h' => ⟨h, h'⟩, fun h' => h'.2⟩

theorem pisS_eq_bary1 (px py p0x p0y p1x p1y p2x p2y : α) :
    pisS px py p0x p0y p1x p1y p2x p2y = bary1 px py p0x p0y p1x p1y p2x p2y := by
  simp only [pisS, bary1, cross2]
  rw [one_div_mul_eq_div]
  congr 1 <;> ring

theorem pisT_eq_bary2 (px py p0x p0y p1x p1y p2x p2y : α) :
    pisT px py p0x p0y p1x p1y p2x p2y = bary2 px py p0x p0y p1x p1y p2x p2y := by
  simp only [pisT, bary2, cross2]
  rw [one_div_mul_eq_div]
  congr 1 <;> ring

theorem bary_sum (px py x0 y0 x1 y1 x2 y2 : α) (h : cross2 x0 y0 x1 y1 x2 y2 ≠ 0) :
    bary0 px py x0 y0 x1 y1 x2 y2 + bary1 px py x0 y0 x1 y1 x2 y2 + bary2 px py x0 y0 x1 y1 x2 y2 = 1 := by
  simp only [bary0, bary1, bary2]
  rw [← add_div, ← add_div, div_eq_one_iff_eq h]
  simp only [cross2]; ring

/-- the barycentric coordinates reproduce the point -/
theorem bary_combination (px py x0 y0 x1 y1 x2 y2 : α) (h : cross2 x0 y0 x1 y1 x2 y2 ≠ 0) :
    px = bary0 px py x0 y0 x1 y1 x2 y2 * x0 + bary1 px py x0 y0 x1 y1 x2 y2 * x1 + bary2 px py x0 y0 x1 y1 x2 y2 * x2 ∧
    py = bary0 px py x0 y0 x1 y1 x2 y2 * y0 + bary1 px py x0 y0 x1 y1 x2 y2 * y1 + bary2 px py x0 y0 x1 y1 x2 y2 * y2 := by
  simp only [bary0, bary1, bary2]
  constructor
  · rw [div_mul_eq_mul_div, div_mul_eq_mul_div, div_mul_eq_mul_div, ← add_div, ← add_div, eq_div_iff h]
    simp only [cross2]; ring
  · rw [div_mul_eq_mul_div, div_mul_eq_mul_div, div_mul_eq_mul_div, ← add_div, ← add_div, eq_div_iff h]
    simp only [cross2]; ring

/-- … and are the only coefficients summing to one that do -/
theorem bary_unique {px py x0 y0 x1 y1 x2 y2 l0 l1 l2 : α} (h : cross2 x0 y0 x1 y1 x2 y2 ≠ 0)
    (hs : l0 + l1 + l2 = 1) (hx : px = l0 * x0 + l1 * x1 + l2 * x2) (hy : py = l0 * y0 + l1 * y1 + l2 * y2) :
    l0 = bary0 px py x0 y0 x1 y1 x2 y2 ∧ l1 = bary1 px py x0 y0 x1 y1 x2 y2 ∧ l2 = bary2 px py x0 y0 x1 y1 x2 y2 := by
  have e0 : l0 = 1 - l1 - l2 := by linear_combination hs
  subst hx hy e0
  simp only [bary0, bary1, bary2]
  refine ⟨?_, ?_, ?_⟩ <;> rw [eq_div_iff h] <;> simp only [cross2] <;> ring

/-! ### Heron -/

/-- Heron's radicand as a polynomial in the squared side lengths -/
theorem heron_poly (a b c : α) :
    (1 / 2 * (a + b + c)) * ((1 / 2 * (a + b + c)) - a) * ((1 / 2 * (a + b + c)) - b) * ((1 / 2 * (a + b + c)) - c)
      = (2 * (a * a) * (b * b) + 2 * (b * b) * (c * c) + 2 * (c * c) * (a * a)
          - (a * a) * (a * a) - (b * b) * (b * b) - (c * c) * (c * c)) / 16 := by
  ring

/-- the Gram determinant of two edge vectors of a planar triangle, in the squared side lengths -/
theorem gram_poly (x0 y0 x1 y1 x2 y2 : α) :
    (2 * dsq2 x0 y0 x1 y1 * dsq2 x0 y0 x2 y2 + 2 * dsq2 x0 y0 x2 y2 * dsq2 x1 y1 x2 y2
        + 2 * dsq2 x1 y1 x2 y2 * dsq2 x0 y0 x1 y1
        - dsq2 x0 y0 x1 y1 * dsq2 x0 y0 x1 y1 - dsq2 x0 y0 x2 y2 * dsq2 x0 y0 x2 y2
        - dsq2 x1 y1 x2 y2 * dsq2 x1 y1 x2 y2) / 16
      = cross2 x0 y0 x1 y1 x2 y2 * cross2 x0 y0 x1 y1 x2 y2 / 4 := by
  simp only [dsq2, cross2]; ring

theorem heron_closed (sqrt : α → α) (x0 y0 x1 y1 x2 y2 : α) :
    simplex_volume_heron_radicand sqrt x0 y0 x1 y1 x2 y2 =
      (1 / 2 * (sqrt (dsq2 x0 y0 x1 y1) + sqrt (dsq2 x0 y0 x2 y2) + sqrt (dsq2 x1 y1 x2 y2)))
      * ((1 / 2 * (sqrt (dsq2 x0 y0 x1 y1) + sqrt (dsq2 x0 y0 x2 y2) + sqrt (dsq2 x1 y1 x2 y2))) - sqrt (dsq2 x0 y0 x1 y1))
      * ((1 / 2 * (sqrt (dsq2 x0 y0 x1 y1) + sqrt (dsq2 x0 y0 x2 y2) + sqrt (dsq2 x1 y1 x2 y2))) - sqrt (dsq2 x0 y0 x2 y2))
      * ((1 / 2 * (sqrt (dsq2 x0 y0 x1 y1) + sqrt (dsq2 x0 y0 x2 y2) + sqrt (dsq2 x1 y1 x2 y2))) - sqrt (dsq2 x1 y1 x2 y2)) :=
  rfl

theorem dsq2_nonneg (ax ay bx by' : α) : 0 ≤ dsq2 ax ay bx by' :=
  add_nonneg (mul_self_nonneg _) (mul_self_nonneg _)

theorem dsq3_nonneg (ax ay az bx by' bz : α) : 0 ≤ dsq3 ax ay az bx by' bz :=
  add_nonneg (add_nonneg (mul_self_nonneg _) (mul_self_nonneg _)) (mul_self_nonneg _)

/-! ### linspace -/
theorem linspace_closed (l r : α) (n : Nat) :
    l1d_linspace l r n =
      if n = 1 then [] else (List.range' 1 (n - 1)).map (fun i : Nat => l + (r - l) / (n : α) * (i : α)) :=
  rfl

/-! ### orthogonal maps of space (rigid motions fixing the origin) -/
section orth3
variable (m11 m12 m13 m21 m22 m23 m31 m32 m33 : α)

/-- determinant of the 3×3 matrix `m` -/
def det3 : α :=
  m11 * (m22 * m33 - m23 * m32) - m12 * (m21 * m33 - m23 * m31) + m13 * (m21 * m32 - m22 * m31)

/-- `mᵀ m = 1` (the columns are orthonormal) -/
def Orth3 : Prop :=
  m11 * m11 + m21 * m21 + m31 * m31 = 1 ∧ m12 * m12 + m22 * m22 + m32 * m32 = 1 ∧ m13 * m13 + m23 * m23 + m33 * m33 = 1 ∧
  m11 * m12 + m21 * m22 + m31 * m32 = 0 ∧ m11 * m13 + m21 * m23 + m31 * m33 = 0 ∧ m12 * m13 + m22 * m23 + m32 * m33 = 0

variable {m11 m12 m13 m21 m22 m23 m31 m32 m33}

/-- `det(m)² = det(mᵀ m) = 1` -/
theorem det3_sq_of_orth (h : Orth3 m11 m12 m13 m21 m22 m23 m31 m32 m33) :
    det3 m11 m12 m13 m21 m22 m23 m31 m32 m33 * det3 m11 m12 m13 m21 m22 m23 m31 m32 m33 = 1 := by
  obtain ⟨h11, h22, h33, h12, h13, h23⟩ := h
  simp only [det3]
  linear_combination
    (1 + (m12 * m12 + m22 * m22 + m32 * m32 - 1) + (m13 * m13 + m23 * m23 + m33 * m33 - 1)
        + ((m12 * m12 + m22 * m22 + m32 * m32 - 1) * (m13 * m13 + m23 * m23 + m33 * m33 - 1)
            - (m12 * m13 + m22 * m23 + m32 * m33) * (m12 * m13 + m22 * m23 + m32 * m33))) * h11
    + (1 + (m13 * m13 + m23 * m23 + m33 * m33 - 1)) * h22
    + (1 : α) * h33
    + (-(m11 * m12 + m21 * m22 + m31 * m32)
        - ((m11 * m12 + m21 * m22 + m31 * m32) * (m13 * m13 + m23 * m23 + m33 * m33 - 1)
            - (m12 * m13 + m22 * m23 + m32 * m33) * (m11 * m13 + m21 * m23 + m31 * m33))) * h12
    + (-(m11 * m13 + m21 * m23 + m31 * m33)
        + ((m11 * m12 + m21 * m22 + m31 * m32) * (m12 * m13 + m22 * m23 + m32 * m33)
            - (m12 * m12 + m22 * m22 + m32 * m32 - 1) * (m11 * m13 + m21 * m23 + m31 * m33))) * h13
    + (-(m12 * m13 + m22 * m23 + m32 * m33)) * h23

theorem det3_ne_zero_of_orth (h : Orth3 m11 m12 m13 m21 m22 m23 m31 m32 m33) :
    det3 m11 m12 m13 m21 m22 m23 m31 m32 m33 ≠ 0 := by
  intro h0
  have := det3_sq_of_orth h
  rw [h0] at this
  simp at this

theorem abs_det3_of_orth (h : Orth3 m11 m12 m13 m21 m22 m23 m31 m32 m33) :
    |det3 m11 m12 m13 m21 m22 m23 m31 m32 m33| = 1 := by
  have h1 := abs_mul_abs_self (det3 m11 m12 m13 m21 m22 m23 m31 m32 m33)
  rw [det3_sq_of_orth h] at h1
  have h0 : 0 ≤ |det3 m11 m12 m13 m21 m22 m23 m31 m32 m33| := abs_nonneg _
  nlinarith [h1, h0]

/-- an orthogonal map preserves distances -/
theorem dsq3_orth (h : Orth3 m11 m12 m13 m21 m22 m23 m31 m32 m33) (a b c d e f : α) :
    dsq3 (m11 * a + m12 * b + m13 * c) (m21 * a + m22 * b + m23 * c) (m31 * a + m32 * b + m33 * c)
         (m11 * d + m12 * e + m13 * f) (m21 * d + m22 * e + m23 * f) (m31 * d + m32 * e + m33 * f)
      = dsq3 a b c d e f := by
  obtain ⟨h11, h22, h33, h12, h13, h23⟩ := h
  simp only [dsq3]
  linear_combination ((a - d) * (a - d)) * h11 + ((b - e) * (b - e)) * h22 + ((c - f) * (c - f)) * h33
    + (2 * (a - d) * (b - e)) * h12 + (2 * (a - d) * (c - f)) * h13 + (2 * (b - e) * (c - f)) * h23

/-- a linear map multiplies the orientation determinant by its determinant -/
theorem cross3_linear (m11 m12 m13 m21 m22 m23 m31 m32 m33 x0 y0 z0 x1 y1 z1 x2 y2 z2 x3 y3 z3 : α) :
    cross3 (m11 * x0 + m12 * y0 + m13 * z0) (m21 * x0 + m22 * y0 + m23 * z0) (m31 * x0 + m32 * y0 + m33 * z0)
           (m11 * x1 + m12 * y1 + m13 * z1) (m21 * x1 + m22 * y1 + m23 * z1) (m31 * x1 + m32 * y1 + m33 * z1)
           (m11 * x2 + m12 * y2 + m13 * z2) (m21 * x2 + m22 * y2 + m23 * z2) (m31 * x2 + m32 * y2 + m33 * z2)
           (m11 * x3 + m12 * y3 + m13 * z3) (m21 * x3 + m22 * y3 + m23 * z3) (m31 * x3 + m32 * y3 + m33 * z3)
      = det3 m11 m12 m13 m21 m22 m23 m31 m32 m33 * cross3 x0 y0 z0 x1 y1 z1 x2 y2 z2 x3 y3 z3 := by
  simp only [cross3, det3]; ring

end orth3

end Prims
