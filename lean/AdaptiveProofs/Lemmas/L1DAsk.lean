import AdaptiveProofs.Lemmas.L1DDefs
import Mathlib.Tactic.Ring
import Mathlib.Tactic.Linarith
import Mathlib.Tactic.FieldSimp
import Mathlib.Data.List.Basic
import Mathlib.Data.List.Nodup
import Mathlib.Data.List.Perm.Basic

/-! Properties of the point-suggestion algorithm of the Learner1D model:
`linspace`, `qinsert`, `askLoop`, `askPoints`, `ask`. -/
set_option linter.unusedSectionVars false
namespace L1D
variable {α : Type} [Field α] [LinearOrder α] [IsStrictOrderedRing α]

/-! ### 1. `linspace` -/

theorem linspace_length (xl xr : α) (n : Nat) : (linspace xl xr n).length = n - 1 := by
  unfold linspace
  split
  · subst n; rfl
  · simp only [List.length_map, List.length_range]

theorem linspace_eq_map (xl xr : α) (n : Nat) :
    linspace xl xr n =
      (List.range (n - 1)).map (fun i => xl + (xr - xl) / (n : α) * ((i + 1 : Nat) : α)) := by
  unfold linspace
  split
  · subst n; rfl
  · rfl

/-- the `i`-th element of `linspace xl xr n` is `xl + (xr - xl) / n * (i + 1)` -/
theorem linspace_getElem? (xl xr : α) (n i : Nat) :
    (linspace xl xr n)[i]? =
      if i < n - 1 then some (xl + (xr - xl) / (n : α) * ((i : α) + 1)) else none := by
  rw [linspace_eq_map, List.getElem?_map]
  by_cases h : i < n - 1
  · rw [List.getElem?_range h, if_pos h]; simp
  · rw [if_neg h, List.getElem?_eq_none (by simpa using h)]; rfl

theorem linspace_getElem (xl xr : α) (n i : Nat) (h : i < (linspace xl xr n).length) :
    (linspace xl xr n)[i] = xl + (xr - xl) / (n : α) * ((i : α) + 1) := by
  have h' : i < n - 1 := by rwa [linspace_length] at h
  have := linspace_getElem? xl xr n i
  rw [if_pos h', List.getElem?_eq_getElem h] at this
  exact Option.some.inj this

theorem mem_linspace {xl xr : α} {n : Nat} {x : α} :
    x ∈ linspace xl xr n ↔ ∃ i : Nat, i + 1 < n ∧ x = xl + (xr - xl) / (n : α) * ((i : α) + 1) := by
  rw [linspace_eq_map]
  simp only [List.mem_map, List.mem_range, Nat.cast_add, Nat.cast_one]
  constructor
  · rintro ⟨i, hi, rfl⟩; exact ⟨i, by omega, rfl⟩
  · rintro ⟨i, hi, rfl⟩; exact ⟨i, by omega, rfl⟩

/-- all elements of `linspace` lie strictly between the end points -/
theorem linspace_between {xl xr : α} {n : Nat} (hlt : xl < xr) {x : α}
    (hx : x ∈ linspace xl xr n) : xl < x ∧ x < xr := by
  obtain ⟨i, hi, rfl⟩ := mem_linspace.1 hx
  have hn : (0 : α) < (n : α) := by exact_mod_cast (by omega : 0 < n)
  have hd : 0 < xr - xl := sub_pos.2 hlt
  have hstep : 0 < (xr - xl) / (n : α) := div_pos hd hn
  have hi1 : (0 : α) < (i : α) + 1 := by positivity
  have hin : (i : α) + 1 < (n : α) := by exact_mod_cast hi
  have e : (xr - xl) / (n : α) * (n : α) = xr - xl := div_mul_cancel₀ _ (ne_of_gt hn)
  constructor
  · have := mul_pos hstep hi1; linarith
  · have := mul_lt_mul_of_pos_left hin hstep; linarith

/-- `linspace` is strictly increasing -/
theorem linspace_sorted {xl xr : α} (n : Nat) (hlt : xl < xr) :
    (linspace xl xr n).Pairwise (· < ·) := by
  rw [linspace_eq_map, List.pairwise_map]
  by_cases hn0 : n = 0
  · subst hn0; simp
  have hn : (0 : α) < (n : α) := by exact_mod_cast (by omega : 0 < n)
  have hstep : 0 < (xr - xl) / (n : α) := div_pos (sub_pos.2 hlt) hn
  refine List.Pairwise.imp ?_ List.pairwise_lt_range
  intro a b hab
  have : ((a + 1 : Nat) : α) < ((b + 1 : Nat) : α) := by exact_mod_cast (by omega : a + 1 < b + 1)
  have := mul_lt_mul_of_pos_left this hstep
  linarith

theorem linspace_nodup {xl xr : α} (n : Nat) (hlt : xl < xr) : (linspace xl xr n).Nodup :=
  (linspace_sorted n hlt).imp (fun h => ne_of_lt h)

/-! ### 2. `qinsert` -/

theorem qinsert_perm (r12 : α → α) (sc : α) (q : Qual α) (l : List (Qual α)) :
    (qinsert r12 sc q l).Perm (q :: l) := by
  induction l with
  | nil => exact List.Perm.refl _
  | cons f r ih =>
    unfold qinsert
    split
    · exact List.Perm.refl _
    · exact (List.Perm.cons f ih).trans (List.Perm.swap q f r)

theorem mem_qinsert {r12 : α → α} {sc : α} {q x : Qual α} {l : List (Qual α)} :
    x ∈ qinsert r12 sc q l ↔ x = q ∨ x ∈ l := by
  rw [(qinsert_perm r12 sc q l).mem_iff, List.mem_cons]

theorem qinsert_ne_nil (r12 : α → α) (sc : α) (q : Qual α) (l : List (Qual α)) :
    qinsert r12 sc q l ≠ [] := by
  intro h
  have := (qinsert_perm r12 sc q l).length_eq
  rw [h] at this
  simp at this

/-! ### 3. counting the points -/

/-- number of points the quals stand for -/
def npts (qs : List (Qual α)) : Nat := (qs.map (fun q => q.n - 1)).sum

theorem npts_perm {l1 l2 : List (Qual α)} (h : l1.Perm l2) : npts l1 = npts l2 :=
  (h.map _).sum_nat

theorem npts_qinsert (r12 : α → α) (sc : α) (q : Qual α) (l : List (Qual α)) :
    npts (qinsert r12 sc q l) = (q.n - 1) + npts l := by
  rw [npts_perm (qinsert_perm r12 sc q l)]
  simp only [npts, List.map_cons, List.sum_cons]

/-- the entry a new interval gets in `quals` -/
abbrev newQual (e : Ival α × Loss α) : Qual α := ⟨e.1.1, e.1.2, 2, Loss.divNat e.2 2⟩
/-- the entry of an interval that is divided once more -/
abbrev incQual (q : Qual α) : Qual α :=
  ⟨q.l, q.r, q.n + 1, Loss.mulNatDivNat q.loss q.n (q.n + 1)⟩

/-- invariant rule for the greedy loop -/
theorem askLoop_invariant (r12 : α → α) (s : State α) (P : Nat → List (Qual α) → Prop)
    (hnew : ∀ i quals e, s.lossesC[i]? = some e → P i quals →
      P (i + 1) (qinsert r12 s.scaleX (newQual e) quals))
    (hinc : ∀ i q rest, P i (q :: rest) → P i (qinsert r12 s.scaleX (incQual q) rest))
    (k i : Nat) (quals : List (Qual α)) (h : P i quals) :
    ∃ j, P j (askLoop r12 s k i quals) := by
  fun_induction askLoop r12 s k i quals with
  | case1 i quals => exact ⟨i, h⟩
  | case2 k i ival e he ih => exact ih (hnew i [] e he h)
  | case3 k i ival q rest e he hge ih => exact ih (hnew i (q :: rest) e he h)
  | case4 k i ival q rest e he hge ih => exact ih (hinc i q rest h)
  | case5 k i ival q rest he ih => exact ih (hinc i q rest h)
  | case6 k i ival he => exact ⟨i, h⟩

theorem askLoop_n_pos (r12 : α → α) (s : State α) (k i : Nat) (quals : List (Qual α))
    (hn : ∀ q ∈ quals, 1 ≤ q.n) : ∀ q ∈ askLoop r12 s k i quals, 1 ≤ q.n := by
  obtain ⟨_, h⟩ := askLoop_invariant r12 s (fun _ qs => ∀ q ∈ qs, 1 ≤ q.n)
    (by
      intro i quals e _ h q hq
      rcases mem_qinsert.1 hq with rfl | hq
      · exact Nat.le_succ 1
      · exact h q hq)
    (by
      intro i q rest h x hx
      rcases mem_qinsert.1 hx with rfl | hx
      · exact Nat.le_add_left 1 _
      · exact h x (List.mem_cons_of_mem _ hx)) k i quals hn
  exact h

theorem askLoop_npts_gen (r12 : α → α) (s : State α) (k i : Nat) (quals : List (Qual α))
    (hne : i < s.lossesC.length ∨ quals ≠ []) (hn : ∀ q ∈ quals, 1 ≤ q.n) :
    npts (askLoop r12 s k i quals) = npts quals + k := by
  have hnew : ∀ (e : Ival α × Loss α) (qs : List (Qual α)), (∀ q ∈ qs, 1 ≤ q.n) →
      ∀ q ∈ qinsert r12 s.scaleX (newQual e) qs, 1 ≤ q.n := by
    intro e qs h q hq
    rcases mem_qinsert.1 hq with rfl | hq
    · exact Nat.le_succ 1
    · exact h q hq
  have hinc : ∀ (q : Qual α) (rest : List (Qual α)), (∀ x ∈ q :: rest, 1 ≤ x.n) →
      ∀ x ∈ qinsert r12 s.scaleX (incQual q) rest, 1 ≤ x.n := by
    intro q rest h x hx
    rcases mem_qinsert.1 hx with rfl | hx
    · exact Nat.le_add_left 1 _
    · exact h x (List.mem_cons_of_mem _ hx)
  have hincn : ∀ (q : Qual α) (rest : List (Qual α)), 1 ≤ q.n →
      npts (qinsert r12 s.scaleX (incQual q) rest) = npts (q :: rest) + 1 := by
    intro q rest h1
    rw [npts_qinsert]
    simp only [npts, List.map_cons, List.sum_cons]
    omega
  have hnewn : ∀ (e : Ival α × Loss α) (qs : List (Qual α)),
      npts (qinsert r12 s.scaleX (newQual e) qs) = npts qs + 1 := by
    intro e qs
    rw [npts_qinsert]
    exact Nat.add_comm _ _
  fun_induction askLoop r12 s k i quals with
  | case1 i quals => rfl
  | case2 k i ival e he ih =>
    rw [ih (Or.inr (qinsert_ne_nil _ _ _ _)) (hnew e [] hn), hnewn]
    omega
  | case3 k i ival q rest e he hge ih =>
    rw [ih (Or.inr (qinsert_ne_nil _ _ _ _)) (hnew e _ hn), hnewn]
    omega
  | case4 k i ival q rest e he hge ih =>
    rw [ih (Or.inr (qinsert_ne_nil _ _ _ _)) (hinc q rest hn),
      hincn q rest (hn q List.mem_cons_self)]
    omega
  | case5 k i ival q rest he ih =>
    rw [ih (Or.inr (qinsert_ne_nil _ _ _ _)) (hinc q rest hn),
      hincn q rest (hn q List.mem_cons_self)]
    omega
  | case6 k i ival he =>
    exfalso
    rcases hne with h | h
    · have : s.lossesC[i]? = none := he
      rw [List.getElem?_eq_none_iff] at this
      omega
    · exact h rfl

/-- Target 3. Each iteration of the greedy loop adds exactly one point. -/
theorem askLoop_npts (r12 : α → α) (s : State α) (k : Nat) (quals0 : List (Qual α))
    (hne : s.lossesC ≠ [] ∨ quals0 ≠ []) (hn : ∀ q ∈ quals0, 1 ≤ q.n) :
    npts (askLoop r12 s k 0 quals0) = npts quals0 + k := by
  refine askLoop_npts_gen r12 s k 0 quals0 ?_ hn
  rcases hne with h | h
  · exact Or.inl (List.length_pos_iff.2 h)
  · exact Or.inr h

/-! ### 4. the result of `askPoints` -/

theorem foldl_qinsert_perm (r12 : α → α) (sc : α) (l acc : List (Qual α)) :
    (l.foldl (fun qs q => qinsert r12 sc q qs) acc).Perm (l ++ acc) := by
  induction l generalizing acc with
  | nil => exact List.Perm.refl _
  | cons q l ih =>
    rw [List.foldl_cons]
    refine (ih _).trans ?_
    refine ((qinsert_perm r12 sc q acc).append_left l).trans ?_
    exact List.perm_middle

/-- the two bound intervals (in the order the code creates them) -/
def boundQuals (s : State α) : List (Qual α) :=
  (if s.lo ∈ missingBounds s then
      [(⟨s.lo, minOfL (s.data.map Prod.fst ++ s.pending), 1, .inf⟩ : Qual α)] else []) ++
  (if s.hi ∈ missingBounds s then
      [(⟨maxOfL (s.data.map Prod.fst ++ s.pending), s.hi, 1, .inf⟩ : Qual α)] else [])

/-- the initial `quals` of `_ask_points_without_adding` -/
def quals0 (r12 : α → α) (s : State α) : List (Qual α) :=
  if (missingBounds s).isEmpty then [] else
    let all := s.data.map Prod.fst ++ s.pending
    let q1 := if (missingBounds s).contains s.lo then [(⟨s.lo, minOfL all, 1, .inf⟩ : Qual α)] else []
    let q2 := if (missingBounds s).contains s.hi then [(⟨maxOfL all, s.hi, 1, .inf⟩ : Qual α)] else []
    (q1 ++ q2).foldl (fun qs q => qinsert r12 s.scaleX q qs) []

/-- the final `quals` of `_ask_points_without_adding` -/
def askQuals (r12 : α → α) (s : State α) (n : Nat) : List (Qual α) :=
  askLoop r12 s (n - (missingBounds s).length) 0 (quals0 r12 s)

theorem mem_missingBounds {s : State α} {x : α} (h : x ∈ missingBounds s) :
    (x = s.lo ∨ x = s.hi) ∧ hasData s x = false ∧ x ∉ s.pending := by
  unfold missingBounds at h
  rw [List.mem_filter] at h
  obtain ⟨h1, h2⟩ := h
  simp only [Bool.and_eq_true, Bool.not_eq_true', List.contains_eq_mem, decide_eq_false_iff_not] at h2
  refine ⟨?_, h2.1, h2.2⟩
  split at h1
  · simp only [List.mem_singleton] at h1; exact Or.inl h1
  · simpa using h1

theorem quals0_perm (r12 : α → α) (s : State α) : (quals0 r12 s).Perm (boundQuals s) := by
  unfold quals0 boundQuals
  split
  · next h =>
    rw [List.isEmpty_iff] at h
    simp only [h, List.not_mem_nil, if_false, List.append_nil]
    exact List.Perm.refl _
  · simp only [List.contains_eq_mem, decide_eq_true_eq]
    refine (foldl_qinsert_perm r12 s.scaleX _ []).trans ?_
    rw [List.append_nil]

theorem mem_boundQuals {s : State α} {q : Qual α} (h : q ∈ boundQuals s) :
    q.n = 1 ∧ q.loss = .inf ∧
    ((s.lo ∈ missingBounds s ∧ q.l = s.lo ∧ q.r = minOfL (s.data.map Prod.fst ++ s.pending)) ∨
     (s.hi ∈ missingBounds s ∧ q.l = maxOfL (s.data.map Prod.fst ++ s.pending) ∧ q.r = s.hi)) := by
  unfold boundQuals at h
  rcases List.mem_append.1 h with h | h
  · split at h
    · next hm => rw [List.mem_singleton] at h; subst h; exact ⟨rfl, rfl, Or.inl ⟨hm, rfl, rfl⟩⟩
    · exact absurd h List.not_mem_nil
  · split at h
    · next hm => rw [List.mem_singleton] at h; subst h; exact ⟨rfl, rfl, Or.inr ⟨hm, rfl, rfl⟩⟩
    · exact absurd h List.not_mem_nil

theorem boundQuals_ne_nil {s : State α} (h : missingBounds s ≠ []) : boundQuals s ≠ [] := by
  obtain ⟨x, hx⟩ := List.exists_mem_of_ne_nil _ h
  unfold boundQuals
  rcases (mem_missingBounds hx).1 with rfl | rfl
  · rw [if_pos hx]; simp
  · rw [if_pos hx]; simp

theorem quals0_ne_nil (r12 : α → α) {s : State α} (h : missingBounds s ≠ []) :
    quals0 r12 s ≠ [] := by
  intro h0
  have := (quals0_perm r12 s).length_eq
  rw [h0] at this
  exact boundQuals_ne_nil h (List.length_eq_zero_iff.1 this.symm)

theorem quals0_n (r12 : α → α) (s : State α) : ∀ q ∈ quals0 r12 s, q.n = 1 := fun _ hq =>
  (mem_boundQuals ((quals0_perm r12 s).mem_iff.1 hq)).1

theorem npts_eq_zero {qs : List (Qual α)} (h : ∀ q ∈ qs, q.n = 1) : npts qs = 0 := by
  induction qs with
  | nil => rfl
  | cons q qs ih =>
    have := ih (fun x hx => h x (List.mem_cons_of_mem _ hx))
    simp only [npts, List.map_cons, List.sum_cons, h q List.mem_cons_self] at this ⊢
    omega

/-- the main branch of `askPoints`: missing bounds, then the subdivision of the chosen intervals -/
theorem askPoints_main (r12 : α → α) (s : State α) (n : Nat)
    (hn : (missingBounds s).length < n) (hd : s.data.length + s.pending.length ≠ 0) :
    askPoints r12 s n =
      (missingBounds s ++ (askQuals r12 s n).flatMap (fun q => linspace q.l q.r q.n),
       List.replicate (missingBounds s).length .inf ++
         (askQuals r12 s n).flatMap (fun q => List.replicate (q.n - 1) q.loss)) := by
  unfold askPoints
  rw [if_neg (by omega)]
  dsimp only
  rw [if_neg (by omega), if_neg hd]
  rfl

theorem askPoints_zero (r12 : α → α) (s : State α) : askPoints r12 s 0 = ([], []) := by
  unfold askPoints; rfl

theorem askPoints_bounds (r12 : α → α) (s : State α) (n : Nat)
    (hn : n ≤ (missingBounds s).length) :
    askPoints r12 s n = ((missingBounds s).take n, List.replicate n .inf) := by
  unfold askPoints
  split
  · subst n; rfl
  · dsimp only; rw [if_pos hn]

theorem askPoints_empty (r12 : α → α) (s : State α) (n : Nat)
    (hn : (missingBounds s).length < n) (hd : s.data.length + s.pending.length = 0) :
    askPoints r12 s n = (npLinspace s.lo s.hi n, List.replicate n .inf) := by
  unfold askPoints
  rw [if_neg (by omega)]
  dsimp only
  rw [if_neg (by omega), if_pos hd]

theorem npLinspace_length (a b : α) (n : Nat) : (npLinspace a b n).length = n := by
  unfold npLinspace
  split
  · subst n; rfl
  · split
    · subst n; rfl
    · simp only [List.length_append, List.length_map, List.length_range, List.length_singleton]
      omega

theorem length_flatMap_linspace (qs : List (Qual α)) :
    (qs.flatMap (fun q => linspace q.l q.r q.n)).length = npts qs := by
  induction qs with
  | nil => rfl
  | cons q qs ih =>
    rw [List.flatMap_cons, List.length_append, ih, linspace_length]
    simp only [npts, List.map_cons, List.sum_cons]

theorem length_flatMap_replicate (qs : List (Qual α)) :
    (qs.flatMap (fun q => List.replicate (q.n - 1) q.loss)).length = npts qs := by
  induction qs with
  | nil => rfl
  | cons q qs ih =>
    rw [List.flatMap_cons, List.length_append, ih, List.length_replicate]
    simp only [npts, List.map_cons, List.sum_cons]

theorem askQuals_npts (r12 : α → α) (s : State α) (n : Nat)
    (h : s.lossesC ≠ [] ∨ missingBounds s ≠ []) :
    npts (askQuals r12 s n) = n - (missingBounds s).length := by
  unfold askQuals
  rw [askLoop_npts r12 s _ _ (h.imp_right (quals0_ne_nil r12))
    (fun q hq => le_of_eq (quals0_n r12 s q hq).symm), npts_eq_zero (quals0_n r12 s)]
  exact Nat.zero_add _

/-- Target 4. `ask` returns exactly `n` points and `n` loss improvements, outside the case in which
the code crashes (points known, all bounds known, and no interval: a single known point with
`lo = hi`, or all known points outside ... ). -/
theorem ask_length (r12 : α → α) (s : State α) (n : Nat)
    (h : s.data.length + s.pending.length = 0 ∨ s.lossesC ≠ [] ∨ missingBounds s ≠ []) :
    (askPoints r12 s n).1.length = n ∧ (askPoints r12 s n).2.length = n := by
  by_cases hn : n ≤ (missingBounds s).length
  · rw [askPoints_bounds r12 s n hn]
    exact ⟨by rw [List.length_take]; omega, List.length_replicate⟩
  · have hn' : (missingBounds s).length < n := by omega
    by_cases hd : s.data.length + s.pending.length = 0
    · rw [askPoints_empty r12 s n hn' hd]
      exact ⟨npLinspace_length _ _ _, List.length_replicate⟩
    · have h' := h.resolve_left hd
      rw [askPoints_main r12 s n hn' hd]
      dsimp only
      rw [List.length_append, List.length_append, length_flatMap_linspace,
        length_flatMap_replicate, List.length_replicate, askQuals_npts r12 s n h']
      omega

/-! ### 5. bounds first; the empty learner -/

/-- Target 5a.  The missing bounds come first.  The prefix statement needs `data`/`pending` not both
empty: an empty learner returns `np.linspace(lo, hi, n)`, of which `[lo, hi]` is not a prefix
(see the counterexample below). -/
theorem ask_bounds_first (r12 : α → α) (s : State α) (n : Nat) :
    ((missingBounds s).length < n → s.data.length + s.pending.length ≠ 0 →
        missingBounds s <+: (askPoints r12 s n).1) ∧
    (n ≤ (missingBounds s).length → (askPoints r12 s n).1 = (missingBounds s).take n) := by
  constructor
  · intro hn hd
    rw [askPoints_main r12 s n hn hd]
    exact List.prefix_append _ _
  · intro hn
    rw [askPoints_bounds r12 s n hn]

theorem missingBounds_empty {s : State α} (hd : s.data = []) (hp : s.pending = []) :
    missingBounds s = if s.lo = s.hi then [s.lo] else [s.lo, s.hi] := by
  unfold missingBounds
  apply List.filter_eq_self.2
  intro a _
  simp [hasData, dataGet, hd, hp]

/-- Target 5b.  A learner without data and pending points returns `np.linspace(lo, hi, n)` as soon
as more points are requested than bounds are missing. -/
theorem ask_empty_uniform (r12 : α → α) (s : State α) (n : Nat)
    (hd : s.data = []) (hp : s.pending = []) (hn : (if s.lo = s.hi then 1 else 2) < n) :
    (askPoints r12 s n).1 = npLinspace s.lo s.hi n := by
  have hmb := missingBounds_empty hd hp
  rw [askPoints_empty r12 s n ?_ (by simp [hd, hp])]
  rw [hmb]
  split
  · next h => rwa [if_pos h] at hn
  · next h => rwa [if_neg h] at hn

/-- same with the hypothesis phrased with `missingBounds` -/
theorem ask_empty_uniform' (r12 : α → α) (s : State α) (n : Nat)
    (hd : s.data.length + s.pending.length = 0) (hn : (missingBounds s).length < n) :
    (askPoints r12 s n).1 = npLinspace s.lo s.hi n := by
  rw [askPoints_empty r12 s n hn hd]

/-! ### 6. equal parts of distinct intervals -/

/-- the interval of a `quals` entry -/
def qival (q : Qual α) : Ival α := (q.l, q.r)

theorem getElem?_mem_tkeys {l : List (Ival α × Loss α)} {i : Nat} {e : Ival α × Loss α}
    (h : l[i]? = some e) : e.1 ∈ tkeys l :=
  List.mem_map_of_mem (List.mem_of_getElem? h)

/-- every interval of the final `quals` is an interval of `losses_combined` or one of the initial
intervals -/
theorem askLoop_keys (r12 : α → α) (s : State α) (k i : Nat) (quals0 : List (Qual α)) :
    ∀ q ∈ askLoop r12 s k i quals0,
      (q.l, q.r) ∈ tkeys s.lossesC ∨ ∃ q0 ∈ quals0, q0.l = q.l ∧ q0.r = q.r := by
  obtain ⟨_, h⟩ := askLoop_invariant r12 s
    (fun _ qs => ∀ q ∈ qs, (q.l, q.r) ∈ tkeys s.lossesC ∨ ∃ q0 ∈ quals0, q0.l = q.l ∧ q0.r = q.r)
    (by
      intro i quals e he h q hq
      rcases mem_qinsert.1 hq with rfl | hq
      · exact Or.inl (getElem?_mem_tkeys he)
      · exact h q hq)
    (by
      intro i q rest h x hx
      rcases mem_qinsert.1 hx with rfl | hx
      · exact h q List.mem_cons_self
      · exact h x (List.mem_cons_of_mem _ hx)) k i quals0
    (fun q hq => Or.inr ⟨q, hq, rfl, rfl⟩)
  exact h

/-- distinct entries of the final `quals` have distinct intervals -/
theorem askLoop_nodup (r12 : α → α) (s : State α) (k i : Nat) (quals0 : List (Qual α))
    (hk : (tkeys s.lossesC).Nodup) (h0 : (quals0.map qival).Nodup)
    (h0k : ∀ q ∈ quals0, qival q ∉ (tkeys s.lossesC).drop i) :
    ((askLoop r12 s k i quals0).map qival).Nodup := by
  obtain ⟨_, h⟩ := askLoop_invariant r12 s
    (fun i qs => (qs.map qival).Nodup ∧ ∀ q ∈ qs, qival q ∉ (tkeys s.lossesC).drop i)
    (by
      intro i quals e he ⟨h1, h2⟩
      have hi : i < (tkeys s.lossesC).length := by
        simp only [tkeys, List.length_map]
        exact (List.getElem?_eq_some_iff.1 he).1
      have hei : (tkeys s.lossesC)[i] = e.1 := by
        simp only [tkeys, List.getElem_map]
        rw [(List.getElem?_eq_some_iff.1 he).2]
      have hdrop : (tkeys s.lossesC).drop i = e.1 :: (tkeys s.lossesC).drop (i + 1) := by
        rw [← hei]; exact List.drop_eq_getElem_cons hi
      have hnd : ((tkeys s.lossesC).drop i).Nodup := hk.sublist (List.drop_sublist _ _)
      rw [hdrop, List.nodup_cons] at hnd
      have hq : qival (newQual e) = e.1 := rfl
      constructor
      · rw [((qinsert_perm r12 s.scaleX (newQual e) quals).map qival).nodup_iff, List.map_cons,
          List.nodup_cons]
        refine ⟨?_, h1⟩
        intro hm
        obtain ⟨q, hq1, hq2⟩ := List.mem_map.1 hm
        apply h2 q hq1
        rw [hq2, hq, hdrop]
        exact List.mem_cons_self
      · intro q hq'
        rcases mem_qinsert.1 hq' with rfl | hq'
        · rw [hq]; exact hnd.1
        · intro hm
          apply h2 q hq'
          rw [hdrop]
          exact List.mem_cons_of_mem _ hm)
    (by
      intro i q rest ⟨h1, h2⟩
      constructor
      · rw [((qinsert_perm r12 s.scaleX (incQual q) rest).map qival).nodup_iff]
        exact h1
      · intro x hx
        rcases mem_qinsert.1 hx with rfl | hx
        · exact h2 q List.mem_cons_self
        · exact h2 x (List.mem_cons_of_mem _ hx)) k i quals0 ⟨h0, h0k⟩
  exact h.1

theorem askQuals_spec (r12 : α → α) (s : State α) (n : Nat) :
    ∀ q ∈ askQuals r12 s n, 1 ≤ q.n ∧
      ((q.l, q.r) ∈ tkeys s.lossesC ∨ ∃ q0 ∈ boundQuals s, q0.l = q.l ∧ q0.r = q.r) := by
  intro q hq
  refine ⟨askLoop_n_pos r12 s _ _ _
    (fun q hq => le_of_eq (quals0_n r12 s q hq).symm) q hq, ?_⟩
  rcases askLoop_keys r12 s _ _ _ q hq with h | ⟨q0, h0, h1⟩
  · exact Or.inl h
  · exact Or.inr ⟨q0, (quals0_perm r12 s).mem_iff.1 h0, h1⟩

theorem askQuals_nodup (r12 : α → α) (s : State α) (n : Nat)
    (hk : (tkeys s.lossesC).Nodup) (hb : ((boundQuals s).map qival).Nodup)
    (hbk : ∀ q ∈ boundQuals s, qival q ∉ tkeys s.lossesC) :
    ((askQuals r12 s n).map qival).Nodup := by
  refine askLoop_nodup r12 s _ 0 _ hk ?_ ?_
  · rw [((quals0_perm r12 s).map qival).nodup_iff]; exact hb
  · intro q hq
    rw [List.drop_zero]
    exact hbk q ((quals0_perm r12 s).mem_iff.1 hq)

/-- Target 6.  Outside the special cases, the returned points are the missing bounds followed by the
equal subdivision `linspace q.l q.r q.n` of the chosen intervals `q`; each chosen interval is an
interval of `losses_combined` or one of the (at most two) bound intervals; and the chosen intervals
are distinct when the keys of `losses_combined` are and the bound intervals are distinct non-keys
(all of which `Inv s` provides, see `boundQuals_nodup`, `boundQuals_not_key`, `ask_equal_parts_inv`). -/
theorem ask_equal_parts (r12 : α → α) (s : State α) (n : Nat)
    (hn : (missingBounds s).length < n) (hd : s.data.length + s.pending.length ≠ 0) :
    (askPoints r12 s n).1 =
      missingBounds s ++ (askQuals r12 s n).flatMap (fun q => linspace q.l q.r q.n) ∧
    (∀ q ∈ askQuals r12 s n, 1 ≤ q.n ∧
      ((q.l, q.r) ∈ tkeys s.lossesC ∨ ∃ q0 ∈ boundQuals s, q0.l = q.l ∧ q0.r = q.r)) ∧
    ((tkeys s.lossesC).Nodup → ((boundQuals s).map qival).Nodup →
      (∀ q ∈ boundQuals s, qival q ∉ tkeys s.lossesC) →
      ((askQuals r12 s n).map qival).Nodup) :=
  ⟨by rw [askPoints_main r12 s n hn hd], askQuals_spec r12 s n, askQuals_nodup r12 s n⟩

/-! ### 7. `ask` with and without `tell_pending` -/

theorem ask_nocommit_state (lossFn : List (Option α) → List (Option (List α)) → Loss α)
    (r12 : α → α) (s : State α) (n : Nat) : (ask lossFn r12 s n false).2 = s := rfl

theorem ask_commit_eq (lossFn : List (Option α) → List (Option (List α)) → Loss α)
    (r12 : α → α) (s : State α) (n : Nat) :
    (ask lossFn r12 s n true).2 =
      ((ask lossFn r12 s n false).1.1).foldl (tellPending lossFn r12) s ∧
    (ask lossFn r12 s n true).1 = (ask lossFn r12 s n false).1 := ⟨rfl, rfl⟩

theorem ask_points (lossFn : List (Option α) → List (Option (List α)) → Loss α)
    (r12 : α → α) (s : State α) (n : Nat) (c : Bool) :
    (ask lossFn r12 s n c).1 = askPoints r12 s n := rfl

/-! ### 8. freshness of the suggested points -/

theorem foldl_min_spec (l : List α) (m0 : α) :
    (l.foldl (fun m x => if x < m then x else m) m0 = m0 ∨
      l.foldl (fun m x => if x < m then x else m) m0 ∈ l) ∧
    l.foldl (fun m x => if x < m then x else m) m0 ≤ m0 ∧
    ∀ x ∈ l, l.foldl (fun m x => if x < m then x else m) m0 ≤ x := by
  induction l generalizing m0 with
  | nil => exact ⟨Or.inl rfl, le_refl _, fun x hx => absurd hx List.not_mem_nil⟩
  | cons y l ih =>
    rw [List.foldl_cons]
    obtain ⟨h1, h2, h3⟩ := ih (if y < m0 then y else m0)
    by_cases hy : y < m0
    · rw [if_pos hy] at h1 h2 h3 ⊢
      refine ⟨Or.inr ?_, le_trans h2 (le_of_lt hy), ?_⟩
      · rcases h1 with h | h
        · rw [h]; exact List.mem_cons_self
        · exact List.mem_cons_of_mem _ h
      · intro x hx
        rcases List.mem_cons.1 hx with hx | hx
        · rw [hx]; exact h2
        · exact h3 x hx
    · rw [if_neg hy] at h1 h2 h3 ⊢
      refine ⟨h1.imp id (List.mem_cons_of_mem _), h2, ?_⟩
      intro x hx
      rcases List.mem_cons.1 hx with hx | hx
      · rw [hx]; exact le_trans h2 (not_lt.1 hy)
      · exact h3 x hx

theorem foldl_max_spec (l : List α) (m0 : α) :
    (l.foldl (fun m x => if m < x then x else m) m0 = m0 ∨
      l.foldl (fun m x => if m < x then x else m) m0 ∈ l) ∧
    m0 ≤ l.foldl (fun m x => if m < x then x else m) m0 ∧
    ∀ x ∈ l, x ≤ l.foldl (fun m x => if m < x then x else m) m0 := by
  induction l generalizing m0 with
  | nil => exact ⟨Or.inl rfl, le_refl _, fun x hx => absurd hx List.not_mem_nil⟩
  | cons y l ih =>
    rw [List.foldl_cons]
    obtain ⟨h1, h2, h3⟩ := ih (if m0 < y then y else m0)
    by_cases hy : m0 < y
    · rw [if_pos hy] at h1 h2 h3 ⊢
      refine ⟨Or.inr ?_, le_trans (le_of_lt hy) h2, ?_⟩
      · rcases h1 with h | h
        · rw [h]; exact List.mem_cons_self
        · exact List.mem_cons_of_mem _ h
      · intro x hx
        rcases List.mem_cons.1 hx with hx | hx
        · rw [hx]; exact h2
        · exact h3 x hx
    · rw [if_neg hy] at h1 h2 h3 ⊢
      refine ⟨h1.imp id (List.mem_cons_of_mem _), h2, ?_⟩
      intro x hx
      rcases List.mem_cons.1 hx with hx | hx
      · rw [hx]; exact le_trans (not_lt.1 hy) h2
      · exact h3 x hx

theorem minOfL_spec {l : List α} (h : l ≠ []) : minOfL l ∈ l ∧ ∀ x ∈ l, minOfL l ≤ x := by
  cases l with
  | nil => exact absurd rfl h
  | cons a t =>
    obtain ⟨h1, _, h3⟩ := foldl_min_spec (a :: t) a
    refine ⟨?_, h3⟩
    rcases h1 with h1 | h1
    · unfold minOfL; rw [List.headD_cons, h1]; exact List.mem_cons_self
    · exact h1

theorem maxOfL_spec {l : List α} (h : l ≠ []) : maxOfL l ∈ l ∧ ∀ x ∈ l, x ≤ maxOfL l := by
  cases l with
  | nil => exact absurd rfl h
  | cons a t =>
    obtain ⟨h1, _, h3⟩ := foldl_max_spec (a :: t) a
    refine ⟨?_, h3⟩
    rcases h1 with h1 | h1
    · unfold maxOfL; rw [List.headD_cons, h1]; exact List.mem_cons_self
    · exact h1

/-- a pair of neighbours of a strictly sorted list: ordered, both members, nothing in between -/
theorem pairs_sorted_spec {l : List α} (hs : l.Pairwise (· < ·)) {a b : α}
    (h : (a, b) ∈ pairs l) : a < b ∧ a ∈ l ∧ b ∈ l ∧ ∀ x ∈ l, ¬ (a < x ∧ x < b) := by
  induction l with
  | nil => exact absurd h (by simp [pairs])
  | cons a0 t ih =>
    cases t with
    | nil => exact absurd h (by simp [pairs])
    | cons b0 r =>
      rw [pairs, List.mem_cons] at h
      rw [List.pairwise_cons] at hs
      obtain ⟨hs1, hs2⟩ := hs
      rcases h with h | h
      · obtain ⟨rfl, rfl⟩ := Prod.mk.inj h
        refine ⟨hs1 _ List.mem_cons_self, List.mem_cons_self,
          List.mem_cons_of_mem _ List.mem_cons_self, ?_⟩
        intro x hx ⟨hx1, hx2⟩
        rcases List.mem_cons.1 hx with hx | hx
        · rw [hx] at hx1; exact lt_irrefl _ hx1
        · rcases List.mem_cons.1 hx with hx | hx
          · rw [hx] at hx2; exact lt_irrefl _ hx2
          · exact lt_asymm hx2 ((List.pairwise_cons.1 hs2).1 x hx)
      · obtain ⟨h1, h2, h3, h4⟩ := ih hs2 h
        refine ⟨h1, List.mem_cons_of_mem _ h2, List.mem_cons_of_mem _ h3, ?_⟩
        intro x hx ⟨hx1, hx2⟩
        rcases List.mem_cons.1 hx with hx | hx
        · rw [hx] at hx1; exact lt_asymm hx1 (hs1 a h2)
        · exact h4 x hx ⟨hx1, hx2⟩

/-- `(l, r)` is a gap of the point set `S`: two members with no member strictly in between -/
def Gap (S : List α) (l r : α) : Prop := l < r ∧ l ∈ S ∧ r ∈ S ∧ ∀ x ∈ S, ¬ (l < x ∧ x < r)

/-- two gaps with a common interior point are the same gap -/
theorem Gap.eq_of_overlap {S : List α} {a b c d x : α} (h1 : Gap S a b) (h2 : Gap S c d)
    (hx1 : a < x ∧ x < b) (hx2 : c < x ∧ x < d) : a = c ∧ b = d := by
  obtain ⟨_, ha, hb, hn1⟩ := h1
  obtain ⟨_, hc, hd, hn2⟩ := h2
  have hcb : c < b := lt_trans hx2.1 hx1.2
  have had : a < d := lt_trans hx1.1 hx2.2
  constructor
  · apply le_antisymm
    · by_contra hh; exact hn2 a ha ⟨not_le.1 hh, had⟩
    · by_contra hh; exact hn1 c hc ⟨not_le.1 hh, hcb⟩
  · apply le_antisymm
    · by_contra hh; exact hn1 d hd ⟨had, not_le.1 hh⟩
    · by_contra hh; exact hn2 b hb ⟨hcb, not_le.1 hh⟩

theorem npLinspace_spec {a b : α} (hab : a < b) (n : Nat) :
    (npLinspace a b n).Pairwise (· < ·) ∧ ∀ x ∈ npLinspace a b n, a ≤ x ∧ x ≤ b := by
  unfold npLinspace
  split
  · simp
  · split
    · simp [le_of_lt hab]
    · next h0 h1 =>
      dsimp only
      have hn : (0 : α) < ((n - 1 : Nat) : α) := by exact_mod_cast (by omega : 0 < n - 1)
      have hstep : 0 < (b - a) / ((n - 1 : Nat) : α) := div_pos (sub_pos.2 hab) hn
      have e : ((n - 1 : Nat) : α) * ((b - a) / ((n - 1 : Nat) : α)) = b - a :=
        mul_div_cancel₀ _ (ne_of_gt hn)
      have key : ∀ i : Nat, i < n - 1 →
          a ≤ (i : α) * ((b - a) / ((n - 1 : Nat) : α)) + a ∧
          (i : α) * ((b - a) / ((n - 1 : Nat) : α)) + a < b := by
        intro i hi
        have hi0 : (0 : α) ≤ (i : α) := Nat.cast_nonneg i
        have hi1 : (i : α) < ((n - 1 : Nat) : α) := by exact_mod_cast hi
        have h1 := mul_nonneg hi0 (le_of_lt hstep)
        have h2 := mul_lt_mul_of_pos_right hi1 hstep
        constructor <;> linarith
      constructor
      · rw [List.pairwise_append]
        refine ⟨?_, List.pairwise_singleton _ _, ?_⟩
        · rw [List.pairwise_map]
          refine List.Pairwise.imp ?_ List.pairwise_lt_range
          intro i j hij
          have : (i : α) < (j : α) := by exact_mod_cast hij
          have := mul_lt_mul_of_pos_right this hstep
          linarith
        · intro x hx y hy
          rw [List.mem_singleton] at hy
          obtain ⟨i, hi, rfl⟩ := List.mem_map.1 hx
          rw [hy]
          exact (key i (List.mem_range.1 hi)).2
      · intro x hx
        rcases List.mem_append.1 hx with hx | hx
        · obtain ⟨i, hi, rfl⟩ := List.mem_map.1 hx
          have := key i (List.mem_range.1 hi)
          exact ⟨this.1, le_of_lt this.2⟩
        · rw [List.mem_singleton] at hx
          rw [hx]; exact ⟨le_of_lt hab, le_refl _⟩

theorem hasData_iff_ask {s : State α} {x : α} : hasData s x = true ↔ x ∈ s.data.map Prod.fst := by
  unfold hasData dataGet
  rw [Option.isSome_map, List.find?_isSome]
  simp only [decide_eq_true_eq, List.mem_map]

theorem mem_all_iff {s : State α} (hI : Inv s) {x : α} :
    x ∈ s.data.map Prod.fst ++ s.pending ↔ x ∈ s.xsC := by
  rw [List.mem_append, hI.xsC_mem, hasData_iff_ask]

theorem missingBounds_not_mem {s : State α} (hI : Inv s) {x : α} (h : x ∈ missingBounds s) :
    x ∉ s.xsC := by
  obtain ⟨_, h1, h2⟩ := mem_missingBounds h
  rw [hI.xsC_mem]
  rintro (h | h)
  · rw [h1] at h; exact Bool.false_ne_true h
  · exact h2 h

theorem missingBounds_nodup {s : State α} (hlt : s.lo < s.hi) : (missingBounds s).Nodup := by
  unfold missingBounds
  apply List.Nodup.filter
  rw [if_neg (ne_of_lt hlt)]
  simp [ne_of_lt hlt]

theorem gap_of_key {s : State α} (hI : Inv s) (hb : ∀ x ∈ s.xsC, s.lo ≤ x ∧ x ≤ s.hi) {a b : α}
    (h : (a, b) ∈ tkeys s.lossesC) : Gap (s.lo :: s.hi :: s.xsC) a b := by
  obtain ⟨h1, h2, h3, h4⟩ := pairs_sorted_spec hI.xsC_sorted ((hI.lossesC_keys _).1 h)
  refine ⟨h1, List.mem_cons_of_mem _ (List.mem_cons_of_mem _ h2),
    List.mem_cons_of_mem _ (List.mem_cons_of_mem _ h3), ?_⟩
  intro x hx ⟨hx1, hx2⟩
  rcases List.mem_cons.1 hx with hx | hx
  · rw [hx] at hx1; exact not_lt.2 (hb a h2).1 hx1
  rcases List.mem_cons.1 hx with hx | hx
  · rw [hx] at hx2; exact not_lt.2 (hb b h3).2 hx2
  · exact h4 x hx ⟨hx1, hx2⟩

theorem gap_of_bound {s : State α} (hI : Inv s) (hb : ∀ x ∈ s.xsC, s.lo ≤ x ∧ x ≤ s.hi)
    (hd : s.data.length + s.pending.length ≠ 0) {q : Qual α} (hq : q ∈ boundQuals s) :
    Gap (s.lo :: s.hi :: s.xsC) q.l q.r := by
  have hall : s.data.map Prod.fst ++ s.pending ≠ [] := by
    intro h
    have := congrArg List.length h
    simp only [List.length_append, List.length_map, List.length_nil] at this
    exact hd this
  obtain ⟨hmin1, hmin2⟩ := minOfL_spec hall
  obtain ⟨hmax1, hmax2⟩ := maxOfL_spec hall
  rw [mem_all_iff hI] at hmin1 hmax1
  obtain ⟨_, _, ⟨hm, hl, hr⟩ | ⟨hm, hl, hr⟩⟩ := mem_boundQuals hq
  · rw [hl, hr]
    have hlo := missingBounds_not_mem hI hm
    have hlt : s.lo < minOfL (s.data.map Prod.fst ++ s.pending) :=
      lt_of_le_of_ne (hb _ hmin1).1 (fun h => hlo (h ▸ hmin1))
    refine ⟨hlt, List.mem_cons_self, List.mem_cons_of_mem _ (List.mem_cons_of_mem _ hmin1), ?_⟩
    intro x hx ⟨hx1, hx2⟩
    rcases List.mem_cons.1 hx with hx | hx
    · rw [hx] at hx1; exact lt_irrefl _ hx1
    rcases List.mem_cons.1 hx with hx | hx
    · rw [hx] at hx2; exact not_lt.2 (hb _ hmin1).2 hx2
    · exact not_lt.2 (hmin2 x ((mem_all_iff hI).2 hx)) hx2
  · rw [hl, hr]
    have hhi := missingBounds_not_mem hI hm
    have hlt : maxOfL (s.data.map Prod.fst ++ s.pending) < s.hi :=
      lt_of_le_of_ne (hb _ hmax1).2 (fun h => hhi (h ▸ hmax1))
    refine ⟨hlt, List.mem_cons_of_mem _ (List.mem_cons_of_mem _ hmax1),
      List.mem_cons_of_mem _ List.mem_cons_self, ?_⟩
    intro x hx ⟨hx1, hx2⟩
    rcases List.mem_cons.1 hx with hx | hx
    · rw [hx] at hx1; exact not_lt.2 (hb _ hmax1).1 hx1
    rcases List.mem_cons.1 hx with hx | hx
    · rw [hx] at hx2; exact lt_irrefl _ hx2
    · exact not_lt.2 (hmax2 x ((mem_all_iff hI).2 hx)) hx1

/-- a bound interval is not an interval of `losses_combined` -/
theorem boundQuals_not_key {s : State α} (hI : Inv s) :
    ∀ q ∈ boundQuals s, qival q ∉ tkeys s.lossesC := by
  intro q hq hk
  obtain ⟨_, h2, h3, _⟩ := pairs_sorted_spec hI.xsC_sorted ((hI.lossesC_keys _).1 hk)
  obtain ⟨_, _, ⟨hm, hl, hr⟩ | ⟨hm, hl, hr⟩⟩ := mem_boundQuals hq
  · rw [hl] at h2; exact missingBounds_not_mem hI hm h2
  · rw [hr] at h3; exact missingBounds_not_mem hI hm h3

/-- the two bound intervals are different -/
theorem boundQuals_nodup {s : State α} (hI : Inv s)
    (hd : s.data.length + s.pending.length ≠ 0) : ((boundQuals s).map qival).Nodup := by
  have hall : s.data.map Prod.fst ++ s.pending ≠ [] := by
    intro h
    have := congrArg List.length h
    simp only [List.length_append, List.length_map, List.length_nil] at this
    exact hd this
  have hmax1 := (maxOfL_spec hall).1
  rw [mem_all_iff hI] at hmax1
  unfold boundQuals
  split
  · next hm =>
    split
    · simp only [List.singleton_append, List.map_cons, List.map_nil, List.nodup_cons,
        List.mem_singleton, List.not_mem_nil, not_false_eq_true, List.nodup_nil, and_true, qival]
      intro h
      have := (Prod.mk.inj h).1
      exact missingBounds_not_mem hI hm (this ▸ hmax1)
    · simp
  · split <;> simp

/-- under the structural invariant the chosen intervals are pairwise distinct -/
theorem ask_equal_parts_inv (r12 : α → α) (s : State α) (n : Nat) (hI : Inv s)
    (hd : s.data.length + s.pending.length ≠ 0) : ((askQuals r12 s n).map qival).Nodup :=
  askQuals_nodup r12 s n hI.lossesC_nodup (boundQuals_nodup hI hd) (boundQuals_not_key hI)

theorem askQuals_gap (r12 : α → α) (s : State α) (n : Nat) (hI : Inv s)
    (hb : ∀ x ∈ s.xsC, s.lo ≤ x ∧ x ≤ s.hi) (hd : s.data.length + s.pending.length ≠ 0) :
    ∀ q ∈ askQuals r12 s n, Gap (s.lo :: s.hi :: s.xsC) q.l q.r := by
  intro q hq
  rcases (askQuals_spec r12 s n q hq).2 with h | ⟨q0, h0, h1, h2⟩
  · exact gap_of_key hI hb h
  · rw [← h1, ← h2]; exact gap_of_bound hI hb hd h0

/-- Target 8 (freshness).  Under the structural invariant, with `lo < hi` and all known points inside
`[lo, hi]` (the model's stated scope), every suggested point is new (neither evaluated nor pending),
lies in `[lo, hi]`, and no point is suggested twice. -/
theorem ask_fresh (r12 : α → α) (s : State α) (n : Nat) (hI : Inv s) (hlt : s.lo < s.hi)
    (hb : ∀ x ∈ s.xsC, s.lo ≤ x ∧ x ≤ s.hi) :
    (∀ x ∈ (askPoints r12 s n).1, x ∉ s.xsC ∧ s.lo ≤ x ∧ x ≤ s.hi) ∧
    (askPoints r12 s n).1.Nodup := by
  have hmbI : ∀ x ∈ missingBounds s, x ∉ s.xsC ∧ s.lo ≤ x ∧ x ≤ s.hi := by
    intro x hx
    refine ⟨missingBounds_not_mem hI hx, ?_⟩
    rcases (mem_missingBounds hx).1 with h | h
    · rw [h]; exact ⟨le_refl _, le_of_lt hlt⟩
    · rw [h]; exact ⟨le_of_lt hlt, le_refl _⟩
  by_cases hn : n ≤ (missingBounds s).length
  · rw [askPoints_bounds r12 s n hn]
    exact ⟨fun x hx => hmbI x (List.mem_of_mem_take hx),
      (missingBounds_nodup hlt).sublist (List.take_sublist _ _)⟩
  have hn' : (missingBounds s).length < n := by omega
  by_cases hd : s.data.length + s.pending.length = 0
  · rw [askPoints_empty r12 s n hn' hd]
    have hx0 : s.xsC = [] := by
      apply List.eq_nil_iff_forall_not_mem.2
      intro x hx
      rw [← mem_all_iff hI] at hx
      have : (s.data.map Prod.fst ++ s.pending).length = 0 := by
        simp only [List.length_append, List.length_map]; exact hd
      rw [List.length_eq_zero_iff] at this
      rw [this] at hx
      exact List.not_mem_nil hx
    obtain ⟨h1, h2⟩ := npLinspace_spec hlt n
    exact ⟨fun x hx => ⟨by rw [hx0]; exact List.not_mem_nil, h2 x hx⟩,
      h1.imp (fun h => ne_of_lt h)⟩
  · rw [askPoints_main r12 s n hn' hd]
    dsimp only
    have hg := askQuals_gap r12 s n hI hb hd
    have hS : ∀ x ∈ s.lo :: s.hi :: s.xsC, s.lo ≤ x ∧ x ≤ s.hi := by
      intro x hx
      rcases List.mem_cons.1 hx with hx | hx
      · rw [hx]; exact ⟨le_refl _, le_of_lt hlt⟩
      rcases List.mem_cons.1 hx with hx | hx
      · rw [hx]; exact ⟨le_of_lt hlt, le_refl _⟩
      · exact hb x hx
    have hpt : ∀ q ∈ askQuals r12 s n, ∀ x ∈ linspace q.l q.r q.n,
        x ∉ s.lo :: s.hi :: s.xsC ∧ s.lo ≤ x ∧ x ≤ s.hi := by
      intro q hq x hx
      obtain ⟨g1, g2, g3, g4⟩ := hg q hq
      have hx' := linspace_between g1 hx
      refine ⟨fun hm => g4 x hm hx', ?_, ?_⟩
      · exact le_trans (hS _ g2).1 (le_of_lt hx'.1)
      · exact le_trans (le_of_lt hx'.2) (hS _ g3).2
    constructor
    · intro x hx
      rcases List.mem_append.1 hx with hx | hx
      · exact hmbI x hx
      · obtain ⟨q, hq, hxq⟩ := List.mem_flatMap.1 hx
        obtain ⟨h1, h2⟩ := hpt q hq x hxq
        exact ⟨fun hm => h1 (List.mem_cons_of_mem _ (List.mem_cons_of_mem _ hm)), h2⟩
    · rw [List.nodup_append]
      refine ⟨missingBounds_nodup hlt, ?_, ?_⟩
      · rw [List.nodup_flatMap]
        constructor
        · intro q hq
          exact linspace_nodup q.n (hg q hq).1
        · have hnd := List.pairwise_map.1 (ask_equal_parts_inv r12 s n hI hd)
          refine hnd.imp_of_mem ?_
          intro a b ha hb' hab x hxa hxb
          apply hab
          have := (hg a ha).eq_of_overlap (hg b hb')
            (linspace_between (hg a ha).1 hxa) (linspace_between (hg b hb').1 hxb)
          unfold qival
          rw [this.1, this.2]
      · intro a ha b hb' hab
        obtain ⟨q, hq, hxq⟩ := List.mem_flatMap.1 hb'
        apply (hpt q hq b hxq).1
        rw [← hab]
        rcases (mem_missingBounds ha).1 with h | h
        · rw [h]; exact List.mem_cons_self
        · rw [h]; exact List.mem_cons_of_mem _ List.mem_cons_self

/-! ### counterexamples (at `Rat`) showing that the extra hypotheses are needed -/

/-- `ask_bounds_first` without "some point is known": the empty learner on `[0, 1]` asked for 3
points returns `np.linspace(0, 1, 3) = [0, 1/2, 1]`, of which the missing bounds `[0, 1]` are not a
prefix. -/
example : (askPoints (id : Rat → Rat) (init 0 1 2 0 0) 3).1 = [0, 1 / 2, 1] ∧
    missingBounds (init (0 : Rat) 1 2 0 0) = [0, 1] ∧
    ¬ (missingBounds (init (0 : Rat) 1 2 0 0) <+:
        (askPoints (id : Rat → Rat) (init 0 1 2 0 0) 3).1) := by decide +kernel

/-- `ask_length` without its hypothesis (the case in which the code raises): `lo = hi`, the single
point evaluated, so no interval and no missing bound; the model returns no point. -/
example : (askPoints (id : Rat → Rat)
    { init (0 : Rat) 0 2 0 0 with data := [(0, [1])], xs := [0], xsC := [0] } 1).1 = [] := by
  decide +kernel

/-- `ask_fresh` without "known points lie in `[lo, hi]`": bounds `[0, 1]`, one evaluated point at
`-1` (a state satisfying `Inv`); 3 points requested: the bounds `0, 1` and then the midpoint of the
"bound interval" `(-1, 1)`, which is `0` again. -/
example : (askPoints (id : Rat → Rat)
    { init (0 : Rat) 1 2 0 0 with data := [(-1, [0])], xs := [-1], xsC := [-1] } 3).1 = [0, 1, 0] := by
  decide +kernel

end L1D
