import AdaptiveModel.LND
import Mathlib.Data.Prod.Lex
import Mathlib.Data.List.Lex
import Mathlib.Data.Int.Order.Basic

/-! The `_simplex_queue` of the LearnerND model: `qinsert` keeps it in `SortedKeyList` order and
`popHighest` returns the first live entry, which has the largest rounded loss among the live entries. -/
namespace LND
variable {α : Type}

/-- the sort key `(-round(loss, 8), simplex, subsimplex or (0,))` in the lexicographic linear order -/
def keyOf (env : Env α) (a : QE α) : ℤ ×ₗ (List Nat ×ₗ List Nat) :=
  toLex (-(env.rnd a.loss), toLex (a.simplex, a.sub.getD [0]))

theorem keyLt_iff (env : Env α) (a b : QE α) : keyLt env a b = true ↔ keyOf env a < keyOf env b := by
  unfold keyLt keyOf
  simp only [Prod.Lex.toLex_lt_toLex]
  split_ifs with h1 h2 h3 h4
  · simp; omega
  · simp; omega
  · have : env.rnd a.loss = env.rnd b.loss := by omega
    simp [this, h3]
  · have : env.rnd a.loss = env.rnd b.loss := by omega
    simp [this, h3]
    intro h; exact absurd h4 (by rw [h]; exact lt_irrefl _)
  · have : env.rnd a.loss = env.rnd b.loss := by omega
    have h5 : a.simplex = b.simplex := le_antisymm (not_lt.1 h4) (not_lt.1 h3)
    simp [this, h5]

theorem keyLt_false_iff (env : Env α) (a b : QE α) : keyLt env a b = false ↔ keyOf env b ≤ keyOf env a := by
  rw [← not_lt, ← keyLt_iff]; simp

/-- the queue is in `SortedKeyList` order: no later entry has a strictly smaller key -/
def QSorted (env : Env α) (q : List (QE α)) : Prop := q.Pairwise (fun a b => keyLt env b a = false)

theorem mem_qinsert (env : Env α) (e x : QE α) (q : List (QE α)) : x ∈ qinsert env e q ↔ x = e ∨ x ∈ q := by
  induction q with
  | nil => simp [qinsert]
  | cons y ys ih =>
    unfold qinsert
    split_ifs
    · simp
    · simp only [List.mem_cons, ih]; tauto

theorem mem_foldl_qinsert {β : Type} (env : Env α) (f : β → QE α) (l : List β) (q : List (QE α)) (x : QE α) :
    x ∈ l.foldl (fun q b => qinsert env (f b) q) q ↔ x ∈ q ∨ ∃ b ∈ l, x = f b := by
  induction l generalizing q with
  | nil => simp
  | cons b bs ih =>
    simp only [List.foldl_cons, ih, mem_qinsert, List.mem_cons, exists_eq_or_imp]
    tauto

theorem qsorted_nil (env : Env α) : QSorted env [] := List.Pairwise.nil

theorem qinsert_sorted (env : Env α) (e : QE α) {q : List (QE α)} (h : QSorted env q) :
    QSorted env (qinsert env e q) := by
  induction q with
  | nil => simp [qinsert, QSorted]
  | cons y ys ih =>
    unfold QSorted at h ih ⊢
    rw [List.pairwise_cons] at h
    unfold qinsert
    split_ifs with hk
    · rw [List.pairwise_cons]
      refine ⟨?_, List.pairwise_cons.2 h⟩
      intro z hz
      rw [keyLt_false_iff]
      rw [keyLt_iff] at hk
      rcases List.mem_cons.1 hz with rfl | hz
      · exact le_of_lt hk
      · have := h.1 z hz
        rw [keyLt_false_iff] at this
        exact le_trans (le_of_lt hk) this
    · rw [List.pairwise_cons]
      refine ⟨?_, ih h.2⟩
      intro z hz
      rcases (mem_qinsert env e z ys).1 hz with rfl | hz
      · simpa using hk
      · exact h.1 z hz

theorem foldl_qinsert_sorted {β : Type} (env : Env α) (f : β → QE α) (l : List β) {q : List (QE α)}
    (h : QSorted env q) : QSorted env (l.foldl (fun q b => qinsert env (f b) q) q) := by
  induction l generalizing q with
  | nil => simpa using h
  | cons b bs ih => exact ih (qinsert_sorted env (f b) h)

/-- a smaller-or-equal key means a larger-or-equal rounded loss -/
theorem rnd_le_of_not_keyLt (env : Env α) {a b : QE α} (h : keyLt env b a = false) :
    env.rnd b.loss ≤ env.rnd a.loss := by
  rw [keyLt_false_iff, keyOf, keyOf, Prod.Lex.toLex_le_toLex] at h
  rcases h with h | h
  · simp only at h; omega
  · have := h.1; simp only at this; omega

theorem popHighest_spec (env : Env α) (simps : List Simplex) (subs : List (Simplex × List Pt))
    {q q' : List (QE α)} {e : QE α} (h : popHighest env simps subs q = some (e, q')) :
    ∃ pre, q = pre ++ e :: q' ∧ live env simps subs e = true ∧ ∀ x ∈ pre, live env simps subs x = false := by
  induction q with
  | nil => simp [popHighest] at h
  | cons y ys ih =>
    unfold popHighest at h
    split_ifs at h with hl
    · simp only [Option.some.injEq, Prod.mk.injEq] at h
      obtain ⟨rfl, rfl⟩ := h
      exact ⟨[], rfl, hl, by simp⟩
    · obtain ⟨pre, hq, he, hp⟩ := ih h
      refine ⟨y :: pre, by simp [hq], he, ?_⟩
      intro x hx
      rcases List.mem_cons.1 hx with rfl | hx
      · simpa using hl
      · exact hp x hx

theorem popHighest_none (env : Env α) (simps : List Simplex) (subs : List (Simplex × List Pt))
    {q : List (QE α)} (h : popHighest env simps subs q = none) : ∀ x ∈ q, live env simps subs x = false := by
  induction q with
  | nil => simp
  | cons y ys ih =>
    unfold popHighest at h
    split_ifs at h with hl
    intro x hx
    rcases List.mem_cons.1 hx with rfl | hx
    · simpa using hl
    · exact ih h x hx

theorem popHighest_isSome_of_live (env : Env α) (simps : List Simplex) (subs : List (Simplex × List Pt))
    {q : List (QE α)} {x : QE α} (hx : x ∈ q) (hl : live env simps subs x = true) :
    (popHighest env simps subs q).isSome = true := by
  cases hp : popHighest env simps subs q with
  | some r => rfl
  | none => have := popHighest_none env simps subs hp x hx; rw [hl] at this; cases this

/-- the popped entry has the largest rounded loss among the live entries of a sorted queue -/
theorem popHighest_max (env : Env α) (simps : List Simplex) (subs : List (Simplex × List Pt))
    {q q' : List (QE α)} {e : QE α} (hs : QSorted env q) (h : popHighest env simps subs q = some (e, q')) :
    ∀ x ∈ q, live env simps subs x = true → env.rnd x.loss ≤ env.rnd e.loss := by
  obtain ⟨pre, rfl, he, hp⟩ := popHighest_spec env simps subs h
  intro x hx hl
  rcases List.mem_append.1 hx with hx | hx
  · rw [hp x hx] at hl; cases hl
  · rcases List.mem_cons.1 hx with rfl | hx
    · exact le_refl _
    · unfold QSorted at hs
      have h2 := (List.pairwise_append.1 hs).2.1
      exact rnd_le_of_not_keyLt env ((List.pairwise_cons.1 h2).1 x hx)

theorem popHighest_sorted (env : Env α) (simps : List Simplex) (subs : List (Simplex × List Pt))
    {q q' : List (QE α)} {e : QE α} (hs : QSorted env q) (h : popHighest env simps subs q = some (e, q')) :
    QSorted env q' := by
  obtain ⟨pre, rfl, -, -⟩ := popHighest_spec env simps subs h
  unfold QSorted at hs ⊢
  exact (List.pairwise_cons.1 (List.pairwise_append.1 hs).2.1).2

theorem popHighest_mem (env : Env α) (simps : List Simplex) (subs : List (Simplex × List Pt))
    {q q' : List (QE α)} {e : QE α} (h : popHighest env simps subs q = some (e, q')) :
    e ∈ q ∧ ∀ x ∈ q', x ∈ q := by
  obtain ⟨pre, rfl, -, -⟩ := popHighest_spec env simps subs h
  exact ⟨by simp, fun x hx => by simp [hx]⟩

end LND
