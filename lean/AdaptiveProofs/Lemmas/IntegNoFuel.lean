import AdaptiveProofs.Lemmas.IntegReach
/-!
C07 (deepening): end-to-end form of "the fuel is never exhausted" — in a state whose forest is well formed and not empty
(every reachable state), `tell` and `_fill_stack` never return the model artefact `Err.fuel`.  (The only remaining source
of `Err.fuel` is the explicit budget of `ask`'s `while n_left > 0` loop, which stands for an `ask` that does not return.)
-/
set_option linter.unusedSectionVars false
set_option linter.unusedSimpArgs false
set_option linter.unusedVariables false
namespace Integ
namespace Cut
open Safe
variable {α : Type} [OfNat α 0] [DecidableEq α] [Div α] [OfNat α 2] [LT α] [DecidableLT α] [Sub α] [Mul α] [Add α] [Neg α]

/-- "not the fuel artefact" -/
def NF (e : Option Err) : Prop := e ≠ some Err.fuel

theorem NF_none : NF none := by intro h; cases h

/-- well formed and not empty -/
def RW (F : Forest α) : Prop := WF F ∧ 1 ≤ F.length

theorem RW.sk {F G : Forest α} (h : RW F) (hs : Sk F G) : RW G := ⟨h.1.of_skS hs.toS, by rw [hs.1]; exact h.2⟩

theorem pres_RW : Pres (RW (α := α)) where
  frame := fun hs h => h.sk hs
  prop := fun F i h => ⟨h.1.of_skS (propagateDone_skS F i), by rw [propagateDone_length]; exact h.2⟩
  split := fun F i m h hi hc => ⟨h.1.splitF i m hi hc, by rw [splitF_length]; omega⟩

theorem rw_reach (O : Oracle α) (P : Params α) (a b e : α) (ops : List (Op α)) :
    SInv RW (run O P (start O P a b e) ops) :=
  reach_keep pres_RW O P a b e ⟨WF.root a b e, by simp [rootF]⟩ ops

theorem calcNdiv_nf (P : Params α) {F : Forest α} (h : RW F) (j : Nat) (dv : Bool) : NF (calcNdiv P F j dv).2 := by
  have h0 : Sk F (modAt F j (fun I => { I with ndiv := I.ndiv + (if dv then 1 else 0) })) :=
    modAt_sk _ _ _ (fun I => rfl)
  unfold calcNdiv
  by_cases hd : divergent P (getI (modAt F j (fun I => { I with ndiv := I.ndiv + (if dv then 1 else 0) })) j) = true
  · simp only [hd, if_true]
    intro h; cases h
  · simp only [hd]
    cases dv
    · exact NF_none
    · exact (forEach_inv (fun G => Sk F G) NF NF_none _
        (fun G c hG => ⟨hG.trans (updNdivRec_sk P _ G c),
          updNdivRec_nofuel P G.length G c (h.sk hG).1 (h.sk hG).2 (by omega)⟩) _ _ h0).2

theorem cpChildren_nf (P : Params α) (o : CPOut α) : ∀ (l : List Nat) (k : Nat) (F : Forest α), RW F →
    NF (cpChildren P o l k F).2
  | [], _, F, _ => by simp only [cpChildren]; exact NF_none
  | c :: r, k, F, h => by
    simp only [cpChildren]
    have key : Sk F (if (getI F c).depthComplete.isSome then calcNdiv P F c (o.childDiv.getD k false) else (F, none)).1 ∧
        NF (if (getI F c).depthComplete.isSome then calcNdiv P F c (o.childDiv.getD k false) else (F, none)).2 := by
      split
      · exact ⟨calcNdiv_sk P F c _, calcNdiv_nf P h c _⟩
      · exact ⟨Sk.refl F, NF_none⟩
    split
    · rename_i G e heq
      rw [heq] at key
      exact key.2
    · rename_i G heq
      rw [heq] at key
      have h2 : Sk F (if (getI G c).depthComplete = some 0 then calcErr G c (o.childErr.getD k 0) else G) := by
        split
        · exact key.1.trans (calcErr_sk _ _ _)
        · exact key.1
      exact cpChildren_nf P o r (k + 1) _ (h.sk h2)

theorem cpR1_nf (P : Params α) (o : CPOut α) {F : Forest α} (h : RW F) (i : Nat) (par : Option Nat) :
    NF (cpR1 P o F i par).2 := by
  cases par with
  | none => simp only [cpR1]; intro h; cases h
  | some p =>
    simp only [cpR1]
    split
    · exact calcNdiv_nf P (h.sk (calcErr_sk _ _ _)) _ _
    · exact NF_none

theorem cpR_nf (P : Params α) (o : CPOut α) {F : Forest α} (h : RW F) (i d : Nat) (par : Option Nat) :
    NF (cpR P o F i d par).2.1 := by
  unfold cpR
  have k1 := cpR1_sk P o F i par
  have k2 := cpR1_nf P o h i par
  split
  · exact NF_none
  · split
    · rename_i G e heq
      rw [heq] at k2
      exact k2
    · rename_i G heq
      rw [heq] at k1
      exact cpChildren_nf P o _ _ _ (h.sk k1)

theorem cp_nf (O : Oracle α) (P : Params α) {F : Forest α} (h : RW F) (i d : Nat) :
    NF (completeProcess O P F i d).err := by
  rw [completeProcess_eq]
  split
  · intro h; cases h
  · split
    · exact NF_none
    · have hs : Sk F (modAt (modAt F i (fun I => { I with depthComplete := some d })) i
          (fun I => { I with igral := (O.cp i d).igral })) :=
        (modAt_sk F i (fun I => { I with depthComplete := some d }) (fun I => rfl)).trans
          (modAt_sk _ i (fun I => { I with igral := (O.cp i d).igral }) (fun I => rfl))
      have := cpR_nf P (O.cp i d) (h.sk hs) i d (getI F i).parent
      generalize cpR P (O.cp i d) _ i d (getI F i).parent = r at this
      rcases r with ⟨G, _ | e, fs⟩
      · exact NF_none
      · exact this

theorem depthStep_nf (O : Oracle α) (P : Params α) (i : Nat) (s : St α) (d : Nat) (h : SInv RW s) :
    NF (depthStep O P i s d).2 := by
  unfold depthStep
  split
  · have c1 := cp_nf O P h.1 i d
    generalize completeProcess O P s.F i d = r at c1
    rcases r with ⟨rF, rerr, rfs, rrm⟩
    simp only at c1 ⊢
    cases rerr with
    | some e => exact c1
    | none =>
      simp only
      split
      · exact NF_none
      · split
        · exact NF_none
        · exact NF_none
  · exact NF_none

theorem forEach_nf {β : Type} (f : St α → β → St α × Option Err)
    (hk : ∀ s x, SInv RW s → Keep RW s.F.length (f s x).1) (hn : ∀ s x, SInv RW s → NF (f s x).2)
    (l : List β) (s : St α) (h : SInv RW s) : NF (forEach f l s).2 :=
  (forEach_inv (fun s' => SInv RW s') NF NF_none f (fun s' x h' => ⟨(hk s' x h').1, hn s' x h'⟩) l s h).2

theorem tellIval_nf (O : Oracle α) (P : Params α) (x : α) (s : St α) (i : Nat) (h : SInv RW s) :
    NF (tellIval O P x s i).2 := by
  have hs : Sk s.F (modAt s.F i (fun I => { I with data := sadd x I.data })) := modAt_sk _ _ _ (fun I => rfl)
  have h1 : SInv RW { s with F := modAt s.F i (fun I => { I with data := sadd x I.data }) } :=
    ⟨h.1.sk hs, fun j hj => by simp only [hs.1]; exact h.2 j hj⟩
  exact forEach_nf (depthStep O P i) (fun s' d h' => depthStep_keep pres_RW O P i s' d h')
    (fun s' d h' => depthStep_nf O P i s' d h') _ _ h1

theorem tell_nf (O : Oracle α) (P : Params α) (s : St α) (x : α) (h : SInv RW s) : NF (tell O P s x).2 := by
  unfold tell
  split
  · intro h; cases h
  · exact forEach_nf (tellIval O P x) (fun s' i h' => tellIval_keep pres_RW O P x s' i h')
      (fun s' i h' => tellIval_nf O P x s' i h') _
      { s with data := sadd x s.data, pending := s.pending.filter (fun y => y ≠ x) } h

theorem addPoint_nf (O : Oracle α) (P : Params α) (i : Nat) (s : St α) (x : α) (h : SInv RW s) :
    NF (addPoint O P i s x).2 := by
  unfold addPoint
  simp only
  split
  · exact tell_nf O P { s with xmap := xmapAdd s.F x i s.xmap } x h
  · split
    · exact NF_none
    · exact NF_none

theorem addIval_nf (O : Oracle α) (P : Params α) (s : St α) (i : Nat) (h : SInv RW s) : NF (addIval O P s i).2 := by
  unfold addIval
  have key := forEach_nf (addPoint O P i) (fun s' x h' => addPoint_keep pres_RW O P i s' x h')
    (fun s' x h' => addPoint_nf O P i s' x h') (O.pts (getI s.F i).a (getI s.F i).b (getI s.F i).depth) s h
  simp only
  split
  · rename_i s' e heq; rw [heq] at key; exact key
  · exact NF_none

theorem fsR_nf (O : Oracle α) (P : Params α) (s : St α) (i : Nat) (force : Bool)
    (h : SInv RW s) (hi : i ∈ s.ivals) (hc : (getI s.F i).children = []) : NF (fsR O P s i force).2 := by
  have hrem : removeIval s i = ({ s with ivals := s.ivals.filter (fun j => j ≠ i) }, none) := by
    simp only [removeIval, hi, if_true]
  have h2 : SInv RW { s with ivals := s.ivals.filter (fun j => j ≠ i) } :=
    ⟨h.1, fun j hj => h.2 j (List.mem_filter.mp hj).1⟩
  unfold fsR
  simp only
  split
  · rw [hrem]; exact NF_none
  · split
    · rw [hrem]
      simp only
      have b1 : SInv RW (split ({ s with ivals := s.ivals.filter (fun j => j ≠ i) } : St α) i
          (O.pts (getI s.F i).a (getI s.F i).b (getI s.F i).depth)).1 := by
        refine ⟨?_, ?_⟩
        · rw [split_F]; exact pres_RW.split _ _ _ h.1 (h.2 i hi) hc
        · intro j hj
          rw [split_F, splitF_length]
          rw [split_ivals] at hj
          exact Nat.lt_of_lt_of_le (h2.2 j hj) (Nat.le_add_right _ _)
      have bl := split_l ({ s with ivals := s.ivals.filter (fun j => j ≠ i) } : St α) i
          (O.pts (getI s.F i).a (getI s.F i).b (getI s.F i).depth)
      have blen : (split ({ s with ivals := s.ivals.filter (fun j => j ≠ i) } : St α) i
          (O.pts (getI s.F i).a (getI s.F i).b (getI s.F i).depth)).1.F.length = s.F.length + 2 := by
        rw [split_F, splitF_length]
      rcases hsp : split ({ s with ivals := s.ivals.filter (fun j => j ≠ i) } : St α) i
        (O.pts (getI s.F i).a (getI s.F i).b (getI s.F i).depth) with ⟨s3, l, r⟩
      rw [hsp] at b1 bl blen
      simp only at b1 bl blen ⊢
      have c := addIval_keep pres_RW O P s3 l b1 (by omega)
      have cn := addIval_nf O P s3 l b1
      rcases had : addIval O P s3 l with ⟨s4, _ | e⟩
      · rw [had] at c
        simp only at c ⊢
        exact addIval_nf O P s4 r c.1
      · rw [had] at cn
        simp only at cn ⊢
        exact cn
    · have hs : Sk s.F (modAt s.F i (fun I => { I with depth := I.depth + 1 })) := modAt_sk _ _ _ (fun I => rfl)
      have h3 : SInv RW { s with F := modAt s.F i (fun I => { I with depth := I.depth + 1 }) } :=
        ⟨h.1.sk hs, fun j hj => by simp only [hs.1]; exact h.2 j hj⟩
      exact addIval_nf O P _ i h3

theorem fillStack_nf (O : Oracle α) (P : Params α) (s : St α) (h : SInv RW s) : NF (fillStack O P s).2 := by
  rw [fillStack_eq]
  have hpick : ∀ i pr, fsPick { s with prio := dropDead s.ivals s.prio } = (some i, pr) → i ∈ s.ivals := by
    intro i pr h
    simp only [fsPick] at h
    split at h
    · simp only [Prod.mk.injEq] at h
      exact dropDead_last _ _ _ h.1
    · simp only [Prod.mk.injEq] at h
      exact argmax_mem _ _ _ h.1
  split
  · intro h; cases h
  · rename_i i pr heq
    unfold fsBody
    split
    · intro h; cases h
    · rename_i hc
      have hc' : (getI s.F i).children = [] := by
        cases hch : (getI s.F i).children with
        | nil => rfl
        | cons a r =>
          have : (getI ({ s with prio := pr } : St α).F i).children = a :: r := hch
          simp [this] at hc
      have := fsR_nf O P { s with prio := pr } i (!(dropDead s.ivals s.prio).isEmpty) h (hpick i pr heq) hc'
      generalize fsR O P { s with prio := pr } i (!(dropDead s.ivals s.prio).isEmpty) = r at this
      rcases r with ⟨s', _ | e⟩
      · simp only [fsFin]
        split
        · split
          · exact NF_none
          · intro h; cases h
        · exact NF_none
      · exact this

end Cut
end Integ
