import AdaptiveProofs.Lemmas.TriReport

/-! Under the index invariant (and a hint a caller may pass) `add_point` never dies of a `KeyError` (`set.remove` of a
missing element) or an `IndexError` (`vertex_to_simplices[v]` out of range): the only exceptions are the three
deliberate `ValueError`s and the `RuntimeError` of the `hull` property. -/
namespace Tri

/-- `KeyError` / `IndexError` -/
def Err.internal : Err → Bool
  | .keyError => true
  | .indexError => true
  | _ => false

theorem addTo_ok (t : Simplex) : ∀ (vs : List Nat) (vts : List (List Simplex)),
    (∀ v ∈ vs, v < vts.length) → ∃ vts', addTo t vs vts = .ok vts'
  | [], vts, _ => ⟨vts, rfl⟩
  | v :: vs, vts, h => by
    have hv : v < vts.length := h v List.mem_cons_self
    simp only [addTo, List.getElem?_eq_getElem hv]
    exact addTo_ok t vs _ (fun w hw => by simpa using h w (List.mem_cons_of_mem _ hw))

theorem addSimplex_ok {s : State} {t : Simplex} (hI : Inv s) (ht : ValidSimplex s.dim s.nVerts t) :
    ∃ s', addSimplex s t = .ok s' := by
  unfold addSimplex
  simp only [ht.sorted]
  obtain ⟨vts', h⟩ := addTo_ok t t s.vts (fun v hv => by rw [hI.len]; exact ht.2.2 v hv)
  rw [h]
  exact ⟨_, rfl⟩

theorem delFrom_ok (t : Simplex) : ∀ (vs : List Nat) (vts : List (List Simplex)), vs.Nodup →
    (∀ v ∈ vs, ∃ l, vts[v]? = some l ∧ t ∈ l) → ∃ vts', delFrom t vs vts = .ok vts'
  | [], vts, _, _ => ⟨vts, rfl⟩
  | v :: vs, vts, hnd, h => by
    obtain ⟨l, hl, htl⟩ := h v List.mem_cons_self
    rw [List.nodup_cons] at hnd
    simp only [delFrom, hl, if_pos htl]
    apply delFrom_ok t vs _ hnd.2
    intro w hw
    obtain ⟨l', hl', htl'⟩ := h w (List.mem_cons_of_mem _ hw)
    have hne : v ≠ w := fun e => hnd.1 (e ▸ hw)
    exact ⟨l', by rw [List.getElem?_set_ne hne]; exact hl', htl'⟩

theorem deleteSimplex_ok {s : State} {t : Simplex} (hI : Inv s) (ht : t ∈ s.simplices) :
    ∃ s', deleteSimplex s t = .ok s' := by
  have hv := hI.valid t ht
  unfold deleteSimplex
  simp only [hv.sorted, if_pos ht]
  have hnd : t.Nodup := hv.2.1.imp (fun hab => Nat.ne_of_lt hab)
  obtain ⟨vts', h⟩ := delFrom_ok t t s.vts hnd (fun v hvt => by
    have hlt : v < s.vts.length := by rw [hI.len]; exact hv.2.2 v hvt
    refine ⟨s.vts[v], List.getElem?_eq_getElem hlt, ?_⟩
    exact (hI.index v _ (List.getElem?_eq_getElem hlt) t).mpr ⟨ht, hvt⟩)
  rw [h]
  exact ⟨_, rfl⟩

theorem neighborsFromVertices_ok (vts : List (List Simplex)) : ∀ (ps : List Nat),
    (∀ p ∈ ps, p < vts.length) → ∃ r, neighborsFromVertices vts ps = .ok r
  | [], _ => ⟨[], rfl⟩
  | p :: ps, h => by
    have hp : p < vts.length := h p List.mem_cons_self
    obtain ⟨r, hr⟩ := neighborsFromVertices_ok vts ps (fun q hq => h q (List.mem_cons_of_mem _ hq))
    simp only [neighborsFromVertices, List.getElem?_eq_getElem hp, hr]
    exact ⟨_, rfl⟩

theorem mem_eraseDups_nat {l : List Nat} {v : Nat} : v ∈ l.eraseDups ↔ v ∈ l := List.mem_eraseDups

theorem bwLoop_noInternal (dim : Nat) : ∀ (circ : List (Simplex × Bool)) (s : State) (queue done bad : List Simplex)
    (e : Err), Inv s → (∀ u ∈ queue, u ∈ s.simplices) → bwLoop dim circ s queue done bad = .error e →
    e.internal = false
  | [], s, queue, done, bad, e, _, _, h => by
    simp only [bwLoop] at h
    split at h <;> cases h
    rfl
  | (t, ans) :: rest, s, queue, done, bad, e, hI, hq, h => by
    simp only [bwLoop] at h
    split at h
    · cases h; rfl
    · split at h
      · cases h; rfl
      · rename_i hne htq
        have htq' : t ∈ queue := by simpa using htq
        have htS : t ∈ s.simplices := hq t htq'
        have hts : sortS t = t := (hI.valid t htS).sorted
        obtain ⟨sd, hd⟩ := deleteSimplex_ok hI htS
        split at h
        · rw [hd] at h
          simp only at h
          obtain ⟨hId, _, hn, _, hmem⟩ := deleteSimplex_spec hI hts hd
          obtain ⟨nb, hnb⟩ := neighborsFromVertices_ok sd.vts t.eraseDups (fun p hp => by
            rw [hId.len, hn]; exact (hI.valid t htS).2.2 p (mem_eraseDups_nat.mp hp))
          rw [hnb] at h
          simp only at h
          refine bwLoop_noInternal dim rest sd _ _ _ e hId ?_ h
          intro u hu
          rcases mem_setUnion.mp hu with h' | h'
          · obtain ⟨h1, h2⟩ := mem_setDel.mp h'
            exact (hmem u).mpr ⟨hq u h1, h2⟩
          · have h'' := (mem_setDiff.mp (List.mem_filter.mp h').1).1
            obtain ⟨p, l, hl, hul⟩ := neighborsFromVertices_mem sd.vts _ nb hnb u h''
            exact ((hId.index p l hl u).mp hul).1
        · exact bwLoop_noInternal dim rest s _ _ _ e hI (fun u hu => hq u (mem_setDel.mp hu).1) h

theorem holeLoop_noInternal (pt dim n : Nat) : ∀ (fs : List Simplex) (s : State) (fl : List (Simplex × Bool)) (e : Err),
    Inv s → s.dim = dim → s.nVerts = n → (∀ f ∈ fs, pt ∉ f → ValidSimplex dim n (f ++ [pt])) →
    holeLoop pt fs s fl = .error e → e.internal = false
  | [], s, fl, e, _, _, _, _, h => by simp [holeLoop] at h
  | face :: fs, s, fl, e, hI, hd, hn, hv, h => by
    have hv' : ∀ f ∈ fs, pt ∉ f → ValidSimplex dim n (f ++ [pt]) := fun f hf => hv f (List.mem_cons_of_mem _ hf)
    simp only [holeLoop] at h
    split at h
    · exact holeLoop_noInternal pt dim n fs s fl e hI hd hn hv' h
    · rename_i hpt
      split at h
      · cases h; rfl
      · split at h
        · exact holeLoop_noInternal pt dim n fs s _ e hI hd hn hv' h
        · have hval : ValidSimplex s.dim s.nVerts (face ++ [pt]) := by
            rw [hd, hn]; exact hv face List.mem_cons_self hpt
          obtain ⟨sa, ha⟩ := addSimplex_ok hI hval
          rw [ha] at h
          simp only at h
          obtain ⟨hIa, hda, hna, _⟩ := addSimplex_spec hI hval ha
          exact holeLoop_noInternal pt dim n fs sa _ e hIa (hda.trans hd) (hna.trans hn) hv' h

theorem hullLoop_noInternal (pt dim n : Nat) : ∀ (fs : List Simplex) (s : State) (new : List Simplex)
    (ori : List (Simplex × Int × Int)) (fl : List (Simplex × Bool)) (e : Err),
    Inv s → s.dim = dim → s.nVerts = n → (∀ f ∈ fs, ValidSimplex dim n (f ++ [pt])) →
    hullLoop pt fs s new ori fl = .error e → e.internal = false
  | [], s, new, ori, fl, e, _, _, _, _, h => by simp [hullLoop] at h
  | face :: fs, s, new, ori, fl, e, hI, hd, hn, hv, h => by
    have hv' : ∀ f ∈ fs, ValidSimplex dim n (f ++ [pt]) := fun f hf => hv f (List.mem_cons_of_mem _ hf)
    simp only [hullLoop] at h
    split at h
    · cases h; rfl
    · split at h
      · split at h
        · cases h; rfl
        · split at h
          · exact hullLoop_noInternal pt dim n fs s _ _ _ e hI hd hn hv' h
          · have hval : ValidSimplex s.dim s.nVerts (face ++ [pt]) := by
              rw [hd, hn]; exact hv face List.mem_cons_self
            obtain ⟨sa, ha⟩ := addSimplex_ok hI hval
            rw [ha] at h
            simp only at h
            obtain ⟨hIa, hda, hna, _⟩ := addSimplex_spec hI hval ha
            exact hullLoop_noInternal pt dim n fs sa _ _ _ e hIa (hda.trans hd) (hna.trans hn) hv' h
      · exact hullLoop_noInternal pt dim n fs s _ _ _ e hI hd hn hv' h

theorem bowyerWatson_noInternal {s : State} {pt : Nat} {start : Option Simplex} {circ fl : List (Simplex × Bool)} {e : Err}
    (hI : Inv s) (hpt : s.nVerts = pt + 1) (hstart : ∀ c, start = some c → c ∈ s.simplices)
    (h : bowyerWatson s pt start circ fl = .error e) : e.internal = false := by
  have hlt : pt < s.vts.length := by rw [hI.len]; omega
  unfold bowyerWatson at h
  simp only at h
  split at h
  · rename_i hq
    cases start with
    | none => simp only at hq; rw [List.getElem?_eq_getElem hlt] at hq; cases hq
    | some c => cases hq
  · rename_i queue hq
    have hqS : ∀ u ∈ queue, u ∈ s.simplices := by
      cases start with
      | none =>
        simp only at hq
        intro u hu
        exact ((hI.index pt queue hq u).mp hu).1
      | some c =>
        simp only [Option.some.injEq] at hq
        subst hq
        intro u hu
        rw [List.mem_singleton] at hu
        subst hu
        exact hstart u rfl
    split at h
    · rename_i e' he
      cases h
      exact bwLoop_noInternal _ _ _ _ _ _ _ hI hqS he
    · rename_i s1 bad hbw
      obtain ⟨hI1, hd1, hn1, hsub1, hbad⟩ := bwLoop_spec s.dim circ s queue [] [] s1 bad hI hqS hbw
      have hbad' : ∀ u, u ∈ bad ↔ (u ∈ s.simplices ∧ u ∉ s1.simplices) := by
        intro u; rw [hbad u]; simp
      have hfaces : ∀ f ∈ List.filter (fun f => decide (List.count f (facesOf s1.dim bad) < 2)) (facesOf s1.dim bad),
          pt ∉ f → ValidSimplex s.dim s.nVerts (f ++ [pt]) := by
        intro f hf hptf
        obtain ⟨t, htb, hft⟩ := mem_facesOf.mp (List.mem_filter.mp hf).1
        have htv := hI.valid t ((hbad' t).mp htb).1
        rw [hd1] at hft
        refine face_append_valid htv hft ?_ (by omega)
        intro v hv
        have hvt : v ∈ t := (combos_sublist _ _ _ hft).1.subset hv
        have := htv.2.2 v hvt
        have hne : v ≠ pt := fun h => hptf (h ▸ hv)
        omega
      split at h
      · rename_i e' he
        cases h
        exact holeLoop_noInternal pt s.dim s.nVerts _ s1 fl _ hI1 hd1 hn1 hfaces he
      · rename_i s2 fl' hh
        obtain ⟨hI2, _, hn2, _, _⟩ := holeLoop_spec pt s.dim s.nVerts _ s1 fl s2 fl' hI1 hd1 hn1 hfaces hh
        split at h
        · rename_i hnone
          have : pt < s2.vts.length := by rw [hI2.len, hn2]; omega
          rw [List.getElem?_eq_getElem this] at hnone
          cases hnone
        · cases h

theorem extendHull_noInternal {s : State} (hI : Inv s) {ori : List (Simplex × Int × Int)} {fl : List (Simplex × Bool)}
    {e : Err} (h : extendHull { s with vts := s.vts ++ [[]] } ori fl = .error e) : e.internal = false := by
  have hpush := inv_push hI
  have hfaces : ∀ f ∈ List.filter (fun f => decide (List.count f (facesOf s.dim s.simplices) = 1)) (facesOf s.dim s.simplices),
      ValidSimplex s.dim (s.nVerts + 1) (f ++ [s.nVerts]) := by
    intro f hf
    obtain ⟨t, hts, hft⟩ := mem_facesOf.mp (List.mem_filter.mp hf).1
    have htv := hI.valid t hts
    refine face_append_valid htv hft ?_ (Nat.lt_succ_self _)
    intro v hv
    exact htv.2.2 v ((combos_sublist _ _ _ hft).1.subset hv)
  unfold extendHull at h
  simp only at h
  split at h
  · cases h; rfl
  · split at h
    · rename_i e' he
      cases h
      exact hullLoop_noInternal s.nVerts s.dim (s.nVerts + 1) _ _ [] ori fl _ hpush rfl rfl hfaces he
    · rename_i s2' new ori' fl'' hh
      obtain ⟨_, _, _, _, _, _, hnil⟩ :=
        hullLoop_spec s.nVerts s.dim (s.nVerts + 1) _ _ [] ori fl s2' new ori' fl'' hpush rfl rfl hfaces
          (fun u hu => by cases hu) hh
      split at h
      · cases h; rfl
      · split at h
        · rename_i hnew
          have hs2 := hnil hnew
          subst hs2
          simp only at h
          rw [show (s.vts ++ [[]])[s.nVerts]? = some [] by
            rw [← hI.len, List.getElem?_append_right (Nat.le_refl _)]; simp] at h
          simp only [removeAll] at h
          split at h <;> cases h <;> rfl
        · cases h

theorem addPoint_noInternal {s : State} {hint : Option Simplex} {o : Oracle} {e : Err}
    (hI : Inv s) (hv : ValidHint s hint) (h : addPoint s hint o = .error e) : e.internal = false := by
  unfold addPoint at h
  simp only at h
  split at h
  · rename_i e' he
    cases h
    cases hint with
    | some h' =>
      simp only at he
      split at he <;> cases he
      rfl
    | none =>
      simp only at he
      split at he
      · cases he; rfl
      · split at he <;> cases he
        rfl
  · rename_i simplex hres
    have hsx := addPoint_resolve hv hres
    split at h
    · split at h
      · cases h; rfl
      · split at h
        · rename_i e' he
          cases h
          exact extendHull_noInternal hI he
        · rename_i s2 temp fl hext
          obtain ⟨hI2, _, hn2, _, _⟩ := (extendHull_spec hI).1 s2 temp fl hext
          split at h
          · rename_i e' he
            cases h
            exact bowyerWatson_noInternal hI2 (by omega) (fun c hc => by cases hc) he
          · split at h <;> cases h
            rfl
    · rename_i hne
      have hsS : simplex ∈ s.simplices := by
        rcases hsx with h' | h'
        · exact absurd h' hne
        · exact h'
      split at h
      · cases h; rfl
      · split at h
        · cases h; rfl
        · split at h
          · split at h <;> cases h <;> rfl
          · split at h
            · split at h <;> cases h <;> rfl
            · split at h
              · rename_i e' he
                cases h
                exact bowyerWatson_noInternal (s := { s with vts := s.vts ++ [[]], nVerts := s.nVerts + 1 })
                  (inv_push hI) rfl (fun c hc => by cases hc; exact hsS) he
              · split at h <;> cases h
                rfl

end Tri
