import AdaptiveProofs.Lemmas.Avg1DFull

/-!
Helper lemmas for the full AverageLearner1D model, part 2: the `rescaled_error` container
(`decreasing_dict`): membership, distinct keys, descending order.
-/
set_option linter.unusedSectionVars false
set_option linter.unusedVariables false

namespace Avg1DFull
open L1D (Loss Ival)
variable {α : Type} [Field α] [LinearOrder α] [IsStrictOrderedRing α]

/-! ### the order on values -/

theorem lossLt_irrefl (a : Loss α) : lossLt a a = false := by
  cases a <;> simp [lossLt]

theorem lossLt_trans {a b c : Loss α} (h1 : lossLt a b = true) (h2 : lossLt b c = true) :
    lossLt a c = true := by
  cases a <;> cases b <;> cases c <;> simp_all [lossLt]
  exact lt_trans h1 h2

theorem lossLt_asymm {a b : Loss α} (h : lossLt a b = true) : lossLt b a = false := by
  cases a <;> cases b <;> simp_all [lossLt]
  exact le_of_lt h

/-- `b ≤ a` as values -/
def lossGe (a b : Loss α) : Prop := lossLt a b = false

theorem lossGe_of_lt_of_ge {e f g : Loss α} (h1 : lossLt f e = true) (h2 : lossLt f g = false) :
    lossLt e g = false := by
  cases hc : lossLt e g with
  | false => rfl
  | true => rw [lossLt_trans h1 hc] at h2; cases h2

/-! ### membership -/

theorem mem_rinsert {e f : α × Loss α} {l : List (α × Loss α)} :
    f ∈ rinsert e l ↔ f = e ∨ f ∈ l := by
  induction l with
  | nil => simp [rinsert]
  | cons g r ih =>
    unfold rinsert
    split
    · simp only [List.mem_cons]
    · simp only [List.mem_cons, ih]
      constructor
      · rintro (h | h | h)
        · exact Or.inr (Or.inl h)
        · exact Or.inl h
        · exact Or.inr (Or.inr h)
      · rintro (h | h | h)
        · exact Or.inr (Or.inl h)
        · exact Or.inl h
        · exact Or.inr (Or.inr h)

theorem mem_rerase {x : α} {f : α × Loss α} {l : List (α × Loss α)} :
    f ∈ rerase x l ↔ f ∈ l ∧ f.1 ≠ x := by
  unfold rerase
  simp [List.mem_filter]

theorem mem_rset {x : α} {v : Loss α} {f : α × Loss α} {l : List (α × Loss α)} :
    f ∈ rset x v l ↔ f = (x, v) ∨ (f ∈ l ∧ f.1 ≠ x) := by
  unfold rset
  rw [mem_rinsert, mem_rerase]

/-- keys of the container -/
def rkeys (l : List (α × Loss α)) : List α := l.map Prod.fst

theorem rinsert_perm (e : α × Loss α) (l : List (α × Loss α)) : (rinsert e l).Perm (e :: l) := by
  induction l with
  | nil => exact List.Perm.refl _
  | cons g r ih =>
    unfold rinsert
    split
    · exact List.Perm.refl _
    · exact (List.Perm.cons g ih).trans (List.Perm.swap e g r)

theorem mem_rkeys_rerase {x k : α} {l : List (α × Loss α)} :
    k ∈ rkeys (rerase x l) ↔ k ∈ rkeys l ∧ k ≠ x := by
  unfold rkeys
  simp only [List.mem_map, mem_rerase]
  constructor
  · rintro ⟨f, ⟨hf, hne⟩, rfl⟩; exact ⟨⟨f, hf, rfl⟩, hne⟩
  · rintro ⟨⟨f, hf, rfl⟩, hne⟩; exact ⟨f, ⟨hf, hne⟩, rfl⟩

theorem nodup_rkeys_rerase {x : α} {l : List (α × Loss α)} (h : (rkeys l).Nodup) :
    (rkeys (rerase x l)).Nodup := by
  unfold rkeys rerase
  exact (List.Nodup.sublist (List.Sublist.map _ List.filter_sublist) h)

theorem mem_rkeys_rset {x k : α} {v : Loss α} {l : List (α × Loss α)} :
    k ∈ rkeys (rset x v l) ↔ k = x ∨ k ∈ rkeys l := by
  unfold rset
  have hp := ((rinsert_perm (x, v) (rerase x l)).map Prod.fst).mem_iff (a := k)
  show k ∈ (rinsert (x, v) (rerase x l)).map Prod.fst ↔ _
  rw [hp, List.map_cons, List.mem_cons]
  show k = x ∨ k ∈ rkeys (rerase x l) ↔ _
  rw [mem_rkeys_rerase]
  constructor
  · rintro (h | h)
    · exact Or.inl h
    · exact Or.inr h.1
  · rintro (h | h)
    · exact Or.inl h
    · by_cases hk : k = x
      · exact Or.inl hk
      · exact Or.inr ⟨h, hk⟩

theorem nodup_rkeys_rset {x : α} {v : Loss α} {l : List (α × Loss α)} (h : (rkeys l).Nodup) :
    (rkeys (rset x v l)).Nodup := by
  unfold rset
  show ((rinsert (x, v) (rerase x l)).map Prod.fst).Nodup
  rw [((rinsert_perm (x, v) (rerase x l)).map Prod.fst).nodup_iff, List.map_cons, List.nodup_cons]
  refine ⟨?_, nodup_rkeys_rerase h⟩
  intro hx
  exact (mem_rkeys_rerase.1 hx).2 rfl

theorem rget_isSome {x : α} {l : List (α × Loss α)} : (rget x l).isSome ↔ x ∈ rkeys l := by
  unfold rget rkeys
  rw [Option.isSome_map, List.find?_isSome]
  simp only [decide_eq_true_eq, List.mem_map]

/-! ### descending order -/

/-- container order of `decreasing_dict`: values never increase -/
def Desc (l : List (α × Loss α)) : Prop := l.Pairwise (fun a b => lossLt a.2 b.2 = false)

theorem desc_rinsert {e : α × Loss α} {l : List (α × Loss α)} (h : Desc l) : Desc (rinsert e l) := by
  induction l with
  | nil => exact List.pairwise_singleton _ _
  | cons g r ih =>
    unfold rinsert
    have hg := List.pairwise_cons.1 h
    split
    · rename_i hlt
      refine List.pairwise_cons.2 ⟨?_, h⟩
      intro f hf
      rcases List.mem_cons.1 hf with rfl | hf
      · exact lossLt_asymm hlt
      · exact lossGe_of_lt_of_ge hlt (hg.1 f hf)
    · rename_i hlt
      refine List.pairwise_cons.2 ⟨?_, ih hg.2⟩
      intro f hf
      rcases mem_rinsert.1 hf with rfl | hf
      · simpa using hlt
      · exact hg.1 f hf

theorem desc_rerase {x : α} {l : List (α × Loss α)} (h : Desc l) : Desc (rerase x l) :=
  List.Pairwise.sublist List.filter_sublist h

theorem desc_rset {x : α} {v : Loss α} {l : List (α × Loss α)} (h : Desc l) : Desc (rset x v l) :=
  desc_rinsert (desc_rerase h)

/-- the first entry carries the largest value -/
theorem desc_head_largest {e : α × Loss α} {l : List (α × Loss α)} (h : Desc (e :: l)) :
    ∀ f ∈ e :: l, lossLt e.2 f.2 = false := by
  intro f hf
  rcases List.mem_cons.1 hf with rfl | hf
  · exact lossLt_irrefl _
  · exact (List.pairwise_cons.1 h).1 f hf

/-! ### every operation changes `rescaled_error` only through `d[x] = v` and `d.pop(x)` -/

section ind
variable (lossFn : List (Option α) → List (Option (List α)) → Loss α) (r12 : α → α)
variable (sqrt : α → α) (tq : Nat → α) (hypot : α → α → α)

theorem foldl_tellPending_resc (pts : List (Nat × α)) (s : State α) :
    (pts.foldl (fun s p => tellPending lossFn r12 s p.1 p.2) s).resc = s.resc := by
  induction pts generalizing s with
  | nil => rfl
  | cons p ps ih => rw [List.foldl_cons, ih, tellPending_resc]

variable (P : List (α × Loss α) → Prop) (hset : ∀ x v l, P l → P (rset x v l))
  (herase : ∀ x l, P l → P (rerase x l))
include hset

theorem updateRescaled_resc_ind (s : State α) (x : α) (r : Bool) (h : P s.resc) :
    P (updateRescaled s x r).resc := by
  unfold updateRescaled
  dsimp only
  repeat' split
  all_goals first
    | exact h
    | exact hset _ _ _ h
    | exact hset _ _ _ (hset _ _ _ h)
    | exact hset _ _ _ (hset _ _ _ (hset _ _ _ h))

include herase

theorem popCheck_resc_ind (s : State α) (x : α) (h : P s.resc) : P (popCheck s x).resc := by
  rcases popCheck_eq s x with e | e <;> rw [e]
  · exact h
  · exact herase _ _ h

theorem afterResample_resc_ind (s : State α) (samp : Avg1D.State α) (x : α) (ys : List α)
    (h : P s.resc) : P (afterResample lossFn r12 hypot s samp x ys).resc := by
  unfold afterResample
  dsimp only
  apply popCheck_resc_ind P hset herase
  apply updateRescaled_resc_ind P hset
  exact h

theorem tellNew_resc_ind (s : State α) (seed : Nat) (x y : α) (h : P s.resc) :
    P (tellNew lossFn r12 sqrt tq hypot s seed x y).resc := by
  unfold tellNew
  dsimp only
  apply updateRescaled_resc_ind P hset
  exact hset _ _ _ h

theorem tell_resc_ind (s : State α) (seed : Nat) (x y : α) (h : P s.resc) :
    P (tell lossFn r12 sqrt tq hypot s seed x y).resc := by
  unfold tell
  dsimp only
  split
  · exact tellNew_resc_ind lossFn r12 sqrt tq hypot P hset herase s seed x y h
  · split
    · exact h
    · exact afterResample_resc_ind lossFn r12 hypot P hset herase s _ x _ h

theorem tellManyAtPoint_resc_ind (s : State α) (x : α) (m : List (Nat × α)) (h : P s.resc) :
    P (tellManyAtPoint lossFn r12 sqrt tq hypot s x m).resc := by
  unfold tellManyAtPoint
  dsimp only
  cases hf : Avg1D.find? s.samp x with
  | none =>
    cases m with
    | nil => exact h
    | cons kv rest =>
      obtain ⟨seed, y⟩ := kv
      cases rest with
      | nil => exact tellNew_resc_ind lossFn r12 sqrt tq hypot P hset herase _ seed x y h
      | cons kv2 rest2 =>
        dsimp only
        apply afterResample_resc_ind lossFn r12 hypot P hset herase
        exact tellNew_resc_ind lossFn r12 sqrt tq hypot P hset herase _ seed x y h
  | some p =>
    cases m with
    | nil => exact h
    | cons kv rest => exact afterResample_resc_ind lossFn r12 hypot P hset herase _ _ x _ h

theorem step_resc_ind (s : State α) (op : Op α) (hop : ∀ pts, op ≠ .tellMany pts) (h : P s.resc) :
    P (step lossFn r12 sqrt tq hypot s op).resc := by
  cases op with
  | tell seed x y => exact tell_resc_ind lossFn r12 sqrt tq hypot P hset herase s seed x y h
  | tellPending seed x =>
    show P (tellPending lossFn r12 s seed x).resc
    rw [tellPending_resc]; exact h
  | tellMany pts => exact absurd rfl (hop pts)
  | tellManyAtPoint x m => exact tellManyAtPoint_resc_ind lossFn r12 sqrt tq hypot P hset herase s x m h
  | removeUnfinished => exact h
  | ask n c commit =>
    show P (match ask lossFn r12 sqrt s n c commit with
      | some r => r.2
      | none => s).resc
    unfold ask
    cases askPts r12 sqrt s n c with
    | none => exact h
    | some q =>
      dsimp only [Option.map_some]
      split
      · rw [foldl_tellPending_resc]; exact h
      · exact h

theorem run_resc_ind (ops : List (Op α)) (s : State α) (h : P s.resc) :
    P (run lossFn r12 sqrt tq hypot s ops).resc := by
  rw [run_expandOps]
  have hn := noTellMany_expandOps ops
  generalize expandOps ops = l at hn
  induction l generalizing s with
  | nil => exact h
  | cons op l ih =>
    exact ih _ (step_resc_ind lossFn r12 sqrt tq hypot P hset herase s op (hn op List.mem_cons_self) h)
      (fun o ho => hn o (List.mem_cons_of_mem _ ho))

end ind

/-- `rescaled_error` is in descending order of value after every history -/
theorem desc_run (lossFn : List (Option α) → List (Option (List α)) → Loss α) (r12 : α → α)
    (sqrt : α → α) (tq : Nat → α) (hypot : α → α → α) (ops : List (Op α)) (s : State α)
    (h : Desc s.resc) : Desc (run lossFn r12 sqrt tq hypot s ops).resc :=
  run_resc_ind lossFn r12 sqrt tq hypot Desc (fun _ _ _ => desc_rset) (fun _ _ => desc_rerase) ops s h

/-- … and holds every abscissa at most once -/
theorem nodup_rkeys_run (lossFn : List (Option α) → List (Option (List α)) → Loss α) (r12 : α → α)
    (sqrt : α → α) (tq : Nat → α) (hypot : α → α → α) (ops : List (Op α)) (s : State α)
    (h : (rkeys s.resc).Nodup) : (rkeys (run lossFn r12 sqrt tq hypot s ops).resc).Nodup :=
  run_resc_ind lossFn r12 sqrt tq hypot (fun l => (rkeys l).Nodup) (fun _ _ _ => nodup_rkeys_rset)
    (fun _ _ => nodup_rkeys_rerase) ops s h

end Avg1DFull
