import AdaptiveProofs.Lemmas.IntegSafe
/-!
C07 (deepening): the STRUCTURAL FRAME of the interval forest.  Every numeric / flag update of the model
(`updHeur`, `calcErr`, `updNdivRec`, `calcNdiv`, `cpChildren`, `removeDown`, the `data`/`depth`/`depthComplete`/`igral`
updates) leaves the length of the forest and the fields `a b parent children doneLeaves` of every interval unchanged.
-/
set_option linter.unusedSectionVars false
namespace Integ
namespace Cut
open Safe
variable {α : Type} [OfNat α 0] [DecidableEq α] [Div α] [OfNat α 2] [LT α] [DecidableLT α] [Sub α] [Mul α] [Add α] [Neg α]

/-- the structural part of an interval -/
def sk (I : Ival α) : α × α × Option Nat × List Nat × Option (List Nat) :=
  (I.a, I.b, I.parent, I.children, I.doneLeaves)

/-- structural frame -/
def Sk (F F' : Forest α) : Prop := F'.length = F.length ∧ ∀ j, sk (getI F' j) = sk (getI F j)

theorem Sk.refl (F : Forest α) : Sk F F := ⟨rfl, fun _ => rfl⟩
theorem Sk.trans {F G H : Forest α} (h1 : Sk F G) (h2 : Sk G H) : Sk F H :=
  ⟨h2.1.trans h1.1, fun j => (h2.2 j).trans (h1.2 j)⟩

theorem Sk.children {F G : Forest α} (h : Sk F G) (j : Nat) : (getI G j).children = (getI F j).children := by
  have := h.2 j; simp only [sk, Prod.mk.injEq] at this; exact this.2.2.2.1
theorem Sk.parent {F G : Forest α} (h : Sk F G) (j : Nat) : (getI G j).parent = (getI F j).parent := by
  have := h.2 j; simp only [sk, Prod.mk.injEq] at this; exact this.2.2.1
theorem Sk.dl {F G : Forest α} (h : Sk F G) (j : Nat) : (getI G j).doneLeaves = (getI F j).doneLeaves := by
  have := h.2 j; simp only [sk, Prod.mk.injEq] at this; exact this.2.2.2.2
theorem Sk.a {F G : Forest α} (h : Sk F G) (j : Nat) : (getI G j).a = (getI F j).a := by
  have := h.2 j; simp only [sk, Prod.mk.injEq] at this; exact this.1
theorem Sk.b {F G : Forest α} (h : Sk F G) (j : Nat) : (getI G j).b = (getI F j).b := by
  have := h.2 j; simp only [sk, Prod.mk.injEq] at this; exact this.2.1

theorem modAt_sk (F : Forest α) (i : Nat) (f : Ival α → Ival α) (hf : ∀ I, sk (f I) = sk I) : Sk F (modAt F i f) := by
  refine ⟨modAt_length _ _ _, fun j => ?_⟩
  rw [getI_modAt]
  split
  · rename_i h
    rw [h.1]; exact hf _
  · rfl

theorem updHeur_sk : ∀ (fuel : Nat) (F : Forest α) (j : Nat) (v : α), Sk F (updHeur fuel F j v)
  | 0, F, _, _ => by simp only [updHeur]; exact Sk.refl F
  | fuel + 1, F, j, v => by
    simp only [updHeur]
    refine foldl_inv (fun G => Sk F G) _ ?_ _ _ (modAt_sk _ _ _ (fun I => rfl))
    intro G c hG
    split
    · exact hG
    · exact hG.trans (updHeur_sk fuel G c _)

theorem calcErr_sk (F : Forest α) (j : Nat) (e : α) : Sk F (calcErr F j e) := by
  simp only [calcErr]
  refine foldl_inv (fun G => Sk F G) _ ?_ _ _ (modAt_sk _ _ _ (fun I => rfl))
  intro G c hG
  split
  · exact hG.trans (updHeur_sk _ G c _)
  · exact hG

theorem forEach_sk {β : Type} (F : Forest α) (f : Forest α → β → Forest α × Option Err)
    (hf : ∀ G x, Sk G (f G x).1) (l : List β) (G : Forest α) (hG : Sk F G) : Sk F (forEach f l G).1 :=
  (forEach_inv (fun G => Sk F G) (fun _ => True) trivial f
    (fun G x h => ⟨h.trans (hf G x), trivial⟩) l G hG).1

theorem updNdivRec_sk (P : Params α) : ∀ (fuel : Nat) (F : Forest α) (j : Nat), Sk F (updNdivRec P fuel F j).1
  | 0, F, _ => by simp only [updNdivRec]; exact Sk.refl F
  | fuel + 1, F, j => by
    simp only [updNdivRec]
    have h0 : Sk F (modAt F j (fun I => { I with ndiv := I.ndiv + 1 })) := modAt_sk _ _ _ (fun I => rfl)
    split
    · exact h0
    · exact forEach_sk F _ (fun G c => updNdivRec_sk P fuel G c) _ _ h0

theorem calcNdiv_sk (P : Params α) (F : Forest α) (j : Nat) (dv : Bool) : Sk F (calcNdiv P F j dv).1 := by
  have h0 : Sk F (modAt F j (fun I => { I with ndiv := I.ndiv + (if dv then 1 else 0) })) :=
    modAt_sk _ _ _ (fun I => rfl)
  unfold calcNdiv
  by_cases hd : divergent P (getI (modAt F j (fun I => { I with ndiv := I.ndiv + (if dv then 1 else 0) })) j) = true
  · simp only [hd, if_true]
    exact h0
  · simp only [hd]
    cases dv
    · exact h0
    · exact forEach_sk F _ (fun G c => updNdivRec_sk P _ G c) _ _ h0

theorem cpChildren_sk (P : Params α) (o : CPOut α) : ∀ (l : List Nat) (k : Nat) (F : Forest α),
    Sk F (cpChildren P o l k F).1
  | [], _, F => by simp only [cpChildren]; exact Sk.refl F
  | c :: r, k, F => by
    simp only [cpChildren]
    have key : Sk F (if (getI F c).depthComplete.isSome then calcNdiv P F c (o.childDiv.getD k false) else (F, none)).1 := by
      split
      · exact calcNdiv_sk P F c _
      · exact Sk.refl F
    split
    · rename_i G e heq
      rw [heq] at key
      exact key
    · rename_i G heq
      rw [heq] at key
      have h2 : Sk F (if (getI G c).depthComplete = some 0 then calcErr G c (o.childErr.getD k 0) else G) := by
        split
        · exact key.trans (calcErr_sk _ _ _)
        · exact key
      exact h2.trans (cpChildren_sk P o r (k + 1) _)

theorem removeDown_sk : ∀ (fuel : Nat) (F : Forest α) (j : Nat), Sk F (removeDown fuel F j).1
  | 0, F, _ => by simp only [removeDown]; exact Sk.refl F
  | fuel + 1, F, j => by
    simp only [removeDown]
    refine foldl_inv (fun (r : Forest α × List Nat) => Sk F r.1) _ ?_ _ _ (modAt_sk _ _ _ (fun I => rfl))
    intro r c hr
    exact Sk.trans hr (removeDown_sk fuel r.1 c)

theorem cpR1_sk (P : Params α) (o : CPOut α) (F : Forest α) (i : Nat) (par : Option Nat) :
    Sk F (cpR1 P o F i par).1 := by
  cases par with
  | none => exact Sk.refl F
  | some p =>
    simp only [cpR1]
    split
    · exact (calcErr_sk _ _ _).trans (calcNdiv_sk P _ _ _)
    · exact Sk.refl F

theorem cpR_sk (P : Params α) (o : CPOut α) (F : Forest α) (i d : Nat) (par : Option Nat) :
    Sk F (cpR P o F i d par).1 := by
  unfold cpR
  have key := cpR1_sk P o F i par
  split
  · exact calcErr_sk _ _ _
  · split
    · rename_i G e heq
      rw [heq] at key
      exact key
    · rename_i G heq
      rw [heq] at key
      exact key.trans (cpChildren_sk P o _ _ _)

end Cut
end Integ
