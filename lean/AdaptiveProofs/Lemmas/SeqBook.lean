import AdaptiveProofs.Lemmas.SeqInv
import Mathlib.Data.List.Dedup

/-!
# SequenceLearner model: telling is faithful bookkeeping (C10) and the data round trip (C13)

Unlike `Learner1D` and `AverageLearner`, `SequenceLearner.tell` overwrites: `data` holds the LAST
value told per index.

* C.1 `data_is_last_told` (restates `lookup_run`), `data_is_last_told'` (no validity needed).
* C.2 `told_not_pending_todo*`.
* C.3 `ask_commit_marks_pending`, `pending_stays_step`, `pending_stays_run`.
* C.4 `removeUnfinished_spec`.
* C.5 `npoints_eq_distinct_told`.
* D   `setData_getData`.
-/
namespace Seq
variable {β : Type}

/-! ## C.1 `data` holds the last value told per index -/

/-- **C10 / C.1**  along a valid history `data[i]` is the value of the last `tell i _` -/
theorem data_is_last_told (n : Nat) (ops : List (Op β)) (hv : ValidOps (init n) ops) (i : Nat) :
    lookup i (run (init n) ops).data = lastTold ops i :=
  lookup_run ops (init n) i (inv_init n) hv

/-- the keys of `data` are strictly increasing after every operation, valid or not -/
theorem sorted_step {s : State β} (h : (keys s).Pairwise (· < ·)) (op : Op β) :
    (keys (step s op)).Pairwise (· < ·) := by
  cases op with
  | ask n c => unfold keys; rw [show (step s (.ask n c)).data = s.data from data_ask s n c]; exact h
  | tell i v => exact dinsert_sorted h
  | tellPending i => exact h
  | removeUnfinished => exact h

theorem sorted_run {s : State β} (h : (keys s).Pairwise (· < ·)) (ops : List (Op β)) :
    (keys (run s ops)).Pairwise (· < ·) := by
  induction ops generalizing s with
  | nil => exact h
  | cons op ops ih => exact ih (sorted_step h op)

/-- `lookup_run` does not need the history to be valid, only the dict to be sorted -/
theorem lookup_run' :
    ∀ (ops : List (Op β)) (s : State β) (i : Nat), (keys s).Pairwise (· < ·) →
      lookup i (run s ops).data = lastToldFrom (lookup i s.data) ops i := by
  intro ops
  induction ops with
  | nil => intro s i _; rfl
  | cons op ops ih =>
    intro s i h
    simp only [run, lastToldFrom, List.foldl_cons]
    have := ih (step s op) i (sorted_step h op)
    simp only [run, lastToldFrom] at this
    rw [this]
    congr 1
    cases op with
    | ask n c => simp [step, data_ask]
    | removeUnfinished => simp [step, removeUnfinished]
    | tellPending j => simp [step, tellPending]
    | tell j v =>
      simp only [step, tell]
      by_cases hji : j = i
      · subst hji; simp [lookup_dinsert_self h]
      · simp [hji, lookup_dinsert_other (Ne.symm hji)]

/-- for every op list, valid or not, `data[i]` is the value of the last `tell i _` -/
theorem data_is_last_told' (n : Nat) (ops : List (Op β)) (i : Nat) :
    lookup i (run (init n) ops).data = lastTold ops i :=
  lookup_run' ops (init n) i (by simp [init, keys])

/-- a re-tell overwrites: right after `tell i v` the stored value is `v` -/
theorem tell_overwrites {s : State β} (h : (keys s).Pairwise (· < ·)) (i : Nat) (v : β) :
    lookup i (tell s i v).data = some v ∧ ∀ j, j ≠ i → lookup j (tell s i v).data = lookup j s.data :=
  ⟨lookup_dinsert_self h, fun _ hj => lookup_dinsert_other hj⟩

/-! ## C.2 a told index is neither pending nor to-do -/

/-- in a state with the partition invariant an index with a value is neither pending nor to-do -/
theorem told_not_pending_todo {s : State β} (h : Inv s) {i : Nat} (hi : i ∈ keys s) :
    i ∉ s.pending ∧ i ∉ s.todo :=
  ⟨fun hp => h.disj_pd i hp hi, fun ht => h.disj_td i ht hi⟩

theorem told_not_pending_todo_run (n : Nat) (ops : List (Op β)) (hv : ValidOps (init n) ops) :
    ∀ i ∈ keys (run (init n) ops), i ∉ (run (init n) ops).pending ∧ i ∉ (run (init n) ops).todo :=
  fun _ hi => told_not_pending_todo (inv_run ops _ (inv_init n) hv) hi

/-- right after `tell i v` the index `i` has a value and is neither pending nor to-do -/
theorem tell_not_pending_todo {s : State β} (h : Inv s) (i : Nat) (v : β) :
    i ∈ keys (tell s i v) ∧ i ∉ (tell s i v).pending ∧ i ∉ (tell s i v).todo := by
  refine ⟨mem_keys_dinsert.2 (Or.inl rfl), ?_, ?_⟩
  · intro hp
    exact (h.pending_nodup.mem_erase_iff.1 hp).1 rfl
  · intro ht
    exact ((mem_erase_sorted h.todo_sorted).1 ht).1 rfl

/-! ## C.3 a committing `ask` marks its points pending, and they stay pending -/

theorem mem_tellPending_pending (s : State β) (i j : Nat) :
    j ∈ (tellPending s i).pending ↔ j = i ∨ j ∈ s.pending := by
  unfold tellPending
  dsimp only
  split
  · rename_i h
    constructor
    · exact Or.inr
    · rintro (rfl | h')
      · exact h
      · exact h'
  · exact List.mem_cons

theorem mem_foldl_tellPending_pending (pts : List Nat) (s : State β) (j : Nat) :
    j ∈ (pts.foldl tellPending s).pending ↔ j ∈ pts ∨ j ∈ s.pending := by
  induction pts generalizing s with
  | nil => simp
  | cons p ps ih =>
    rw [List.foldl_cons, ih, mem_tellPending_pending, List.mem_cons]
    constructor
    · rintro (h | h | h)
      · exact Or.inl (Or.inr h)
      · exact Or.inl (Or.inl h)
      · exact Or.inr h
    · rintro ((h | h) | h)
      · exact Or.inr (Or.inl h)
      · exact Or.inl h
      · exact Or.inr (Or.inr h)

/-- the operation neither tells `i` nor is `remove_unfinished` -/
def KeepsPending (i : Nat) : Op β → Prop
  | .tell j _ => j ≠ i
  | .removeUnfinished => False
  | _ => True

theorem pending_stays_step {s : State β} {i : Nat} (hi : i ∈ s.pending) {op : Op β}
    (hop : KeepsPending i op) : i ∈ (step s op).pending := by
  cases op with
  | tell j v => exact (List.mem_erase_of_ne (Ne.symm hop)).2 hi
  | tellPending j => exact (mem_tellPending_pending s j i).2 (Or.inr hi)
  | removeUnfinished => exact absurd hop id
  | ask n c =>
    cases c
    · exact hi
    · exact (mem_foldl_tellPending_pending _ s i).2 (Or.inr hi)

theorem pending_stays_run {s : State β} {i : Nat} (hi : i ∈ s.pending) (ops : List (Op β))
    (hops : ∀ op ∈ ops, KeepsPending i op) : i ∈ (run s ops).pending := by
  induction ops generalizing s with
  | nil => exact hi
  | cons op ops ih =>
    exact ih (pending_stays_step hi (hops op List.mem_cons_self))
      (fun o ho => hops o (List.mem_cons_of_mem _ ho))

/-- **C10 / C.3**  every index returned by `ask n true` is pending (and no longer to-do) in the
resulting state, and stays pending along any continuation that neither tells it nor calls
`remove_unfinished` -/
theorem ask_commit_marks_pending (s : State β) (n : Nat) :
    ∀ i ∈ (ask s n true).1,
      i ∈ (ask s n true).2.pending ∧
      ∀ ops : List (Op β), (∀ op ∈ ops, KeepsPending i op) →
        i ∈ (run (ask s n true).2 ops).pending := by
  intro i hi
  have h1 : i ∈ (ask s n true).2.pending :=
    (mem_foldl_tellPending_pending _ s i).2 (Or.inl hi)
  exact ⟨h1, fun ops hops => pending_stays_run h1 ops hops⟩

/-- … and it has left the to-do set -/
theorem ask_commit_not_todo {s : State β} (h : Inv s) (n : Nat) :
    ∀ i ∈ (ask s n true).1, i ∉ (ask s n true).2.todo := by
  intro i hi ht
  have hspec := (foldl_tellPending_spec (askPoints s n) s h (take_sorted_nodup h.todo_sorted n)
    (fun i hi => List.mem_of_mem_take hi)).2.2.2.1 i
  exact (hspec.1 ht).2 hi

/-! ## C.4 `remove_unfinished` -/

theorem removeUnfinished_spec (s : State β) :
    (removeUnfinished s).pending = [] ∧
    lossNum (removeUnfinished s) false = lossNum (removeUnfinished s) true ∧
    (removeUnfinished s).data = s.data ∧ npoints (removeUnfinished s) = npoints s := by
  refine ⟨rfl, ?_, rfl, rfl⟩
  simp [lossNum, removeUnfinished]

/-! ## C.5 `npoints` is the number of distinct told indices -/

/-- the told indices along the op list, with repetitions -/
def toldIdx : List (Op β) → List Nat
  | [] => []
  | .tell i _ :: ops => i :: toldIdx ops
  | _ :: ops => toldIdx ops

theorem mem_toldIdx {ops : List (Op β)} {i : Nat} : i ∈ toldIdx ops ↔ ∃ v, Op.tell i v ∈ ops := by
  induction ops with
  | nil => simp [toldIdx]
  | cons op ops ih =>
    cases op with
    | tell j v =>
      simp only [toldIdx, List.mem_cons, ih]
      constructor
      · rintro (rfl | ⟨w, hw⟩)
        · exact ⟨v, Or.inl rfl⟩
        · exact ⟨w, Or.inr hw⟩
      · rintro ⟨w, hw | hw⟩
        · injection hw with h1 h2; exact Or.inl h1
        · exact Or.inr ⟨w, hw⟩
    | tellPending j => simp [toldIdx, ih]
    | removeUnfinished => simp [toldIdx, ih]
    | ask n c => simp [toldIdx, ih]

theorem mem_keys_run (ops : List (Op β)) (s : State β) (i : Nat) :
    i ∈ keys (run s ops) ↔ i ∈ keys s ∨ i ∈ toldIdx ops := by
  induction ops generalizing s with
  | nil => simp [run, toldIdx]
  | cons op ops ih =>
    show i ∈ keys (run (step s op) ops) ↔ _
    rw [ih]
    cases op with
    | tell j v =>
      show i ∈ (dinsert j v s.data).map Prod.fst ∨ _ ↔ _
      rw [mem_keys_dinsert]
      simp only [toldIdx, List.mem_cons, keys]
      constructor
      · rintro ((h | h) | h)
        · exact Or.inr (Or.inl h)
        · exact Or.inl h
        · exact Or.inr (Or.inr h)
      · rintro (h | h | h)
        · exact Or.inl (Or.inr h)
        · exact Or.inl (Or.inl h)
        · exact Or.inr h
    | tellPending j => rfl
    | removeUnfinished => rfl
    | ask n c =>
      unfold keys
      rw [show (step s (.ask n c)).data = s.data from data_ask s n c]
      rfl

/-- an index has a value iff it was told at least once -/
theorem mem_keys_iff_told (n : Nat) (ops : List (Op β)) (i : Nat) :
    i ∈ keys (run (init n) ops) ↔ ∃ v, Op.tell i v ∈ ops := by
  rw [mem_keys_run, ← mem_toldIdx]
  simp [init, keys]

/-- **C10 / C.5**  `npoints` is the number of distinct told indices (for every op list) -/
theorem npoints_eq_distinct_told (n : Nat) (ops : List (Op β)) :
    npoints (run (init n) ops) = (toldIdx ops).dedup.length := by
  have hs : (keys (run (init n : State β) ops)).Pairwise (· < ·) :=
    sorted_run (by simp [init, keys]) ops
  have hperm : (keys (run (init n : State β) ops)).Perm (toldIdx ops).dedup := by
    rw [List.perm_ext_iff_of_nodup (lt_pairwise_nodup hs) (List.nodup_dedup _)]
    intro i
    rw [List.mem_dedup, mem_keys_iff_told, mem_toldIdx]
  unfold npoints
  rw [← hperm.length_eq, keys, List.length_map]

/-! ## D. the data round trip (C13) -/

theorem dinsert_append_of_lt {k : Nat} {v : β} {d : List (Nat × β)}
    (h : ∀ j ∈ d.map Prod.fst, j < k) : dinsert k v d = d ++ [(k, v)] := by
  induction d with
  | nil => rfl
  | cons kv r ih =>
    obtain ⟨k', v'⟩ := kv
    have hk' : k' < k := h k' (by simp)
    unfold dinsert
    rw [if_neg (by omega), if_neg (by omega), ih (fun j hj => h j (by simp [hj]))]
    rfl

theorem setData_data (d : List (Nat × β)) (s : State β) :
    (setData s d).data = d.foldl (fun acc kv => dinsert kv.1 kv.2 acc) s.data := by
  unfold setData
  induction d generalizing s with
  | nil => rfl
  | cons p ps ih => rw [List.foldl_cons, List.foldl_cons, ih]; rfl

theorem foldl_dinsert_sorted (d acc : List (Nat × β))
    (h : ((acc ++ d).map Prod.fst).Pairwise (· < ·)) :
    d.foldl (fun acc kv => dinsert kv.1 kv.2 acc) acc = acc ++ d := by
  induction d generalizing acc with
  | nil => rw [List.foldl_nil, List.append_nil]
  | cons p ps ih =>
    have hp : dinsert p.1 p.2 acc = acc ++ [p] := by
      apply dinsert_append_of_lt
      intro j hj
      rw [List.map_append, List.pairwise_append] at h
      exact h.2.2 j hj p.1 (by simp)
    rw [List.foldl_cons, hp, ih]
    · rw [List.append_assoc]; rfl
    · rw [List.append_assoc]; exact h

/-- **C13**  Loading the saved data into a fresh learner reproduces `data` exactly (the keys of a
`SortedDict` are strictly increasing: `Inv.data_sorted`, `sorted_run`), hence `npoints` and every
stored value. -/
theorem setData_getData (n : Nat) {s : State β} (h : (keys s).Pairwise (· < ·)) :
    (setData (init n) (getData s)).data = s.data ∧
    npoints (setData (init n : State β) (getData s)) = npoints s ∧
    ∀ i, lookup i (setData (init n : State β) (getData s)).data = lookup i s.data := by
  have hd : (setData (init n) (getData s)).data = s.data := by
    rw [setData_data]
    show s.data.foldl (fun acc kv => dinsert kv.1 kv.2 acc) [] = s.data
    rw [foldl_dinsert_sorted s.data [] (by rw [List.nil_append]; exact h), List.nil_append]
  refine ⟨hd, ?_, ?_⟩
  · unfold npoints; rw [hd]
  · intro i; rw [hd]

/-- for every reachable state -/
theorem setData_getData_run (n m : Nat) (ops : List (Op β)) :
    (setData (init m) (getData (run (init n) ops))).data = (run (init n) ops).data :=
  (setData_getData m (sorted_run (by simp [init, keys]) ops)).1

/-- the restored learner has nothing pending, and exactly the indices without a value to do -/
theorem setData_pending_todo (d : List (Nat × β)) {s : State β} (ht : s.todo.Pairwise (· < ·))
    (hp : s.pending = []) :
    (setData s d).pending = [] ∧ (setData s d).todo.Pairwise (· < ·) ∧
    ∀ j, j ∈ (setData s d).todo ↔ j ∈ s.todo ∧ j ∉ d.map Prod.fst := by
  unfold setData
  induction d generalizing s with
  | nil => simp [hp, ht]
  | cons p ps ih =>
    have ht' : (tell s p.1 p.2).todo.Pairwise (· < ·) := ht.sublist List.erase_sublist
    have hp' : (tell s p.1 p.2).pending = [] := by simp [tell, hp]
    obtain ⟨a, b, c⟩ := ih ht' hp'
    rw [List.foldl_cons]
    refine ⟨a, b, ?_⟩
    intro j
    rw [c j]
    show j ∈ s.todo.erase p.1 ∧ _ ↔ _
    rw [mem_erase_sorted ht, List.map_cons, List.mem_cons, not_or]
    constructor
    · rintro ⟨⟨x, y⟩, z⟩; exact ⟨y, x, z⟩
    · rintro ⟨y, x, z⟩; exact ⟨⟨x, y⟩, z⟩

theorem setData_getData_todo (n : Nat) (s : State β) :
    (setData (init n) (getData s)).pending = [] ∧
    ∀ j, j ∈ (setData (init n) (getData s)).todo ↔ j < n ∧ j ∉ keys s := by
  obtain ⟨a, -, c⟩ := setData_pending_todo (getData s) (s := init n) (range_sorted n) rfl
  refine ⟨a, ?_⟩
  intro j
  rw [c j]
  simp [init, getData, keys]

end Seq
