import AdaptiveProofs.Lemmas.L1DEquivLoss

/-!
# Learner1D model: scale equivariance (C12), part 4 — `ask`, `loss`

No hypothesis on the loss function: `ask` and `loss` only read the tables.
-/
set_option linter.unusedSectionVars false
namespace L1D
variable {α : Type} [Field α] [LinearOrder α] [IsStrictOrderedRing α]
variable (lossFn : List (Option α) → List (Option (List α)) → Loss α) (r12 : α → α)

section ask
variable {cx cy : α} (hx : 0 < cx)
include hx

theorem missingBounds_scale (s : State α) :
    missingBounds (scaleState cx cy s) = (missingBounds s).map (fun x => cx * x) := by
  unfold missingBounds
  have e : (if (scaleState cx cy s).lo = (scaleState cx cy s).hi then [(scaleState cx cy s).lo]
      else [(scaleState cx cy s).lo, (scaleState cx cy s).hi]) =
      (if s.lo = s.hi then [s.lo] else [s.lo, s.hi]).map (fun x => cx * x) := by
    simp only [scaleState_lo, scaleState_hi, smul_eq hx]
    split <;> rfl
  rw [e, List.filter_map]
  congr 1
  apply List.filter_congr
  intro b _
  simp only [Function.comp, hasData_scale hx, scaleState_pending, contains_map (smono hx)]

/-- `loss(real)` is unchanged -/
theorem loss_scale (s : State α) (real : Bool) : loss (scaleState cx cy s) real = loss s real := by
  unfold loss
  rw [missingBounds_scale hx, List.isEmpty_map]
  cases (missingBounds s).isEmpty with
  | false => rfl
  | true =>
    simp only [Bool.not_true, Bool.false_eq_true, if_false]
    cases real with
    | true =>
      simp only [if_true, scaleState_losses]
      cases s.losses <;> rfl
    | false =>
      simp only [Bool.false_eq_true, if_false, scaleState_lossesC]
      cases s.lossesC <;> rfl

theorem askLoop_scale (s : State α) (k i : Nat) (quals : List (Qual α)) :
    askLoop r12 (scaleState cx cy s) k i (quals.map (sQual cx)) =
      (askLoop r12 s k i quals).map (sQual cx) := by
  induction k generalizing i quals with
  | zero => rfl
  | succ k ih =>
    have hget : (scaleState cx cy s).lossesC[i]? =
        (s.lossesC[i]?).map (fun e => (sIv cx e.1, e.2)) := by
      rw [scaleState_lossesC, sTab, List.getElem?_map]
    unfold askLoop
    rw [hget]
    cases hq : quals with
    | nil =>
      cases he : s.lossesC[i]? with
      | none => rfl
      | some e =>
        simp only [List.map_nil, Option.map_some, scaleState_scaleX]
        have := qinsert_scale r12 hx s.scaleX ⟨e.1.1, e.1.2, 2, Loss.divNat e.2 2⟩ []
        rw [← ih]
        exact congrArg _ this
    | cons q rest =>
      cases he : s.lossesC[i]? with
      | none =>
        simp only [List.map_cons, Option.map_none, scaleState_scaleX]
        have := qinsert_scale r12 hx s.scaleX
          ⟨q.l, q.r, q.n + 1, Loss.mulNatDivNat q.loss q.n (q.n + 1)⟩ rest
        rw [← ih]
        exact congrArg _ this
      | some e =>
        simp only [List.map_cons, Option.map_some, scaleState_scaleX]
        rw [ivalGeQual_scale r12 hx]
        split
        · have := qinsert_scale r12 hx s.scaleX ⟨e.1.1, e.1.2, 2, Loss.divNat e.2 2⟩ (q :: rest)
          rw [← ih]
          exact congrArg _ this
        · have := qinsert_scale r12 hx s.scaleX
            ⟨q.l, q.r, q.n + 1, Loss.mulNatDivNat q.loss q.n (q.n + 1)⟩ rest
          rw [← ih]
          exact congrArg _ this

/-- the initial `quals` of `askPoints` -/
def quals0E (s : State α) : List (Qual α) :=
  let mb := missingBounds s
  if mb.isEmpty then [] else
    let all := s.data.map Prod.fst ++ s.pending
    let q1 := if mb.contains s.lo then [(⟨s.lo, minOfL all, 1, .inf⟩ : Qual α)] else []
    let q2 := if mb.contains s.hi then [(⟨maxOfL all, s.hi, 1, .inf⟩ : Qual α)] else []
    (q1 ++ q2).foldl (fun qs q => qinsert r12 s.scaleX q qs) []

theorem foldl_qinsert_scale (S : α) (l acc : List (Qual α)) :
    (l.map (sQual cx)).foldl (fun qs q => qinsert r12 (cx * S) q qs) (acc.map (sQual cx)) =
      (l.foldl (fun qs q => qinsert r12 S q qs) acc).map (sQual cx) := by
  induction l generalizing acc with
  | nil => rfl
  | cons q r ih => simp only [List.map_cons, List.foldl_cons, qinsert_scale r12 hx, ih]

theorem quals0E_scale (s : State α) :
    quals0E r12 (scaleState cx cy s) = (quals0E r12 s).map (sQual cx) := by
  unfold quals0E
  dsimp only
  rw [missingBounds_scale hx, List.isEmpty_map]
  cases (missingBounds s).isEmpty with
  | true => rfl
  | false =>
    simp only [Bool.false_eq_true, if_false]
    have hall : (scaleState cx cy s).data.map Prod.fst ++ (scaleState cx cy s).pending =
        (s.data.map Prod.fst ++ s.pending).map (fun x => cx * x) := by
      simp only [scaleState_data, scaleState_pending, sData, List.map_append, List.map_map]
      rfl
    rw [hall, minOfL_scale hx, maxOfL_scale hx, scaleState_lo, scaleState_hi, scaleState_scaleX,
      contains_map (smono hx), contains_map (smono hx)]
    rw [← foldl_qinsert_scale r12 hx s.scaleX _ []]
    congr 1
    cases (missingBounds s).contains s.lo <;> cases (missingBounds s).contains s.hi <;> rfl

omit hx in
theorem askPoints_eq (s : State α) (n : Nat) :
    askPoints r12 s n =
      if n = 0 then ([], []) else
      if n ≤ (missingBounds s).length then ((missingBounds s).take n, List.replicate n .inf) else
      if s.data.length + s.pending.length = 0 then (npLinspace s.lo s.hi n, List.replicate n .inf) else
      (missingBounds s ++
        (askLoop r12 s (n - (missingBounds s).length) 0 (quals0E r12 s)).flatMap
          (fun q => linspace q.l q.r q.n),
       List.replicate (missingBounds s).length .inf ++
        (askLoop r12 s (n - (missingBounds s).length) 0 (quals0E r12 s)).flatMap
          (fun q => List.replicate (q.n - 1) q.loss)) := rfl

/-- Target 4: the points `ask` chooses are the scaled images; the loss improvements are equal. -/
theorem askPoints_scale (s : State α) (n : Nat) :
    askPoints r12 (scaleState cx cy s) n =
      ((askPoints r12 s n).1.map (fun x => cx * x), (askPoints r12 s n).2) := by
  rw [askPoints_eq, askPoints_eq, missingBounds_scale hx, List.length_map]
  have hl : (scaleState cx cy s).data.length + (scaleState cx cy s).pending.length =
      s.data.length + s.pending.length := by
    simp only [scaleState_data, scaleState_pending, sData, List.length_map]
  rw [hl]
  split
  · rfl
  · split
    · simp only [List.map_take]
    · split
      · simp only [scaleState_lo, scaleState_hi, npLinspace_scale]
      · rw [quals0E_scale r12 hx, askLoop_scale r12 hx]
        simp only [List.flatMap_map, List.map_append, List.map_flatMap, sQual, linspace_scale]

theorem ask_scale (s : State α) (n : Nat) (c : Bool) :
    (ask lossFn r12 (scaleState cx cy s) n c).2 = scaleState cx cy (ask lossFn r12 s n c).2 := by
  unfold ask
  dsimp only
  rw [askPoints_scale r12 hx]
  cases c with
  | false => rfl
  | true =>
    simp only [if_true]
    exact foldl_tellPending_scale lossFn r12 hx _ _

end ask

end L1D
