import AdaptiveModel.Gen.Prims
import AdaptiveModel.Gen.Constants
import Mathlib.Algebra.Order.Field.Basic
import Mathlib.Algebra.Order.Field.Rat

/-!
Vocabulary for the statements of `Props/C20.lean` (hand-written references the generated
definitions of `AdaptiveModel/Gen/Prims.lean` are compared with).
-/
namespace Prims
variable {α : Type}

/-- squared Euclidean distance in the plane -/
def dsq2 [Sub α] [Add α] [Mul α] (ax ay bx by' : α) : α :=
  (ax - bx) * (ax - bx) + (ay - by') * (ay - by')

/-- squared Euclidean distance in space -/
def dsq3 [Sub α] [Add α] [Mul α] (ax ay az bx by' bz : α) : α :=
  (ax - bx) * (ax - bx) + (ay - by') * (ay - by') + (az - bz) * (az - bz)

/-- twice the signed area of the triangle `p0 p1 p2` (2×2 determinant of the edge vectors) -/
def cross2 [Sub α] [Mul α] (x0 y0 x1 y1 x2 y2 : α) : α :=
  (x1 - x0) * (y2 - y0) - (x2 - x0) * (y1 - y0)

/-- six times the signed volume of the tetrahedron `p0 p1 p2 p3` (3×3 determinant of the edge vectors,
Laplace expansion along the first row) -/
def cross3 [Sub α] [Add α] [Mul α] (x0 y0 z0 x1 y1 z1 x2 y2 z2 x3 y3 z3 : α) : α :=
  (x1 - x0) * ((y2 - y0) * (z3 - z0) - (z2 - z0) * (y3 - y0))
  - (y1 - y0) * ((x2 - x0) * (z3 - z0) - (z2 - z0) * (x3 - x0))
  + (z1 - z0) * ((x2 - x0) * (y3 - y0) - (y2 - y0) * (x3 - x0))

/-- the law a square-root function is assumed to satisfy (IEEE rounding is outside, DESIGN.md 2.2) -/
def SqrtLaw [Mul α] [LE α] [OfNat α 0] (sqrt : α → α) : Prop :=
  ∀ x : α, 0 ≤ x → 0 ≤ sqrt x ∧ sqrt x * sqrt x = x

end Prims

/-- exact rational value of a generated constant -/
def Gen.Constants.Dbl.val (d : Gen.Constants.Dbl) : ℚ := (d.num : ℚ) / (d.den : ℚ)

namespace Prims
variable {α : Type}

/-- barycentric coordinates of `p` with respect to the triangle `p0 p1 p2` (ratios of signed areas:
independent of the orientation of the triangle) -/
def bary0 [Sub α] [Mul α] [Div α] (px py x0 y0 x1 y1 x2 y2 : α) : α :=
  cross2 px py x1 y1 x2 y2 / cross2 x0 y0 x1 y1 x2 y2
def bary1 [Sub α] [Mul α] [Div α] (px py x0 y0 x1 y1 x2 y2 : α) : α :=
  cross2 x0 y0 px py x2 y2 / cross2 x0 y0 x1 y1 x2 y2
def bary2 [Sub α] [Mul α] [Div α] (px py x0 y0 x1 y1 x2 y2 : α) : α :=
  cross2 x0 y0 x1 y1 px py / cross2 x0 y0 x1 y1 x2 y2

end Prims
