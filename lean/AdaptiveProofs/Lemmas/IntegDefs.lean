import AdaptiveModel.Integ
/-!
Histories of the IntegratorLearner model (`AdaptiveModel/Integ.lean`): operations, runs, traces, and the
invariants used by the C07 theorems.  Definitions only (shared by the `Lemmas/Integ*.lean` files).
-/
namespace Integ
variable {α : Type} [OfNat α 0] [DecidableEq α] [Div α] [OfNat α 2] [LT α] [DecidableLT α] [Sub α] [Mul α] [Add α] [Neg α]

/-- what can happen to a learner: a value arrives for ANY abscissa (handed out or not), a request of any size
(committing or rolled back; `fuel` bounds the `_fill_stack` calls of that request), and the environment event that
permutes equal-`rdepth` members of one `x_mapping` entry (deep copy of a rolled-back ask) -/
inductive Op (α : Type) where
  | tell (x : α)
  | ask (fuel n : Nat) (commit : Bool)
  | reorder (x : α) (ids : List Nat)

/-- one operation: state reached and exception raised -/
def stepE (O : Oracle α) (P : Params α) (s : St α) : Op α → St α × Option Err
  | .tell x => tell O P s x
  | .ask fuel n c => ((ask O P fuel s n c).1, (ask O P fuel s n c).2.1)
  | .reorder x ids => (reorder s x ids, none)

def step (O : Oracle α) (P : Params α) (s : St α) (op : Op α) : St α := (stepE O P s op).1

def run (O : Oracle α) (P : Params α) (s : St α) (ops : List (Op α)) : St α := ops.foldl (step O P) s

/-- the learner right after `__init__` -/
def start (O : Oracle α) (P : Params α) (a b errMax : α) : St α := (init O P a b errMax).1

/-- the exception (or `none`) raised by every operation of a history, in order -/
def trace (O : Oracle α) (P : Params α) : St α → List (Op α) → List (Option Err)
  | _, [] => []
  | s, op :: r => (stepE O P s op).2 :: trace O P (step O P s op) r

/-- the abscissae an operation returns to the caller (only a committing `ask` hands out abscissae) -/
def returned (O : Oracle α) (P : Params α) (s : St α) : Op α → List α
  | .ask fuel n true => (ask O P fuel s n true).2.2.1
  | _ => []

/-- all abscissae handed out along a history, in order -/
def returnedAll (O : Oracle α) (P : Params α) : St α → List (Op α) → List α
  | _, [] => []
  | s, op :: r => returned O P s op ++ returnedAll O P (step O P s op) r

/-- the abscissae of a rule are among those of the next finer rule (true of the Clenshaw–Curtis abscissae the code uses) -/
def Nested (O : Oracle α) : Prop := ∀ a b d, ∀ p ∈ O.pts a b d, p ∈ O.pts a b (d + 1)

/-- `S` is a cut of the subtree of `i`: every path from `i` down to a childless interval meets `S` exactly once.
Recursive form: `S = [i]`, or `i` has children and `S` is the disjoint union of one cut per child. -/
inductive IsCut (F : Forest α) : Nat → List Nat → Prop where
  | leaf (i : Nat) : IsCut F i [i]
  | node (i : Nat) (S : List Nat) (T : Nat → List Nat) :
      (getI F i).children ≠ [] → (∀ c ∈ (getI F i).children, IsCut F c (T c)) →
      S.Perm ((getI F i).children.flatMap T) → IsCut F i S

end Integ
