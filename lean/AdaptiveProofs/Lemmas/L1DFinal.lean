import AdaptiveProofs.Lemmas.L1DValid
import AdaptiveProofs.Lemmas.L1DGreedy

/-!
# Learner1D model: the top-level statements (C01 exact recomputation, non-negativity, C02 optimal
allocation without side conditions)

All statements are for arbitrary `lossFn`, `r12`, `nn`, over an arbitrary linearly ordered field,
for op lists of arbitrary length.  A *valid history* is `lo < hi` + `ValidOps` (`L1DBounds`); where
the values of the real table are needed (`RealVals`), additionally all told values have the same
number `d` of components (`OpDim d`).

* A. `lget_eq_some_iff_mem` — lookup vs membership in a table with distinct keys.
* B. `loss_is_true_max_factor_one`, `loss_is_max_of_stored_partial` (and their state-level forms
     `loss_is_true_max_of`, `loss_is_max_of_realVals`), `loss_inf_iff`.
* C. `NonNegLoss`; `nonneg_reachable` (both tables, ANY history: invariant `LossesAll` +
     `CombVals`); `nonneg_run` (the same for valid histories through `RealVals`), state-level
     `nonneg_losses_of_realVals`, `nonneg_lossesC_of_combVals`.
* D. `ask_optimal_run`, `ask_optimal_run_card`; `scaleOK_run_of_valid`,
     `lossScale_eq_scaleX_of_valid` (the x-scale bookkeeping is the initial one after EVERY valid
     history — the batch path included, whether or not the batch contains the end points of the
     domain; before the repair `fix: Learner1D.tell_many batch path shrank the x-scale to the range of
     the points` this needed the end-point proviso of the old `ValidOp`).
-/
set_option linter.unusedSectionVars false
namespace L1D
variable {α : Type} [Field α] [LinearOrder α] [IsStrictOrderedRing α]

/-! ## A. table membership vs lookup -/

/-- a successful lookup returns an entry of the table (no hypothesis on the keys) -/
theorem mem_of_lget_eq_some {iv : Ival α} {v : Loss α} {l : List (Ival α × Loss α)}
    (h : lget iv l = some v) : (iv, v) ∈ l := by
  induction l with
  | nil => simp [lget] at h
  | cons f r ih =>
    rw [lget_cons_ite] at h
    split at h
    · rename_i hf
      obtain ⟨k, w⟩ := f
      simp only at hf
      simp only [Option.some.injEq] at h
      rw [← hf, ← h]
      exact List.mem_cons_self
    · exact List.mem_cons_of_mem _ (ih h)

/-- **A.** In a table with pairwise distinct keys, `lget iv l = some v` iff `(iv, v)` is an entry. -/
theorem lget_eq_some_iff_mem {l : List (Ival α × Loss α)} (hnd : (tkeys l).Nodup) (iv : Ival α)
    (v : Loss α) : lget iv l = some v ↔ (iv, v) ∈ l :=
  ⟨mem_of_lget_eq_some, fun h => lget_of_mem hnd h⟩

/-! ## B. the reported loss is the maximal loss -/

section lossmax
variable (lossFn : List (Option α) → List (Option (List α)) → Loss α) (r12 : α → α)

/-- state-level form of `loss_is_max_of_stored_partial`: structural invariant, sorted tables and
`RealVals` -/
theorem loss_is_max_of_realVals {s : State α} (hI : Inv s) (hts : TablesSorted r12 s)
    (hrv : RealVals lossFn s) (hm : missingBounds s = []) (hp : pairs s.xs ≠ []) :
    ∃ iv0 ∈ pairs s.xs, ∃ sy0, s.oldScaleY ≤ sy0 ∧ sy0 ≤ s.scaleY ∧
      loss s true = getLossAt lossFn s sy0 iv0.1 iv0.2 ∧
      ∀ iv ∈ pairs s.xs, ∃ sy, s.oldScaleY ≤ sy ∧ sy ≤ s.scaleY ∧
        finiteLoss r12 iv (getLossAt lossFn s sy iv.1 iv.2) s.lossScale ≤
          finiteLoss r12 iv0 (getLossAt lossFn s sy0 iv0.1 iv0.2) s.lossScale := by
  rcases loss_spec r12 s true with ⟨h | h, _⟩ | ⟨_, e, l, ht, hl, hmax⟩
  · exact absurd hm h
  · exfalso
    obtain ⟨iv, hiv⟩ := List.exists_mem_of_ne_nil _ hp
    have hk := (hI.losses_keys iv).2 hiv
    rw [lossTable_true] at h
    rw [h] at hk
    exact absurd hk List.not_mem_nil
  · rw [lossTable_true] at ht
    have he : e ∈ s.losses := by rw [ht]; exact List.mem_cons_self
    have hek : e.1 ∈ pairs s.xs := (hI.losses_keys e.1).1 (List.mem_map_of_mem he)
    obtain ⟨sy0, b1, b2, b3⟩ := hrv e.1 hek
    have he2 : e.2 = getLossAt lossFn s sy0 e.1.1 e.1.2 := by
      have := lget_of_mem hI.losses_nodup he
      rw [b3] at this
      exact (Option.some.inj this).symm
    refine ⟨e.1, hek, sy0, b1, b2, hl.trans he2, ?_⟩
    intro iv hiv
    obtain ⟨sy, c1, c2, c3⟩ := hrv iv hiv
    refine ⟨sy, c1, c2, ?_⟩
    have hmem := mem_of_lget_eq_some c3
    have := hmax hts _ (by rw [lossTable_true]; exact hmem)
    rw [he2] at this
    exact this

/-- state-level form of `loss_is_true_max_factor_one`: structural invariant, sorted tables and
exact values -/
theorem loss_is_true_max_of {s : State α} (hI : Inv s) (hts : TablesSorted r12 s)
    (hex : ∀ iv ∈ pairs s.xs, lget iv s.losses = some (getLoss lossFn s iv.1 iv.2))
    (hm : missingBounds s = []) (hp : pairs s.xs ≠ []) :
    ∃ iv0 ∈ pairs s.xs, loss s true = getLoss lossFn s iv0.1 iv0.2 ∧
      ∀ iv ∈ pairs s.xs,
        finiteLoss r12 iv (getLoss lossFn s iv.1 iv.2) s.lossScale ≤
          finiteLoss r12 iv0 (getLoss lossFn s iv0.1 iv0.2) s.lossScale := by
  rcases loss_spec r12 s true with ⟨h | h, _⟩ | ⟨_, e, l, ht, hl, hmax⟩
  · exact absurd hm h
  · exfalso
    obtain ⟨iv, hiv⟩ := List.exists_mem_of_ne_nil _ hp
    have hk := (hI.losses_keys iv).2 hiv
    rw [lossTable_true] at h
    rw [h] at hk
    exact absurd hk List.not_mem_nil
  · rw [lossTable_true] at ht
    have he : e ∈ s.losses := by rw [ht]; exact List.mem_cons_self
    have hek : e.1 ∈ pairs s.xs := (hI.losses_keys e.1).1 (List.mem_map_of_mem he)
    have he2 : e.2 = getLoss lossFn s e.1.1 e.1.2 := by
      have := lget_of_mem hI.losses_nodup he
      rw [hex e.1 hek] at this
      exact (Option.some.inj this).symm
    refine ⟨e.1, hek, hl.trans he2, ?_⟩
    intro iv hiv
    have hmem := mem_of_lget_eq_some (hex iv hiv)
    have := hmax hts _ (by rw [lossTable_true]; exact hmem)
    rw [he2] at this
    exact this

/-- **B (C01, exact recomputation).**  Along every valid history (`lo < hi`, `ValidOps`, all told
values with `d` components) with `factor = 1`: if no bound is missing and there are at least two
evaluated points, the reported loss IS the loss function's value, on the data currently held, of an
interval `iv0` of neighbouring evaluated points that is maximal in rounded (infinity-aware) loss
among ALL intervals of neighbouring evaluated points. -/
theorem loss_is_true_max_factor_one {lo hi : α} (hlt : lo < hi) (factor dxEps : α) (nn : Nat)
    (hf : factor = 1) (d : Nat) (ops : List (Op α))
    (hv : ValidOps lossFn r12 (init lo hi factor dxEps nn) ops)
    (hd : ∀ op ∈ ops, OpDim d op) :
    let s := run lossFn r12 (init lo hi factor dxEps nn) ops
    missingBounds s = [] → pairs s.xs ≠ [] →
    ∃ iv0 ∈ pairs s.xs, loss s true = getLoss lossFn s iv0.1 iv0.2 ∧
      ∀ iv ∈ pairs s.xs,
        finiteLoss r12 iv (getLoss lossFn s iv.1 iv.2) s.lossScale ≤
          finiteLoss r12 iv0 (getLoss lossFn s iv0.1 iv0.2) s.lossScale := by
  intro s hm hp
  exact loss_is_true_max_of lossFn r12 (inv_run lossFn r12 lo hi factor dxEps nn ops)
    (tablesSorted_run lossFn r12 lo hi factor dxEps nn ops)
    (exact_values_of_factor_one lossFn r12 lo hi factor dxEps nn hf d ops hd
      (runInBox_of_valid_init lossFn r12 hlt factor dxEps nn ops hv)) hm hp

/-- **B (general `factor`).**  Along every valid history: if no bound is missing and there are at
least two evaluated points, the reported loss is the loss function's value on the current data of
an interval `iv0`, normalised with an admissible output scale (`oldScaleY ≤ sy0 ≤ scaleY`), and
every interval of neighbouring evaluated points has, at SOME admissible scale, a rounded loss not
exceeding it. -/
theorem loss_is_max_of_stored_partial {lo hi : α} (hlt : lo < hi) (factor dxEps : α) (nn : Nat)
    (d : Nat) (ops : List (Op α))
    (hv : ValidOps lossFn r12 (init lo hi factor dxEps nn) ops)
    (hd : ∀ op ∈ ops, OpDim d op) :
    let s := run lossFn r12 (init lo hi factor dxEps nn) ops
    missingBounds s = [] → pairs s.xs ≠ [] →
    ∃ iv0 ∈ pairs s.xs, ∃ sy0, s.oldScaleY ≤ sy0 ∧ sy0 ≤ s.scaleY ∧
      loss s true = getLossAt lossFn s sy0 iv0.1 iv0.2 ∧
      ∀ iv ∈ pairs s.xs, ∃ sy, s.oldScaleY ≤ sy ∧ sy ≤ s.scaleY ∧
        finiteLoss r12 iv (getLossAt lossFn s sy iv.1 iv.2) s.lossScale ≤
          finiteLoss r12 iv0 (getLossAt lossFn s sy0 iv0.1 iv0.2) s.lossScale := by
  intro s hm hp
  exact loss_is_max_of_realVals lossFn r12 (inv_run lossFn r12 lo hi factor dxEps nn ops)
    (tablesSorted_run lossFn r12 lo hi factor dxEps nn ops)
    (realVals_run lossFn r12 lo hi factor dxEps nn d ops hd
      (runInBox_of_valid_init lossFn r12 hlt factor dxEps nn ops hv)) hm hp

end lossmax

/-- **B.** `loss s real` is infinite iff a bound is missing, or the table it looks at is empty, or
the head entry of that table is itself infinite.  (Any state, no hypothesis.) -/
theorem loss_inf_iff (s : State α) (real : Bool) :
    loss s real = .inf ↔
      (missingBounds s ≠ [] ∨ lossTable s real = [] ∨
        ∃ e l, lossTable s real = e :: l ∧ e.2 = .inf) := by
  by_cases hm : missingBounds s = []
  · cases ht : lossTable s real with
    | nil =>
      exact ⟨fun _ => Or.inr (Or.inl rfl), fun _ => loss_inf_of_empty s real ht⟩
    | cons e l =>
      rw [loss_eq_head s real hm ht]
      constructor
      · intro h
        exact Or.inr (Or.inr ⟨e, l, rfl, h⟩)
      · rintro (h | h | ⟨e', l', h, h'⟩)
        · exact absurd hm h
        · cases h
        · rw [(List.cons.inj h).1]
          exact h'
  · exact ⟨fun _ => Or.inl hm, fun _ => loss_inf_of_missing s real hm⟩

/-! ## C. non-negativity -/

/-- the loss function returns no negative loss -/
def NonNegLoss (lossFn : List (Option α) → List (Option (List α)) → Loss α) : Prop :=
  ∀ xs ys v, lossFn xs ys = .fin v → 0 ≤ v

section nonneg
variable (lossFn : List (Option α) → List (Option (List α)) → Loss α) (r12 : α → α)

/-- `_get_loss_in_interval` returns `0` or a value of the loss function -/
theorem getLoss_nonneg (hnn : NonNegLoss lossFn) (s : State α) (a b v : α)
    (h : getLoss lossFn s a b = .fin v) : 0 ≤ v := by
  unfold getLoss at h
  split at h
  · cases h
    exact le_refl _
  · exact hnn _ _ v h

theorem getLossAt_nonneg (hnn : NonNegLoss lossFn) (s : State α) (sy a b v : α)
    (h : getLossAt lossFn s sy a b = .fin v) : 0 ≤ v :=
  getLoss_nonneg lossFn hnn _ a b v h

/-- the real table: from `RealVals` -/
theorem nonneg_losses_of_realVals (hnn : NonNegLoss lossFn) {s : State α} (hI : Inv s)
    (hrv : RealVals lossFn s) : ∀ e ∈ s.losses, ∀ v, e.2 = .fin v → 0 ≤ v := by
  intro e he v hev
  have hek : e.1 ∈ pairs s.xs := (hI.losses_keys e.1).1 (List.mem_map_of_mem he)
  obtain ⟨sy, _, _, b3⟩ := hrv e.1 hek
  have := lget_of_mem hI.losses_nodup he
  rw [b3] at this
  have h2 : getLossAt lossFn s sy e.1.1 e.1.2 = .fin v := (Option.some.inj this).trans hev
  exact getLossAt_nonneg lossFn hnn s sy _ _ v h2

/-- the combined table: from `CombVals` and non-negativity of the real table -/
theorem nonneg_lossesC_of_combVals {s : State α} (hI : Inv s) (hcv : CombVals s)
    (hw : ∀ e ∈ s.losses, ∀ v, e.2 = .fin v → 0 ≤ v) :
    ∀ e ∈ s.lossesC, ∀ v, e.2 = .fin v → 0 ≤ v := by
  intro e he v hev
  obtain ⟨⟨a, b⟩, L'⟩ := e
  simp only at hev
  subst hev
  have hek : (a, b) ∈ pairs s.xsC := (hI.lossesC_keys (a, b)).1 (List.mem_map_of_mem he)
  have hab : a < b := (pairs_sorted_spec hI.xsC_sorted hek).1
  have hget := lget_of_mem hI.lossesC_nodup he
  simp only at hget
  rcases hcv a b hek with ⟨l, r, L, h1, h2, h3, h4, h5⟩ | ⟨_, h5⟩
  · rw [hget] at h5
    have h6 := Option.some.inj h5
    cases L with
    | inf => simp [Loss.mulDiv] at h6
    | fin w =>
      simp only [Loss.mulDiv, Loss.fin.injEq] at h6
      have hw0 : 0 ≤ w := hw _ (mem_of_lget_eq_some h4) w rfl
      have hlr : 0 ≤ r - l := by linarith
      rw [h6]
      exact div_nonneg (mul_nonneg (by linarith) hw0) hlr
  · rw [hget] at h5
    cases h5

/-! ### a property of the values of `getLoss` holds of every entry of the real table

Every write into `losses` stores a value of `getLoss` (on the state of the moment); so a property
`R` that ALL values of `getLoss` have is an invariant of the entries of `losses` — for every
history, valid or not.  (Mirrors the stage decomposition used for `TS` in `L1DSorted`.) -/

/-- every entry of the table of evaluated intervals satisfies `R` -/
def LossesAll (R : Loss α → Prop) (s : State α) : Prop := ∀ e ∈ s.losses, R e.2

section lossesAll
variable {R : Loss α → Prop}

theorem la_congr {s s' : State α} (h : s'.losses = s.losses) (hs : LossesAll R s) :
    LossesAll R s' := by
  unfold LossesAll at *
  rw [h]; exact hs

theorem la_lset {s : State α} (iv : Ival α) (v : Loss α) (hv : R v) (hs : LossesAll R s) :
    LossesAll R { s with losses := lset r12 s.lossScale iv v s.losses } := by
  intro e he
  rcases (mem_lset r12).1 he with rfl | ⟨h, _⟩
  · exact hv
  · exact hs e h

theorem la_lerase {s : State α} (iv : Ival α) (lc : List (Ival α × Loss α))
    (hs : LossesAll R s) :
    LossesAll R { s with losses := lerase iv s.losses, lossesC := lc } :=
  fun e he => hs e ((mem_lerase).1 he).1

variable (hR : ∀ (s : State α) (a b : α), R (getLoss lossFn s a b))
include hR

theorem la_updInterp {s : State α} (xl xr : α) (hs : LossesAll R s) :
    LossesAll R (updInterp lossFn r12 s xl xr) := by
  have h := la_lset r12 (xl, xr) (getLoss lossFn s xl xr) (hR s xl xr) hs
  exact la_congr rfl h

theorem la_foldUpd {s : State α} (ivs : List (Ival α)) (hs : LossesAll R s) :
    LossesAll R (ivs.foldl (fun s iv => updInterp lossFn r12 s iv.1 iv.2) s) :=
  foldl_inv (LossesAll R) _ (fun _ iv h => la_updInterp lossFn r12 hR iv.1 iv.2 h) ivs hs

omit hR in
theorem la_ulStage1 {s : State α} (a b : Option α) (hs : LossesAll R s) :
    LossesAll R (ulStage1 s a b) := by
  unfold ulStage1
  split
  · exact la_congr rfl hs
  · exact hs

theorem la_ulStage2 {s : State α} (x : α) (real : Bool) (xl xr a b : Option α)
    (hs : LossesAll R s) : LossesAll R (ulStage2 lossFn r12 s x real xl xr a b) := by
  unfold ulStage2
  split
  · have hf := la_foldUpd lossFn r12 hR (getIntervals s x) hs
    dsimp only
    split
    · exact la_lerase _ _ hf
    · exact hf
  · split
    · exact la_congr rfl hs
    · exact hs

omit hR in
theorem la_ulStage3 {s : State α} (x : α) (a : Option α) (lu : Bool) (hs : LossesAll R s) :
    LossesAll R (ulStage3 r12 s x a lu) := by
  unfold ulStage3
  split
  · split
    · exact la_congr rfl hs
    · exact hs
  · exact hs

omit hR in
theorem la_ulStage4 {s : State α} (x : α) (b : Option α) (ru : Bool) (hs : LossesAll R s) :
    LossesAll R (ulStage4 r12 s x b ru) := by
  unfold ulStage4
  split
  · split
    · exact la_congr rfl hs
    · exact hs
  · exact hs

theorem la_updateLosses {s : State α} (x : α) (real : Bool) (hs : LossesAll R s) :
    LossesAll R (updateLosses lossFn r12 s x real) := by
  rw [updateLosses_eq]
  exact la_ulStage4 r12 _ _ _ (la_ulStage3 r12 _ _ _ (la_ulStage2 lossFn r12 hR _ _ _ _ _ _
    (la_ulStage1 _ _ hs)))

theorem la_maybeRescale {s : State α} (hs : LossesAll R s) :
    LossesAll R (maybeRescale lossFn r12 s) := by
  unfold maybeRescale
  split
  · exact la_congr rfl (la_foldUpd lossFn r12 hR _ hs)
  · exact hs

theorem la_tell {s : State α} (x : α) (y : List α) (hs : LossesAll R s) :
    LossesAll R (tell lossFn r12 s x y) := by
  unfold tell
  split
  · exact hs
  · exact la_maybeRescale lossFn r12 hR (la_updateLosses lossFn r12 hR _ _
      (la_congr (s := s) rfl hs))

theorem la_tellPending {s : State α} (x : α) (hs : LossesAll R s) :
    LossesAll R (tellPending lossFn r12 s x) := by
  unfold tellPending
  split
  · exact hs
  · exact la_updateLosses lossFn r12 hR _ _ (la_congr (s := s) rfl hs)

theorem la_tmbTail {s : State α} (xs xsC : List α) (hs : LossesAll R s) :
    LossesAll R (tmbTail lossFn r12 s xs xsC) := by
  unfold tmbTail
  have h1 := foldl_inv (LossesAll R)
    (fun s (iv : Ival α) =>
      { s with losses := lset r12 s.lossScale iv (getLoss lossFn s iv.1 iv.2) s.losses })
    (fun s iv h => la_lset r12 iv _ (hR s iv.1 iv.2) h) (pairs xs) hs
  have h2 := foldl_inv (fun acc : State α × List (Ival α) => LossesAll R acc.1)
    (fun (acc : State α × List (Ival α)) (iv : Ival α) =>
      let (s, ti) := acc
      match lget iv s.losses with
      | some v => ({ s with lossesC := lset r12 s.lossScale iv v s.lossesC }, ti)
      | none =>
        let s := { s with lossesC := lset r12 s.lossScale iv .inf s.lossesC }
        match ti.getLast? with
        | some (a, b) =>
          if b = iv.1 ∧ !(hasData s b) then (s, ti.dropLast ++ [(a, iv.2)])
          else (s, ti ++ [iv])
        | none => (s, ti ++ [iv])) ?_ (pairs xsC) (c := (_, [])) h1
  · dsimp only at h2 ⊢
    generalize List.foldl _ (_, []) (pairs xsC) = p at h2 ⊢
    obtain ⟨s2, ti⟩ := p
    dsimp only at h2 ⊢
    refine foldl_inv (LossesAll R) _ ?_ ti h2
    intro s iv h
    split
    · exact la_updInterp lossFn r12 hR _ _ h
    · exact h
  · rintro ⟨s, ti⟩ iv h
    dsimp only at h ⊢
    split
    · exact la_congr rfl h
    · have h' : LossesAll R { s with lossesC := lset r12 s.lossScale iv .inf s.lossesC } :=
        la_congr rfl h
      split
      · split
        · exact h'
        · exact h'
      · exact h'

theorem la_tellManyBatch (s : State α) (pts : List (α × List α)) :
    LossesAll R (tellManyBatch lossFn r12 s pts) := by
  have key : ∀ (s0 : State α) (xs xsC : List α), s0.losses = [] →
      LossesAll R (tmbTail lossFn r12 s0 xs xsC) := by
    intro s0 xs xsC h1
    refine la_tmbTail lossFn r12 hR _ _ ?_
    intro e he
    rw [h1] at he
    exact absurd he List.not_mem_nil
  exact key _ _ _ rfl

theorem la_step {s : State α} (op : Op α) (hs : LossesAll R s) :
    LossesAll R (step lossFn r12 s op) := by
  cases op with
  | tell x y => exact la_tell lossFn r12 hR x y hs
  | tellPending x => exact la_tellPending lossFn r12 hR x hs
  | tellMany pts f =>
    show LossesAll R (tellMany lossFn r12 s pts f)
    unfold tellMany
    split
    · exact foldl_inv (LossesAll R) _ (fun _ kv h => la_tell lossFn r12 hR kv.1 kv.2 h) pts hs
    · exact la_tellManyBatch lossFn r12 hR s pts
  | removeUnfinished => exact la_congr (s := s) rfl hs
  | ask n c =>
    show LossesAll R (ask lossFn r12 s n c).2
    unfold ask
    dsimp only
    split
    · exact foldl_inv (LossesAll R) _ (fun _ x h => la_tellPending lossFn r12 hR x h) _ hs
    · exact hs

/-- a property of all values of `getLoss` holds of every entry of `losses` in every reachable
state (any history) -/
theorem la_run (lo hi factor dxEps : α) (nn : Nat) (ops : List (Op α)) :
    LossesAll R (run lossFn r12 (init lo hi factor dxEps nn) ops) := by
  unfold run
  refine foldl_inv (LossesAll R) _ (fun _ op h => la_step lossFn r12 hR op h) ops ?_
  intro e he
  simp [init] at he

end lossesAll

/-- **C (strong form).**  If the loss function returns no negative loss then in EVERY reachable
state — any history from `init`, no validity hypothesis, no hypothesis on `lo`, `hi`, the number of
components of the values — every finite entry of the table of evaluated intervals and of the
combined table is non-negative. -/
theorem nonneg_reachable (hnn : NonNegLoss lossFn) (lo hi factor dxEps : α) (nn : Nat)
    (ops : List (Op α)) :
    let s := run lossFn r12 (init lo hi factor dxEps nn) ops
    (∀ e ∈ s.losses, ∀ v, e.2 = .fin v → 0 ≤ v) ∧
    (∀ e ∈ s.lossesC, ∀ v, e.2 = .fin v → 0 ≤ v) := by
  intro s
  have h1 : ∀ e ∈ s.losses, ∀ v, e.2 = .fin v → 0 ≤ v :=
    la_run (R := fun L => ∀ v, L = .fin v → 0 ≤ v) lossFn r12
      (fun s a b v h => getLoss_nonneg lossFn hnn s a b v h) lo hi factor dxEps nn ops
  exact ⟨h1, nonneg_lossesC_of_combVals (inv_run lossFn r12 lo hi factor dxEps nn ops)
    (combVals_run lossFn r12 lo hi factor dxEps nn ops) h1⟩

/-- **C (as specified, via `RealVals` + `CombVals`).**  If the loss function returns no negative
loss then, in every state reached by a valid history (`lo < hi`, `ValidOps`, all told values with
`d` components), every finite entry of the table of evaluated intervals and of the combined table is
non-negative.  (`nonneg_reachable` above is the same conclusion without any of these hypotheses.) -/
theorem nonneg_run (hnn : NonNegLoss lossFn) {lo hi : α} (hlt : lo < hi) (factor dxEps : α)
    (nn : Nat) (d : Nat) (ops : List (Op α))
    (hv : ValidOps lossFn r12 (init lo hi factor dxEps nn) ops)
    (hd : ∀ op ∈ ops, OpDim d op) :
    let s := run lossFn r12 (init lo hi factor dxEps nn) ops
    (∀ e ∈ s.losses, ∀ v, e.2 = .fin v → 0 ≤ v) ∧
    (∀ e ∈ s.lossesC, ∀ v, e.2 = .fin v → 0 ≤ v) := by
  intro s
  have hI : Inv s := inv_run lossFn r12 lo hi factor dxEps nn ops
  have hrv : RealVals lossFn s := realVals_run lossFn r12 lo hi factor dxEps nn d ops hd
    (runInBox_of_valid_init lossFn r12 hlt factor dxEps nn ops hv)
  have hcv : CombVals s := combVals_run lossFn r12 lo hi factor dxEps nn ops
  have h1 := nonneg_losses_of_realVals lossFn hnn hI hrv
  exact ⟨h1, nonneg_lossesC_of_combVals hI hcv h1⟩

/-! ## D. the allocation of `ask` is optimal in every reachable valid state -/

/-- the x bounding box, the input scale and the scale captured by the loss tables are those of the
initial state after every valid history (`ScaleOK` of `L1DGreedy`, there only proved for runs
WITHOUT a batch `tell_many`, `scaleOK_run`) -/
theorem scaleOK_run_of_valid {lo hi : α} (hlt : lo < hi) (factor dxEps : α) (nn : Nat)
    (ops : List (Op α)) (hv : ValidOps lossFn r12 (init lo hi factor dxEps nn) ops) :
    ScaleOK lo hi (run lossFn r12 (init lo hi factor dxEps nn) ops) := by
  obtain ⟨hb, -⟩ := binv_run lossFn r12 hlt factor dxEps nn ops hv
  have elo := run_lo lossFn r12 (init lo hi factor dxEps nn) ops
  have ehi := run_hi lossFn r12 (init lo hi factor dxEps nn) ops
  unfold ScaleOK scl
  rw [hb.bbox, hb.scaleX, hb.lossScale, elo, ehi]
  rfl

/-- `lossScale_eq_scaleX_run` for valid histories (batches allowed) -/
theorem lossScale_eq_scaleX_of_valid {lo hi : α} (hlt : lo < hi) (factor dxEps : α) (nn : Nat)
    (ops : List (Op α)) (hv : ValidOps lossFn r12 (init lo hi factor dxEps nn) ops) :
    (run lossFn r12 (init lo hi factor dxEps nn) ops).lossScale =
      (run lossFn r12 (init lo hi factor dxEps nn) ops).scaleX := by
  obtain ⟨hb, -⟩ := binv_run lossFn r12 hlt factor dxEps nn ops hv
  exact hb.lossScale.trans hb.scaleX.symm

/-- **D.**  `ask_greedy_optimal` in the states reached by valid histories, for a loss function
without negative values and a monotone rounding: the allocation computed by
`_ask_points_without_adding(n)` minimises the largest expected (rounded, per-part) loss.  All side
conditions of `ask_greedy_optimal` (`Inv`, points in `[lo, hi]`, sorted tables,
`lossScale = scaleX`, `0 < scaleX`, non-negative finite losses, the proviso of `ask`) are
discharged; what remains is that the learner knows at least one point (otherwise `ask` returns a
`linspace` of the domain and there is nothing to allocate).  `OpDim d` is NOT needed: the
non-negativity of the tables holds in every reachable state (`nonneg_reachable`). -/
theorem ask_optimal_run (hnn : NonNegLoss lossFn) (hr : Monotone r12) {lo hi : α} (hlt : lo < hi)
    (factor dxEps : α) (nn : Nat) (ops : List (Op α))
    (hv : ValidOps lossFn r12 (init lo hi factor dxEps nn) ops)
    (s : State α) (hs : s = run lossFn r12 (init lo hi factor dxEps nn) ops) (n : Nat)
    (hd : s.data.length + s.pending.length ≠ 0)
    (a : Cand s → ℕ) (ha : ∀ i, 1 ≤ a i)
    (hsum : ∑ i, a i = ∑ i : Cand s, gOf (askQuals r12 s n) i.1)
    (M : α) (hM : ∀ i : Cand s, r12 (wOf s i.1 / (a i : α)) ≤ M) :
    ∀ i : Cand s, r12 (wOf s i.1 / (gOf (askQuals r12 s n) i.1 : α)) ≤ M := by
  subst hs
  obtain ⟨hb, hI⟩ := binv_run lossFn r12 hlt factor dxEps nn ops hv
  have hts := tablesSorted_run lossFn r12 lo hi factor dxEps nn ops
  have hw := (nonneg_reachable lossFn r12 hnn lo hi factor dxEps nn ops).2
  have hne := (ask_proviso hI hb).resolve_left hd
  have hpos : 0 < (run lossFn r12 (init lo hi factor dxEps nn) ops).scaleX := by
    rw [hb.scaleX]
    exact sub_pos.2 hb.lt
  exact ask_greedy_optimal r12 hr _ n hI hd hb.xsC_in hts (hb.lossScale.trans hb.scaleX.symm) hpos
    hw hne a ha hsum M hM

/-- the same with the total number of parts spelled out: number of candidate intervals plus number
of points placed by the loop -/
theorem ask_optimal_run_card (hnn : NonNegLoss lossFn) (hr : Monotone r12) {lo hi : α}
    (hlt : lo < hi) (factor dxEps : α) (nn : Nat) (ops : List (Op α))
    (hv : ValidOps lossFn r12 (init lo hi factor dxEps nn) ops)
    (s : State α) (hs : s = run lossFn r12 (init lo hi factor dxEps nn) ops) (n : Nat)
    (hd : s.data.length + s.pending.length ≠ 0)
    (a : Cand s → ℕ) (ha : ∀ i, 1 ≤ a i)
    (hsum : ∑ i, a i = Fintype.card (Cand s) + (n - (missingBounds s).length))
    (M : α) (hM : ∀ i : Cand s, r12 (wOf s i.1 / (a i : α)) ≤ M) :
    ∀ i : Cand s, r12 (wOf s i.1 / (gOf (askQuals r12 s n) i.1 : α)) ≤ M := by
  subst hs
  obtain ⟨hb, hI⟩ := binv_run lossFn r12 hlt factor dxEps nn ops hv
  have hts := tablesSorted_run lossFn r12 lo hi factor dxEps nn ops
  have hw := (nonneg_reachable lossFn r12 hnn lo hi factor dxEps nn ops).2
  have hne := (ask_proviso hI hb).resolve_left hd
  have hpos : 0 < (run lossFn r12 (init lo hi factor dxEps nn) ops).scaleX := by
    rw [hb.scaleX]
    exact sub_pos.2 hb.lt
  exact ask_greedy_optimal_card r12 hr _ n hI hd hb.xsC_in hts
    (hb.lossScale.trans hb.scaleX.symm) hpos hw hne a ha hsum M hM

end nonneg

end L1D
