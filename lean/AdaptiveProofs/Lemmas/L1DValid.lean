import AdaptiveProofs.Lemmas.L1DValues
import AdaptiveProofs.Lemmas.L1DBounds

/-! Valid histories (the properties' quantifier, `ValidOps`) keep every told point inside the current
x-bounding box, which for them is the domain: `RunInBox` follows from `ValidOps`. -/
namespace L1D
variable {α : Type} [Field α] [LinearOrder α] [IsStrictOrderedRing α]
variable (lossFn : List (Option α) → List (Option (List α)) → Loss α) (r12 : α → α)

theorem opInBox_of_valid {s : State α} (hb : BInv s) {op : Op α} (hv : ValidOp s op) : OpInBox s op := by
  cases op with
  | tell x y =>
    simp only [OpInBox, hb.bbox]
    exact hv
  | tellPending x => trivial
  | tellMany pts force =>
    simp only [OpInBox, hb.bbox]
    intro _ kv hkv
    exact hv.1 kv hkv
  | removeUnfinished => trivial
  | ask n c => trivial

theorem runInBox_of_valid : ∀ (ops : List (Op α)) (s : State α), Inv s → BInv s →
    ValidOps lossFn r12 s ops → RunInBox lossFn r12 s ops
  | [], _, _, _, _ => trivial
  | op :: ops, s, hI, hb, hv =>
    ⟨opInBox_of_valid hb hv.1,
      runInBox_of_valid ops _ (inv_step lossFn r12 hI op) (binv_step lossFn r12 hI hb hv.1) hv.2⟩

theorem runInBox_of_valid_init {lo hi : α} (hlt : lo < hi) (factor dxEps : α) (nn : Nat)
    (ops : List (Op α)) (hv : ValidOps lossFn r12 (init lo hi factor dxEps nn) ops) :
    RunInBox lossFn r12 (init lo hi factor dxEps nn) ops :=
  runInBox_of_valid lossFn r12 ops _ (inv_init lo hi factor dxEps nn) (binv_init hlt factor dxEps nn) hv

end L1D
