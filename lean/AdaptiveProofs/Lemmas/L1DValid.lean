import AdaptiveProofs.Lemmas.L1DValues
import AdaptiveProofs.Lemmas.L1DBounds

/-! Valid histories (the properties' quantifier, `ValidOps`: every told / pending point inside the
domain, no empty batch) keep every told point inside the current x-bounding box, which for them is
the domain: `RunInBox` follows from `ValidOps`.

`ValidOps` no longer says anything about the end points of the domain.  Before the repair
`fix: Learner1D.tell_many batch path shrank the x-scale to the range of the points` a batch that did
not bring the box up to the domain left `bboxX ⊊ [lo, hi]`, a later in-bounds `tell` could fall
outside the box, and this glue needed the end-point proviso of the old `ValidOp`; now `BInv`
(`bboxX = (lo, hi)`) is an invariant of every in-bounds history (`binv_step`), so "inside the
domain" IS "inside the box". -/
namespace L1D
variable {α : Type} [Field α] [LinearOrder α] [IsStrictOrderedRing α]
variable (lossFn : List (Option α) → List (Option (List α)) → Loss α) (r12 : α → α)

theorem opInBox_of_valid {s : State α} (hb : BInv s) {op : Op α} (hv : ValidOp s op) : OpInBox s op := by
  cases op with
  | tell x y =>
    simp only [OpInBox, hb.bbox]
    exact hv
  | tellPending x => trivial
  | tellMany pts force =>
    simp only [OpInBox, hb.bbox]
    intro _ kv hkv
    exact hv.1 kv hkv
  | removeUnfinished => trivial
  | ask n c => trivial

theorem runInBox_of_valid : ∀ (ops : List (Op α)) (s : State α), Inv s → BInv s →
    ValidOps lossFn r12 s ops → RunInBox lossFn r12 s ops
  | [], _, _, _, _ => trivial
  | op :: ops, s, hI, hb, hv =>
    ⟨opInBox_of_valid hb hv.1,
      runInBox_of_valid ops _ (inv_step lossFn r12 hI op) (binv_step lossFn r12 hI hb hv.1) hv.2⟩

/-- `RunInBox` (the hypothesis of `realVals_run`, `exact_values_of_factor_one`) for every valid
history from `init` — in particular for histories whose batches do not contain the end points. -/
theorem runInBox_of_valid_init {lo hi : α} (hlt : lo < hi) (factor dxEps : α) (nn : Nat)
    (ops : List (Op α)) (hv : ValidOps lossFn r12 (init lo hi factor dxEps nn) ops) :
    RunInBox lossFn r12 (init lo hi factor dxEps nn) ops :=
  runInBox_of_valid lossFn r12 ops _ (inv_init lo hi factor dxEps nn) (binv_init hlt factor dxEps nn) hv

end L1D
