import AdaptiveModel.DataSaver

namespace DataSaver
variable {P R : Type} [DecidableEq P]

theorem oget_oset_self (k : P) (v : R) (l : List (P × R)) : oget k (oset k v l) = some v := by
  induction l with
  | nil => simp [oset, oget]
  | cons kv r ih =>
    obtain ⟨k', v'⟩ := kv
    unfold oset; split
    · simp [oget]
    · rename_i h; simp [oget, h, ih]

theorem oget_oset_other {k k' : P} (h : k ≠ k') (v : R) (l : List (P × R)) :
    oget k (oset k' v l) = oget k l := by
  induction l with
  | nil => simp [oset, oget, h]
  | cons kv r ih =>
    obtain ⟨k'', v''⟩ := kv
    unfold oset; split
    · subst_vars; simp [oget, h]
    · simp [oget, ih]

end DataSaver
